CONSTANTS
  Files <- H2Files
  Dirs <- H2Dirs
  DirOf <- H2DirOf
  ParentOf <- H2ParentOf
  RoleOf <- H2RoleOf
  HNames <- HNamesMC
  VersionsOf <- H2Versions
  DiskOf <- H2Disk
  EventKinds <- HKinds2
  MaxLen = 4
  MaxQueries = 3
SPECIFICATION Spec
CHECK_DEADLOCK FALSE
PROPERTIES
  RefinesMirrorInd
INVARIANTS
  AbsInv
  MirrorAlways
  NoDangling
  WarmEqualsColdRepaired
  RepairedHistoryEqualsR
  EmitHist
  EmitTables
