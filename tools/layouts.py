"""Checks driven by the Layouts case table (spec/Layouts.tla): C01 C02 C04 C05 C08 C20 at library
level.  TLC enumerates every (layout, registration order), evaluates layer R and layer I on it and
prints one JSON case; here each case is rendered, replayed on the real library, and the real
answers are compared with layer R (the verdict) and layer I (model fidelity / known findings)."""
import json
import random

import common as C
import render as R

UNI = R.LAYOUT_UNIVERSE


def tier_cfg(tier):
    return "Layouts_quick.cfg" if tier == "quick" else "Layouts_thorough.cfg"


def defid(d):
    return None if d is None or d.get("file") == "NOFILE" else (d["file"], d["idx"])


class CaseCtx:
    """rendered files of one case + decoding of real answers to abstract identities"""

    def __init__(self, case):
        self.case = case
        self.files = {}
        for slot, mod in case["ws"].items():
            self.files[slot] = R.render_checked(UNI, slot, mod)

    def setup_ops(self):
        ops = []
        for p in case_list(self.case.get("plugins")):
            ops.append({"op": "mark_plugin", "path": UNI.paths[p]})
        for slot in self.case["order"]:
            ops.append({"op": "analyze", "path": UNI.paths[slot], "text": self.files[slot].text})
        return ops

    def decode_def(self, d):
        if d is None:
            return None
        if "panic" in d or "tool_error" in d:
            return ("PANIC", json.dumps(d))
        slot = UNI.slot_of_path.get(d["file"])
        if slot is None:
            return ("?", d["file"], d["line"])
        idx = self.files[slot].line_item.get(d["line"])
        return (slot, idx if idx is not None else -d["line"])

    def decode_use(self, u):
        slot = UNI.slot_of_path.get(u["file"])
        r = self.files[slot]
        for key, (ln, cs, ce) in r.use_pos.items():
            if ln == u["line"] and cs == u["sc"] and ce == u["ec"]:
                it = _item(self.case, slot, key[0])
                nm = _use_name(it, key[1], key[2])
                if nm == u["name"]:
                    return (slot, key[0], key[1], key[2])
        return ("?", u["file"], u["line"], u["sc"], u["ec"], u["name"])


def case_list(x):
    return list(x) if x else []


def _item(case, slot, idx):
    return case["ws"][slot]["items"][idx - 1]


def _use_name(it, uk, ui):
    key = {"p": "deps", "m": "marks", "pm": "marks", "c": "cmarks", "i": "ind"}[uk]
    return it[key][ui - 1]


def useid(u):
    return (u["file"], u["idx"], u["uk"], u["ui"])


def load_cases(tier, emit_needed):
    cfg = tier_cfg(tier)
    meta = C.run_tlc("Layouts", cfg, workers=12, timeout=7200)
    if not meta["ok"]:
        raise C.ToolError("TLC on Layouts/%s failed: %s" % (cfg, meta["errors"]))
    return meta


def shape_key(case):
    return json.dumps(case["shape"], sort_keys=True)


def sampler(tier, frac_quick, frac_thorough):
    rnd = random.Random(C.seed())
    frac = frac_quick if tier == "quick" else frac_thorough
    return (lambda: rnd.random() < frac), frac


# ------------------------------------------------------------------------------------------- C01

def check_c01(tier):
    V = C.Verdict("C01", tier, "model_checking")
    meta = load_cases(tier, "goto")
    C.build_harness()
    ctxs = {}

    def gen():
        for n, case in enumerate(C.tlc_cases(meta)):
            ctx = CaseCtx(case)
            ops = ctx.setup_ops()
            plan = []
            for row in case["goto"]:
                u = row["u"]
                ln, cs, ce = ctx.files[u["file"]].use_pos[(u["idx"], u["uk"], u["ui"])]
                for col in range(cs, ce):
                    ops.append({"op": "goto", "path": UNI.paths[u["file"]], "line": ln - 1, "col": col})
                    plan.append((row, col))
            ctxs[n] = (ctx, plan, len(ops) - len(plan))
            yield {"id": n, "ops": ops}

    for res in C.run_harness(gen()):
        ctx, plan, off = ctxs.pop(res["id"])
        case = ctx.case
        for (row, col), ans in zip(plan, res["res"][off:]):
            V.count()
            py = {defid(d) for d in row["py"]}
            impl = defid(row["impl"])
            actual = ctx.decode_def(ans)
            u = row["u"]
            if len({defid(DD) for DD in _all_defs_named(case, row["name"])}) >= 2:
                V.nontriv((shape_key(case), tuple(case["order"]), useid(u)))
            if actual in py:
                continue
            example = {"shape": case["shape"], "order": case["order"], "usage": u, "col": col,
                       "expected_any_of": sorted(map(str, py)), "actual": str(actual),
                       "model_predicts": str(impl), "blame": row["blame"],
                       "files": {UNI.paths[s]: ctx.files[s].text for s in case["order"]}}
            if actual == impl:
                V.classify(row["blame"], example, "go-to-definition differs from pytest's resolution")
            else:
                V.drift += 1
                V.violation(example, "go-to-definition differs from pytest's resolution and from the implementation model")
        if res["id"] % 20000 == 0:
            V.sample({"shape": case["shape"], "order": case["order"],
                      "queries": len(plan)})
    return V.finish(
        coverage_extra=_tlc_cov(meta),
        rule="TLC enumerates every (layout, registration order) of spec/Layouts.tla; each is replayed in memory "
             "on the real library and find_fixture_definition is asked at every column of every usage token; "
             "non-trivial = at least two definitions of the queried name compete; distinct by (layout, order, usage)",
        assumptions=["layer R (spec/Workspace.tla) is read from the property statement; no pytest available to cross-check it",
                     "in-memory replay with virtual paths (file_cache decides conftest existence)"])


def _all_defs_named(case, name):
    out = []
    for slot, mod in case["ws"].items():
        for i, it in enumerate(case_list(mod["items"])):
            if it["k"] == "def" and it["name"] == name:
                out.append({"file": slot, "idx": i + 1})
    return out


def _tlc_cov(meta):
    return {"states": meta["distinct"], "transitions": meta["transitions"],
            "tlc": {"module": meta["module"], "cfg": meta["cfg"], "wall_s": meta["wall_s"],
                    "cached": meta.get("cached", False), "cmd": meta["cmd"]},
            "exhaustive": True}
