-------------------------- MODULE MirrorIndProofs --------------------------
(* TLAPS: Mirror /\ DefKeyed (without the typing conjunct) are inductive for ARBITRARY carrier sets Files, Names. *)
EXTENDS MirrorInd, TLAPS

Core == Mirror /\ DefKeyed

THEOREM InitCore == Init => Core
  BY DEF Init, Core, Mirror, DefKeyed

LEMMA CleanupKeeps ==
  ASSUME Core, NEW f \in Files, NEW D \in SUBSET Names, NEW U \in SUBSET Names, AnalyzeCleanup(f, D, U)
  PROVE  Core'
  BY DEF Core, Mirror, DefKeyed, AnalyzeCleanup

LEMMA FreshKeeps ==
  ASSUME Core, NEW f \in Files, NEW D \in SUBSET Names, NEW U \in SUBSET Names, AnalyzeFresh(f, D, U)
  PROVE  Core'
  BY DEF Core, Mirror, DefKeyed, AnalyzeFresh, HasRecords

THEOREM StepCore == Core /\ [Next]_vars => Core'
  <1> SUFFICES ASSUME Core, [Next]_vars PROVE Core'
    OBVIOUS
  <1>1 CASE UNCHANGED vars
    BY <1>1 DEF Core, Mirror, DefKeyed, vars
  <1>2 CASE ParseFailure
    BY <1>2 DEF ParseFailure, Core, Mirror, DefKeyed, vars
  <1>3 CASE \E f \in Files : \E D \in SUBSET Names : \E U \in SUBSET Names : AnalyzeCleanup(f, D, U) \/ AnalyzeFresh(f, D, U)
    BY <1>3, CleanupKeeps, FreshKeeps
  <1> QED
    BY <1>1, <1>2, <1>3 DEF Next

Spec == Init /\ [][Next]_vars
THEOREM Safety == Spec => []Core
  BY InitCore, StepCore, PTL DEF Spec
=============================================================================
