CONSTANTS
  MaxLen = 100000
  CfgVariants <- AllCfg
  DeepCfg <- AllCfg
SPECIFICATION TSpec
CHECK_DEADLOCK FALSE
INVARIANTS
  TConfigExact
  TPartialConfigKeepsRest
  TOwedSane
POSTCONDITION TraceAccepted
