------------------------------ MODULE ConcTrace ------------------------------
(***************************************************************************)
(* B2 for the concurrent analysis: the instrumented DashMap logs every      *)
(* shard-lock acquisition of the real threads (thread, map, shard, mode;    *)
(* per-thread sequence numbers taken while the lock is held).  Every        *)
(* scheduled execution of tools/concchecks.py is validated here: each       *)
(* acquisition on one of the four SHARED maps -- and the first write to     *)
(* file_cache -- must be the lock Conc.tla's Step(t) takes next in thread   *)
(* t's program (same map, same mode, the shard the model's placement        *)
(* assigns to the key), Step(t) must be enabled, and at the end of the log  *)
(* every thread has finished (Quiescent) in a state that satisfies          *)
(* Serializable / MirrorC / NoDanglingC.  Acquisitions on per-file maps and *)
(* caches are stuttering steps.  The key->shard placement (pu, pd) is NOT    *)
(* logged: TLC infers it (the Init / Reset alternatives that contradict a   *)
(* logged shard die at the first mismatch).                                 *)
(*   TRACE=<file> tlc -config ConcTrace.cfg ConcTrace.tla                   *)
(***************************************************************************)
EXTENDS Conc, IOUtils

Rec == ndJsonDeserialize(IOEnv.TRACE)
VARIABLE l
tvars == <<vars, l>>

SharedMaps == {"definitions", "file_definitions", "usages", "usage_by_fixture"}

\* the lock Step(t) takes next: [map, mode, shard] (shard -1 = any: per-file maps are keyed by the file, whose shard is not modelled)
NextLock(t) ==
    LET s == th[t]
        f == Job(t).f
        m == Job(t).m
        ops == WalkOps(f, m)
    IN  CASE s.pc = "cache" -> [map |-> "file_cache", mode |-> "W", shard |-> 0 - 1]
          [] s.pc = "iter0" -> [map |-> "usage_by_fixture", mode |-> "R", shard |-> 0]
          [] s.pc = "iter1" -> [map |-> "usage_by_fixture", mode |-> "R", shard |-> 1]
          [] s.pc = "ukey" /\ s.i <= Len(s.keys) -> [map |-> "usage_by_fixture", mode |-> "W", shard |-> pu[s.keys[s.i]]]
          [] s.pc = "urm" -> [map |-> "usage_by_fixture", mode |-> "W", shard |-> pu[s.keys[s.i]]]
          [] s.pc = "ukey" /\ s.i > Len(s.keys) -> [map |-> "usages", mode |-> "W", shard |-> 0 - 1]
          [] s.pc = "fdrm" -> [map |-> "file_definitions", mode |-> "W", shard |-> 0 - 1]
          [] s.pc = "dkey" -> [map |-> "definitions", mode |-> "W", shard |-> pd[s.names[s.i]]]
          [] s.pc = "drm" -> [map |-> "definitions", mode |-> "W", shard |-> pd[s.names[s.i]]]
          [] s.pc = "walk" ->
               LET op == ops[s.i] IN
               (CASE op.o = "use"  -> [map |-> "usages", mode |-> "W", shard |-> 0 - 1]
                  [] op.o = "ubf"  -> [map |-> "usage_by_fixture", mode |-> "W", shard |-> pu[op.u.name]]
                  [] op.o = "def"  -> [map |-> "definitions", mode |-> "W", shard |-> pd[m.items[op.i].name]]
                  [] op.o = "fdef" -> [map |-> "file_definitions", mode |-> "W", shard |-> 0 - 1])
          [] OTHER -> [map |-> "none", mode |-> "-", shard |-> 0 - 1]

Modelled(e) ==
    /\ e.t \in Threads
    /\ \/ e.map \in SharedMaps /\ ~(e.map # "usage_by_fixture" /\ e.mode = "R")     \* reads of definitions etc.: stuttering
       \/ e.map = "file_cache" /\ e.mode = "W" /\ th[e.t].pc = "cache"

TInit == /\ l = 1
         /\ sc = [prev |-> [f \in CFiles |-> Absent], job |-> [t \in Threads |-> [f |-> "fa", m |-> Module(<<>>), cleanup |-> TRUE]]]
         /\ pu \in [CNames -> Shards] /\ pd \in [CNames -> Shards]
         /\ ix = EmptyIndex(CNames, [f \in Files |-> NoMod])
         /\ th = [t \in Threads |-> Local("done")]
         /\ pk = [ubf |-> {}, defs |-> {}]
         /\ sched = <<>>

ScenOf(e) == [prev |-> [f \in CFiles |-> e.prev[f]], job |-> [t \in Threads |-> e.job[t]]]

TNext ==
    /\ l <= Len(Rec)
    /\ l' = l + 1
    /\ LET e == Rec[l] IN
       IF e.ev = "reset"
       THEN \* a new execution: the previous one ended quiescent; scenario from the log, placement free
            /\ Quiescent
            /\ sc' = ScenOf(e)
            /\ pu' \in [CNames -> Shards] /\ pd' \in [CNames -> Shards]
            /\ ix' = BuildFrom([EmptyIndex(CNames, [f \in Files |-> NoMod]) EXCEPT !.plugins = {}],
                               sc'.prev, SetToSeqC({ f \in Files : sc'.prev[f].present }), TRUE)
            /\ th' = [t \in Threads |-> Local("cache")]
            /\ pk' = PresentKeys(ix')
            /\ sched' = <<>>
       ELSE IF e.ev = "end"
       THEN Quiescent /\ UNCHANGED vars
       ELSE IF ~Modelled(e)
       THEN UNCHANGED vars
       ELSE LET want == NextLock(e.t) IN
            /\ want.map = e.map /\ want.mode = e.mode
            /\ (want.shard = 0 - 1 \/ want.shard = e.shard)
            /\ Step(e.t)
            /\ sched' = Append(sched, e.t)
            /\ UNCHANGED <<sc, pu, pd>>
TSpec == TInit /\ [][TNext]_tvars

\* Conc.tla's invariants, evaluated in every state of every validated execution
TSerializable == Serializable
TMirror == MirrorC
TNoDangling == NoDanglingC

\* the trace spec BRANCHES (placement is inferred): acceptance = some behaviour consumed every line
MaxL == TLCGet("stats").diameter - 1
TraceAccepted ==
    IF MaxL = Len(Rec) THEN TRUE
    ELSE Print(<<"TRACE-REJECTED longest explained prefix (lines)", MaxL, "of", Len(Rec)>>, FALSE)
=============================================================================
