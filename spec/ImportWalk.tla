----------------------------- MODULE ImportWalk -----------------------------
(***************************************************************************)
(* C12 (ii): termination of the memoised import recursion                  *)
(* (get_imported_fixtures, imports.rs:414-560) and of the scanner's        *)
(* fixpoint over newly discovered modules (scanner.rs:234-444) on EVERY    *)
(* import graph over a small module set -- self loops, 2- and 3-cycles,    *)
(* diamonds -- as an explicit-stack state machine (one action per call /   *)
(* return), so that TLC checks <>Done as a liveness property instead of    *)
(* relying on the evaluation of a recursive operator.                      *)
(***************************************************************************)
EXTENDS Naturals, Sequences, FiniteSets, TLC

CONSTANTS Mods
VARIABLES edges,     \* the import graph: [Mods -> SUBSET Mods] (star imports / pytest_plugins)
          stack,     \* call stack of get_imported_fixtures: Seq([m, todo : SUBSET Mods])
          visited,   \* the ONE visited set shared by a top-level call
          root,
          scanQ, scanDone   \* scan_imported_fixture_modules: files_to_check / processed_files
vars == <<edges, stack, visited, root, scanQ, scanDone>>

Init == /\ edges \in [Mods -> SUBSET Mods]
        /\ root \in Mods
        /\ stack = <<[m |-> root, todo |-> edges[root]]>>
        /\ visited = {root}
        /\ scanQ = {root} /\ scanDone = {}

Top == stack[Len(stack)]
\* descend into one not-yet-handled import of the frame on top (visited ones return at once)
Call == /\ stack # <<>> /\ Top.todo # {}
        /\ \E n \in Top.todo :
             LET rest == [stack EXCEPT ![Len(stack)] = [@ EXCEPT !.todo = @ \ {n}]]
             IN  IF n \in visited
                 THEN stack' = rest /\ UNCHANGED visited
                 ELSE stack' = Append(rest, [m |-> n, todo |-> edges[n]]) /\ visited' = visited \cup {n}
        /\ UNCHANGED <<edges, root, scanQ, scanDone>>
Return == /\ stack # <<>> /\ Top.todo = {}
          /\ stack' = SubSeq(stack, 1, Len(stack) - 1)
          /\ UNCHANGED <<edges, visited, root, scanQ, scanDone>>
\* scanner fixpoint: take a file to check, enqueue its not yet processed imports
ScanStep == /\ scanQ # {}
            /\ \E f \in scanQ :
                 /\ scanDone' = scanDone \cup {f}
                 /\ scanQ' = (scanQ \ {f}) \cup (edges[f] \ (scanDone \cup {f}))
            /\ UNCHANGED <<edges, stack, visited, root>>
Next == Call \/ Return \/ ScanStep
Spec == Init /\ [][Next]_vars /\ WF_vars(Call) /\ WF_vars(Return) /\ WF_vars(ScanStep)

Done == stack = <<>> /\ scanQ = {}
Terminates == <>Done
\* bounded work: the stack never exceeds the number of modules (no unbounded recursion)
BoundedStack == Len(stack) <= Cardinality(Mods)
\* the walk visits exactly the modules reachable from the root
RECURSIVE Reach(_, _)
Reach(S, seen) == LET n == UNION { edges[x] : x \in S } \ seen IN IF n = {} THEN seen ELSE Reach(n, seen \cup n)
VisitsReachable == Done => (visited = Reach({root}, {root}) /\ scanDone = Reach({root}, {root}))
=============================================================================
