CONSTANTS
  DevsOn <- MCDevsNow
  Deep = TRUE
SPECIFICATION Spec
CHECK_DEADLOCK FALSE
INVARIANTS
  RepairedRelocationInvariant
  FaultIsolation
  RepairedEqualsR
  EmitCase
  EmitAlphabet
