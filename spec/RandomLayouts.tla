--------------------------- MODULE RandomLayouts ---------------------------
(***************************************************************************)
(* The Layouts table enumerates a STRUCTURED product (one "kind" per        *)
(* conftest level, one name in the centre).  This module evaluates the     *)
(* same two layers -- layer R (Workspace.tla) and layer I (Index.tla) with  *)
(* blame -- on ARBITRARY workspaces over the same file slots: seeded random *)
(* compositions written by tools/randlayouts.py (several names defined,     *)
(* imported, overridden and used at once; definitions, imports and usages   *)
(* mixed in one file; any registration order).  The generator stays inside  *)
(* the judged universe of DESIGN.md Appendix A.3 (pytest_plugins only in    *)
(* the rootmost conftest, no conftest that both defines and imports one     *)
(* name, imports only in conftest / helper modules).  Every workspace is    *)
(* one TLC state; the invariants and the emitted case lines are those of    *)
(* Layouts.tla, so the same replayers judge them.                           *)
(*   RCASES=<ndjson> tlc -config RandomLayouts.cfg RandomLayouts.tla        *)
(***************************************************************************)
EXTENDS Layouts, IOUtils

RCases == ndJsonDeserialize(IOEnv.RCASES)

WsFrom(c) == [f \in MCFiles |-> IF f \in DOMAIN c.ws THEN c.ws[f] ELSE Absent]

RInit == stage = 0 /\ case = Dummy /\ vws = <<>> /\ vix = <<>>
\* two-stage fan-out so that TLC's workers share the table: stage 0 -> one state per bucket, stage 1 -> the bucket's cases
Buckets == 96
RNext ==
    \/ /\ stage = 0
       /\ \E b \in 0..(Buckets - 1) : stage' = 1 /\ case' = [shape |-> b, order |-> <<>>] /\ UNCHANGED <<vws, vix>>
    \/ /\ stage = 1
       /\ \E i \in { j \in 1..Len(RCases) : j % Buckets = case.shape } :
            LET c == RCases[i]
                w == WsFrom(c)
            IN  /\ stage' = 2
                /\ case' = [shape |-> c.shape, order |-> c.order]
                /\ vws' = w
                /\ vix' = Build(w, Names, c.order, PlugSetOf(w), [f \in MCFiles |-> NoMod])
=============================================================================
