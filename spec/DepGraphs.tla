----------------------------- MODULE DepGraphs -----------------------------
(***************************************************************************)
(* M2 case table for C16 (and the cycle / scope part of C08): dependency   *)
(* graphs over fixtures spread across files, with scopes.                  *)
(*                                                                         *)
(* Layer R: the per-DEFINITION dependency graph, each parameter resolved   *)
(* from the depending fixture's file with pytest's rules (Workspace.tla    *)
(* PyResolveSet, self-exclusion included); a cycle is a closed chain in    *)
(* it; a scope mismatch compares with the RESOLVED definition.             *)
(* Layer I: compute_fixture_cycles (resolver.rs:1505-1621) transcribed     *)
(* step by step -- name-level graph from definitions[name].first(),        *)
(* iterative DFS with explicit stack, roots in HashMap order (modelled as  *)
(* ALL root orders) -- and detect_scope_mismatches_in_file                 *)
(* (resolver.rs:1643-1688, dep_definitions.first()).                       *)
(***************************************************************************)
EXTENDS Index, Json

CONSTANTS Universe        \* "cycles" | "scopes"
VARIABLES stage, case, vws, vix
vars == <<stage, case, vws, vix>>

GFiles == {"c0", "c1", "cs", "t", "tp"}
GDirs  == {"R", "Ra", "Rab", "Rs", "T"}
GDirOf == [f \in GFiles |-> CASE f = "c0" -> "R" [] f = "c1" -> "Ra" [] f = "cs" -> "Rs" [] f = "t" -> "Rab" [] f = "tp" -> "T"]
GParentOf == [d \in GDirs |-> CASE d = "Rab" -> "Ra" [] d = "Ra" -> "R" [] d = "Rs" -> "R" [] OTHER -> "NODIR"]
GRoleOf == [f \in GFiles |-> CASE f = "t" -> "test" [] f = "tp" -> "third" [] OTHER -> "conftest"]
GNames == {"a", "b", "c"}

RECURSIVE SetToSeqG(_)
SetToSeqG(S) == IF S = {} THEN <<>> ELSE LET x == CHOOSE y \in S : TRUE IN <<x>> \o SetToSeqG(S \ {x})
PermsG(S) == { s \in [1..Cardinality(S) -> S] : \A i, j \in 1..Cardinality(S) : i # j => s[i] # s[j] }
SeqsOver(S) ==   \* all sequences without repetition over subsets of S (parameter lists)
    UNION { PermsG(T) : T \in SUBSET S }

----------------------------------------------------------------------------
(* compute_fixture_cycles, transcribed.  g: [name -> Seq(name)] (deps that are known fixtures)  *)
PosIn(seq, x) == LET S == { i \in 1..Len(seq) : seq[i] = x } IN IF S = {} THEN 1 ELSE Min(S)
SeqSet(seq) == { seq[i] : i \in 1..Len(seq) }

CycStep(g, s) ==
    LET top  == s.stack[Len(s.stack)]
        rest == SubSeq(s.stack, 1, Len(s.stack) - 1)
        cur  == top.node
        idx  == top.idx
        path == top.path
    IN  IF idx = 0 /\ cur \in s.rec
        THEN LET cyc == SubSeq(path, PosIn(path, cur), Len(path)) \o <<cur>>
                 key == SeqSet(SubSeq(cyc, 1, Len(cyc) - 1))
             IN  [s EXCEPT !.stack = rest,
                           !.seen = @ \cup {key},
                           !.cycles = IF key \in s.seen THEN @ ELSE Append(@, [path |-> cyc, fixture |-> cur])]
        ELSE LET rec1  == IF idx = 0 THEN s.rec \cup {cur} ELSE s.rec
                 path1 == IF idx = 0 THEN Append(path, cur) ELSE path
                 deps  == g[cur]
             IN  IF idx < Len(deps)
                 THEN LET dep == deps[idx + 1]
                          pushed == Append(rest, [node |-> cur, idx |-> idx + 1, path |-> path1])
                      IN  IF dep \in rec1
                          THEN LET cyc == SubSeq(path1, PosIn(path1, dep), Len(path1)) \o <<dep>>
                                   key == SeqSet(SubSeq(cyc, 1, Len(cyc) - 1))
                               IN  [s EXCEPT !.stack = pushed, !.rec = rec1,
                                             !.seen = @ \cup {key},
                                             !.cycles = IF key \in s.seen THEN @
                                                        ELSE Append(@, [path |-> cyc, fixture |-> dep])]
                          ELSE IF dep \notin s.visited
                          THEN [s EXCEPT !.stack = Append(pushed, [node |-> dep, idx |-> 0, path |-> path1]),
                                         !.rec = rec1]
                          ELSE [s EXCEPT !.stack = pushed, !.rec = rec1]
                 ELSE [s EXCEPT !.stack = rest, !.visited = @ \cup {cur}, !.rec = rec1 \ {cur}]

RECURSIVE CycRun(_, _)
CycRun(g, s) == IF s.stack = <<>> THEN s ELSE CycRun(g, CycStep(g, s))

RECURSIVE CycRoots(_, _, _)
CycRoots(g, s, roots) ==
    IF roots = <<>> THEN s
    ELSE IF Head(roots) \in s.visited THEN CycRoots(g, s, Tail(roots))
    ELSE CycRoots(g, CycRun(g, [s EXCEPT !.stack = <<[node |-> Head(roots), idx |-> 0, path |-> <<>>]>>,
                                          !.rec = {}]), Tail(roots))

ImplDepGraph(ix) ==
    LET keys == { n \in IndexNames(ix) : ix.defs[n] # <<>> }
    IN  [n \in keys |-> SelectSeq(ix.defs[n][1].deps, LAMBDA d : d \in keys)]

ImplCyclesFor(ix, roots) ==
    LET g == ImplDepGraph(ix)
        s == CycRoots(g, [stack |-> <<>>, rec |-> {}, visited |-> {}, seen |-> {}, cycles |-> <<>>], roots)
    IN  { [path |-> s.cycles[i].path, fixture |-> IdOf(ix.defs[s.cycles[i].fixture][1])] : i \in 1..Len(s.cycles) }

\* the roots are visited in sorted name order (since f0d21d2); with the deviation
\* cycle_hash_order_roots: every output a HashMap-ordered root sequence can produce
GNamesSorted == <<"a", "b", "c">>
ImplCyclesAllD(ix, D) ==
    LET keys == { n \in IndexNames(ix) : ix.defs[n] # <<>> }
    IN  IF "cycle_hash_order_roots" \in D
        THEN { ImplCyclesFor(ix, r) : r \in PermsG(keys) }
        ELSE { ImplCyclesFor(ix, SelectSeq(GNamesSorted, LAMBDA n : n \in keys)) }
ImplCyclesAll(ix) == ImplCyclesAllD(ix, AllDevs)

(* detect_scope_mismatches_in_file *)
ImplMismatches(ix, D, f) ==
    LET mine == { FirstWhere(ix.defs[n], LAMBDA x : x.file = f) : n \in ix.fdefs[f] } \ {NoRec}
        depdef(r, p) == IF "scope_check_first_def" \in D
                        THEN (IF ix.defs[p] = <<>> THEN NoRec ELSE ix.defs[p][1])
                        ELSE ImplClosest(ix, D, f, p, IF p = r.name THEN IdOf(r) ELSE NoDef)
    IN  UNION { { [fix |-> IdOf(r), dep |-> r.deps[j]] :
                    j \in { k \in 1..Len(r.deps) : depdef(r, r.deps[k]) # NoRec /\ r.scope > depdef(r, r.deps[k]).scope } }
                : r \in mine }

----------------------------------------------------------------------------
(* Layer R *)
PyEdges(ws) ==
    { <<D, E>> \in AllDefs(ws) \X AllDefs(ws) :
        \E t \in PyDepTargets(ws, D) : E \in t.to }
RECURSIVE ReachFrom(_, _, _)
ReachFrom(edges, frontier, seen) ==
    LET nxt == { e[2] : e \in { x \in edges : x[1] \in frontier } } \ seen
    IN  IF nxt = {} THEN seen ELSE ReachFrom(edges, nxt, seen \cup nxt)
PyOnCycle(ws) == { D \in AllDefs(ws) : D \in ReachFrom(PyEdges(ws), {D}, {}) }
PyMismatches(ws, f) ==
    UNION { { [fix |-> D, dep |-> t.dep] :
                t \in { x \in PyDepTargets(ws, D) :
                          \E E \in x.to : E # NoDef /\ DefItem(ws, E).scope < DefItem(ws, D).scope } }
            : D \in { X \in AllDefs(ws) : X.file = f } }

----------------------------------------------------------------------------
(* Universes *)
\* cycles: a, b, c each defined in c1 with any parameter list over {a,b,c}; optionally a
\* parameterless parent definition of any of them in c0; optionally an unrelated same-named
\* definition of "a" in the sibling conftest cs that depends on b
CycShapes ==
    [ da : SeqsOver(GNames), db : SeqsOver({"a", "c"}) \cup {<<"b">>}, dc : {<<>>, <<"a">>, <<"c">>, <<"b", "a">>},
      parents : SUBSET {"a", "b"}, sib : {"none", "a_plain", "a_dep_b", "b_dep_a"} ]
CycWs(c) ==
    [f \in GFiles |->
       CASE f = "c1" -> Module(<<PlainDef("a", c.da), PlainDef("b", c.db), PlainDef("c", c.dc)>>)
         [] f = "c0" -> IF c.parents = {} THEN Absent
                        ELSE Module([i \in 1..Cardinality(c.parents) |-> PlainDef(SetToSeqG(c.parents)[i], <<>>)])
         [] f = "cs" -> (CASE c.sib = "none" -> Absent
                          [] c.sib = "a_plain" -> Module(<<PlainDef("a", <<>>)>>)
                          [] c.sib = "a_dep_b" -> Module(<<PlainDef("a", <<"b">>), PlainDef("b", <<>>)>>)
                          [] c.sib = "b_dep_a" -> Module(<<PlainDef("b", <<"a">>), PlainDef("a", <<"b">>)>>))
         [] f = "t" -> Module(<<Test("test_1", <<"a">>)>>)
         [] OTHER -> Absent]

\* scopes: fixture a(b) in c1 or t with scope s; b defined at up to three levels with scopes
\*   bp: b provided (function-scoped) by an installed third-party plugin;
\*   selfdep: the definition of b in a's own file is an OVERRIDE that requests b itself (`def b(b)`), so within
\*   that one file the name b denotes two different definitions: the local one for a, the outer one for b
ScopeShapes ==
    { x \in [ where : {"c1", "t"}, sa : 0..4, b0 : {5, 0, 2, 4}, b1 : {5, 0, 1, 4}, bt : {5, 0, 3}, bs : {5, 0, 4},
              bp : {5, 0}, selfdep : BOOLEAN ] :        \* 5 = absent
        /\ (x.bp < 5 => x.bs = 5 /\ ~x.selfdep)
        /\ (x.selfdep => x.bs = 5 /\ (IF x.where = "c1" THEN x.b1 < 5 ELSE x.bt < 5)) }
ScopeWs(c) ==
    LET B(f, sc) == Def("b", IF c.selfdep /\ f = c.where THEN <<"b">> ELSE <<>>, sc, FALSE)
        A == Def("a", <<"b">>, c.sa, FALSE)
        items(f) == (IF (f = "c0" /\ c.b0 < 5) THEN <<B(f, c.b0)>> ELSE <<>>)
                    \o (IF (f = "c1" /\ c.b1 < 5) THEN <<B(f, c.b1)>> ELSE <<>>)
                    \o (IF (f = "t" /\ c.bt < 5) THEN <<B(f, c.bt)>> ELSE <<>>)
                    \o (IF (f = "cs" /\ c.bs < 5) THEN <<B(f, c.bs)>> ELSE <<>>)
                    \o (IF (f = "tp" /\ c.bp < 5) THEN <<B(f, c.bp)>> ELSE <<>>)
                    \o (IF f = c.where THEN <<A>> ELSE <<>>)
                    \o (IF f = "t" THEN <<Test("test_1", <<"a">>)>> ELSE <<>>)
    IN  [f \in GFiles |-> IF items(f) = <<>> THEN Absent ELSE Module(items(f))]

PresentG(w) == { f \in GFiles : w[f].present }
DefsOfFile(w, f) == \E i \in 1..Len(w[f].items) : w[f].items[i].k = "def"

Dummy == [shape |-> <<>>, order |-> <<>>]
Init == stage = 0 /\ case = Dummy /\ vws = <<>> /\ vix = <<>>
Next ==
    \/ /\ stage = 0 /\ Universe = "cycles"
       /\ \E da \in SeqsOver(GNames) :
            /\ stage' = 1 /\ case' = [shape |-> da, order |-> <<>>] /\ UNCHANGED <<vws, vix>>
    \/ /\ stage = 0 /\ Universe = "scopes"
       /\ \E sa \in 0..4 : \E wh \in {"c1", "t"} :
            /\ stage' = 1 /\ case' = [shape |-> <<sa, wh>>, order |-> <<>>] /\ UNCHANGED <<vws, vix>>
    \/ /\ stage = 1
       /\ \E c \in (IF Universe = "cycles" THEN { x \in CycShapes : x.da = case.shape }
                    ELSE { x \in ScopeShapes : x.sa = case.shape[1] /\ x.where = case.shape[2] }) :
            LET w == IF Universe = "cycles" THEN CycWs(c) ELSE ScopeWs(c) IN
            \E o0 \in PermsG({ f \in PresentG(w) : DefsOfFile(w, f) }) :
               LET o == SetToSeqG({ f \in PresentG(w) : ~DefsOfFile(w, f) }) \o o0 IN
               /\ stage' = 2
               /\ case' = [shape |-> c, order |-> o]
               /\ vws' = w
               /\ vix' = Build(w, GNames, o, {}, [f \in GFiles |-> NoMod])
Spec == Init /\ [][Next]_vars
Done == stage = 2

----------------------------------------------------------------------------
CaseJson ==
    [shape |-> case.shape, order |-> case.order, universe |-> Universe,
     ws |-> [f \in PresentG(vws) |-> vws[f]],
     plugins |-> {},
     cyclesImpl |-> ImplCyclesAll(vix),
     onCycle |-> PyOnCycle(vws),
     edges |-> { [from |-> e[1], to |-> e[2]] : e \in PyEdges(vws) },
     mismImpl |-> [f \in PresentG(vws) |-> ImplMismatches(vix, AllDevs, f)],
     mismPy |-> [f \in PresentG(vws) |-> PyMismatches(vws, f)]]
EmitCase == Done => PrintT("CASE " \o ToJson(CaseJson))

\* the repaired scope check (dependency resolved like navigation) equals layer R
RepairedScopeEqualsR ==
    Done => \A f \in PresentG(vws) : ImplMismatches(vix, {}, f) = PyMismatches(vws, f)

\* termination of the transcribed DFS is implicit in TLC evaluating CycRun to a value for every
\* graph and every root order (a non-terminating recursion would overflow the stack)
CyclesTerminate == Done => ImplCyclesAll(vix) # {}
=============================================================================
