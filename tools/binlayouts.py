"""The LSP-level tier of C01 / C04 / C05: layouts of the Layouts_cli table materialised on disk, the REAL
server binary started on them (initialize -> scan), and the handlers of src/providers compared with each
other and with layer R at every usage position: definition, hover, implementation,
prepareCallHierarchy, outgoingCalls, completion entry, references, codeLens titles, incomingCalls."""
import json
import os
import random
import re
import shutil

import common as C
import clichecks as CLI
import layouts as L
import lsp
import render as R

UNI = CLI.UNI


def run(V, tier, want, cfg="Layouts_cli.cfg", meta=None, cap=None):
    """want: subset of {"c01", "c02", "c04", "c05", "c08"}; returns number of sessions.
    meta: a case table other than a Layouts configuration (the random-workspace table)"""
    meta = meta or L.load_cases(cfg)
    C.build_server()
    by_shape = {}
    for case in C.tlc_cases(meta):
        if meta["module"] == "RandomLayouts":
            # the materialised tier knows one installed plugin (tp) without requests of its own; workspace plugins (editable
            # installs) are C14's universe
            if {"tp2", "tpi", "pl"} & set(case["ws"]) or any(it["deps"] for it in (case["ws"].get("tp") or {"items": []})["items"]):
                continue
        by_shape.setdefault(L.shape_key(case), []).append(case)
    if meta["module"] == "RandomLayouts":
        # only two registration orders of a random workspace are in the table, while the real scan's order is arbitrary:
        # workspaces in which the model holds ANY order-dependent deviation responsible for an answer are left to the
        # library tier (which replays exactly the table's orders)
        def order_free(cs):
            for c in cs:
                if any(r["blame"] for r in c["goto"]) or any(r["blame"] for r in c["rff"]):
                    return False
                if any(b for r in c["avail"] for b in r["blame"].values()):
                    return False
            return True
        by_shape = {k: v for k, v in by_shape.items() if order_free(v)}
    shapes = sorted(by_shape)
    rnd = random.Random(C.seed() + 17)
    rnd.shuffle(shapes)
    shapes = shapes[:cap or (120 if tier == "quick" else 1500)]
    base = os.path.join(C.BUILD, "ws", "bin-%s-%s-%d" % ("".join(sorted(want)), meta["module"], os.getpid()))
    shutil.rmtree(base, ignore_errors=True)

    def loc_key(loc, root):
        if not loc:
            return None
        if isinstance(loc, list):
            loc = loc[0] if loc else None
            if not loc:
                return None
        p = lsp.uri_to_path(loc["uri"])
        return (os.path.relpath(p, root), loc["range"]["start"]["line"] + 1)

    def session(job):
        n, sk = job
        cases = by_shape[sk]
        ctx = L.CaseCtx(cases[0])
        root = os.path.join(base, "t%d" % n)
        CLI.materialise(root, ctx)
        ws = os.path.join(root, "R")
        srv = lsp.Server(timeout=30)
        out = {"positions": [], "lenses": {}, "sk": sk}
        try:
            srv.initialize(ws)
            for slot, r in ctx.files.items():
                if slot in ("tp", "tpi"):
                    continue
                path = CLI.disk_path(root, slot)
                srv.did_open(path, r.text)
            for row in cases[0]["goto"]:
                u = row["u"]
                if u["file"] == "tp":
                    continue
                path = CLI.disk_path(root, u["file"])
                ln, cs, ce = ctx.use_pos(u)
                rec = {"u": u, "name": row["name"]}
                rec["definition"] = loc_key(srv.pos_request("textDocument/definition", path, ln - 1, cs), ws)
                rec["implementation"] = loc_key(srv.pos_request("textDocument/implementation", path, ln - 1, cs), ws)
                h = srv.pos_request("textDocument/hover", path, ln - 1, cs)
                rec["hover"] = (h or {}).get("contents", {}).get("value") if h else None
                pc = srv.pos_request("textDocument/prepareCallHierarchy", path, ln - 1, cs)
                rec["prepare"] = loc_key(pc[0] if pc else None, ws)
                refs = srv.pos_request("textDocument/references", path, ln - 1, cs, {"context": {"includeDeclaration": True}})
                rec["references"] = [(os.path.relpath(lsp.uri_to_path(x["uri"]), ws), x["range"]["start"]["line"] + 1,
                                      x["range"]["start"]["character"]) for x in (refs or [])]
                if pc:
                    inc = srv.request("callHierarchy/incomingCalls", {"item": pc[0]})
                    rec["incoming"] = len(inc or [])
                    if "c05" in want:
                        # outgoing calls asked with the item prepared AT THIS USAGE (the client echoes the item back)
                        og = srv.request("callHierarchy/outgoingCalls", {"item": pc[0]}) or []
                        rec["outgoing_from_usage"] = sorted(str(loc_key({"uri": o["to"]["uri"], "range": o["to"]["selectionRange"]}, ws)) for o in og)
                out["positions"].append(rec)
            if want & {"c04", "c05", "c08"}:
                # workspace/symbol and documentSymbol: one entry per definition of the workspace's own files, each exactly once
                ws_syms = srv.request("workspace/symbol", {"query": ""}) or []
                out["ws_symbols"] = sorted((os.path.relpath(lsp.uri_to_path(x["location"]["uri"]), ws), x["location"]["range"]["start"]["line"] + 1, x["name"])
                                           for x in ws_syms)
                out["doc_symbols"] = {}
                for slot, r in ctx.files.items():
                    if slot in ("tp", "pl", "tpi"):
                        continue
                    ds = srv.doc_request("textDocument/documentSymbol", CLI.disk_path(root, slot)) or []
                    out["doc_symbols"][slot] = sorted((x["selectionRange"]["start"]["line"] + 1, x["name"]) for x in ds)
            if "c05" in want:
                # inlay type hints: the type shown next to a parameter is the return type of ONE definition
                hints = {}
                for slot, r in ctx.files.items():
                    if slot in ("tp", "pl", "tpi"):
                        continue
                    nl = r.text.count("\n") + 1
                    hs = srv.doc_request("textDocument/inlayHint", CLI.disk_path(root, slot), {
                        "range": {"start": {"line": 0, "character": 0}, "end": {"line": nl, "character": 0}}}) or []
                    for h in hs:
                        lab = h["label"] if isinstance(h["label"], str) else "".join(p["value"] for p in h["label"])
                        hints[(slot, h["position"]["line"], h["position"]["character"])] = lab
                for rec in out["positions"]:
                    u = rec["u"]
                    if u["uk"] == "p":
                        ln, cs, ce = ctx.use_pos(u)
                        rec["inlay"] = hints.get((u["file"], ln - 1, ce))
            for slot, r in ctx.files.items():
                if slot in ("tp", "tpi"):
                    continue
                path = CLI.disk_path(root, slot)
                lens = srv.doc_request("textDocument/codeLens", path) or []
                out["lenses"][slot] = [(l["range"]["start"]["line"] + 1, l["command"]["title"]) for l in lens]
                if "c04" in want and slot != "pl":
                    # incoming calls asked from every definition line that carries a lens (also the later of two same-named ones)
                    for l in lens:
                        dl0 = l["range"]["start"]["line"]
                        col = next((ns for (dl, ns, ne) in r.def_name_pos.values() if dl - 1 == dl0), 4)
                        pc = srv.pos_request("textDocument/prepareCallHierarchy", path, dl0, col)
                        inc = srv.request("callHierarchy/incomingCalls", {"item": pc[0]}) if pc else None
                        out.setdefault("incoming_by_def", []).append(
                            {"slot": slot, "line": dl0 + 1, "lens": l["command"]["title"], "prepared": loc_key(pc[0] if pc else None, ws),
                             "incoming": None if inc is None else len(inc)})
                # C02: the NAME of an overriding fixture that requests its own name: definition and references asked there
                if "c02" in want and slot != "pl":      # (the plugin source lives outside the materialised workspace root)
                    for idx, (dl, ns, ne) in r.def_name_pos.items():
                        it = cases[0]["ws"][slot]["items"][idx - 1]
                        if it["name"] not in L.case_list(it["deps"]):
                            continue
                        for col in (ns, ne - 1):
                            refs = srv.pos_request("textDocument/references", path, dl - 1, col, {"context": {"includeDeclaration": True}})
                            out.setdefault("defname", []).append({
                                "d": [slot, idx], "col": col,
                                "definition": loc_key(srv.pos_request("textDocument/definition", path, dl - 1, col), ws),
                                "references": [(os.path.relpath(lsp.uri_to_path(x["uri"]), ws), x["range"]["start"]["line"] + 1,
                                                x["range"]["start"]["character"]) for x in (refs or [])]})
                # outgoing calls of every fixture defined in this file
                for idx, (dl, ns, ne) in r.def_name_pos.items():
                    pc = srv.pos_request("textDocument/prepareCallHierarchy", path, dl - 1, ns)
                    if pc:
                        og = srv.request("callHierarchy/outgoingCalls", {"item": pc[0]}) or []
                        out.setdefault("outgoing", []).append(
                            {"d": [slot, idx], "to": [loc_key({"uri": o["to"]["uri"], "range": o["to"]["selectionRange"]}, ws) for o in og],
                             "names": [o["to"]["name"] for o in og]})
            out["alive"] = srv.alive()
            return out
        except (lsp.ServerDied, lsp.Timeout) as e:
            out["error"] = str(e)
            return out
        finally:
            srv.close()
            shutil.rmtree(root, ignore_errors=True)

    results = lsp.run_parallel(list(enumerate(shapes)), session, workers=8)
    for sk, r in zip(shapes, results):
        cases = by_shape[sk]
        case0 = cases[0]
        ctx = L.CaseCtx(case0)
        texts = {CLI.rel_of_slot(s): x.text for s, x in ctx.files.items()}
        if r is None or "__exception__" in r:
            raise C.ToolError("LSP session failed: %r" % (r,))
        blame = set()         # deviations of navigation (go-to-definition) for this layout, over all orders
        for c in cases:
            for row in c["goto"]:
                blame |= set(row["blame"])
        ex = {"shape": case0["shape"], "files": texts, "blame": sorted(blame)}
        if "error" in r:
            V.violation(dict(ex, error=r["error"]), "the server died or stopped answering on a materialised layout")
            continue

        def rel_def(d):       # abstract def id -> (relative path, line)
            if d is None:
                return None
            return (CLI.rel_of_slot(d[0]), ctx.files[d[0]].item_line[d[1]])

        for rec in r["positions"]:
            V.count()
            u = rec["u"]
            V.nontriv((sk, L.useid(u)))
            row = next(x for x in case0["goto"] if L.useid(x["u"]) == L.useid(u))
            py = {rel_def(L.defid(d)) for d in row["py"]}
            impls = {rel_def(L.defid(x["impl"])) for c in cases for x in c["goto"] if L.useid(x["u"]) == L.useid(u)}
            e2 = dict(ex, usage=u, answers={k: rec.get(k) for k in ("definition", "implementation", "prepare")})
            if "c01" in want and rec["definition"] not in py:
                e3 = dict(e2, expected_any_of=sorted(map(str, py)))
                if rec["definition"] in impls:
                    V.classify(sorted(blame), e3, "textDocument/definition differs from pytest's resolution")
                else:
                    V.drift += 1
                    V.violation(e3, "textDocument/definition differs from pytest's resolution and from every order the model predicts")
            if "c05" in want:
                d = rec["definition"]
                # go-to-implementation lands where the fixture yields its value (generator fixtures), else on the def line
                d_impl = d
                if d is not None:
                    dsl = next((sl for sl in ctx.files if CLI.rel_of_slot(sl) == d[0]), None)
                    if dsl is not None:
                        didx = ctx.files[dsl].line_item.get(d[1])
                        if didx in ctx.files[dsl].yield_line:
                            d_impl = (d[0], ctx.files[dsl].yield_line[didx])
                if rec["implementation"] != d_impl or rec["prepare"] != d:
                    V.violation(e2, "definition, implementation and prepareCallHierarchy denote different definitions at one position")
                if d is not None:
                    hv = rec["hover"] or ""
                    # the hover names the defining file relative to the workspace root: it must not name ANOTHER file
                    # of the layout (wording / markup of the hover text is not judged)
                    named = [p for p in texts if re.search(r"(^|[^\w/.])" + re.escape(p) + r"($|[^\w/.])", hv)]
                    if not hv:
                        V.violation(dict(e2, hover=hv), "no hover where go-to-definition finds a fixture")
                    elif named and d[0] not in named:
                        V.violation(dict(e2, hover=hv), "hover describes another fixture than go-to-definition navigates to")
                    elif rec["name"] not in hv:
                        V.violation(dict(e2, hover=hv), "hover does not mention the fixture the cursor is on")
                elif rec["hover"]:
                    V.violation(dict(e2, hover=rec["hover"]), "hover shows a fixture where go-to-definition finds none")
                # the inlay hint next to a parameter names the return type of the definition go-to-definition selects
                # (every file of the layout annotates its fixtures with its own type)
                if rec.get("inlay") is not None and d is not None:
                    dslot = next((sl for sl in ctx.files if CLI.rel_of_slot(sl) == d[0]), None)
                    if dslot is not None:
                        want_t = R.ret_type_of(UNI, dslot)
                        if want_t not in rec["inlay"]:
                            e7 = dict(e2, inlay_hint=rec["inlay"], type_of_the_definition_navigated_to=want_t)
                            if blame:
                                V.classify(sorted(blame | {"avail_imported_first"}), e7, "the inlay type hint describes another definition than go-to-definition navigates to")
                            else:
                                V.violation(e7, "the inlay type hint describes another definition than go-to-definition navigates to")
            if "c05" in want and rec.get("outgoing_from_usage") is not None and rec["prepare"] is not None:
                # the outgoing calls of a fixture do not depend on WHERE its call-hierarchy item was prepared: at a usage in
                # some test module or on its own definition
                for o in r.get("outgoing", []):
                    if rel_def(tuple(o["d"])) == rec["prepare"]:
                        at_def = sorted(str(x) for x in o["to"])
                        if at_def != rec["outgoing_from_usage"]:
                            V.violation(dict(e2, outgoing_calls_prepared_at_this_usage=rec["outgoing_from_usage"],
                                             outgoing_calls_prepared_at_the_definition=at_def),
                                        "callHierarchy/outgoingCalls of one fixture differs with the position its item was prepared at")
                        break
            if "c04" in want and rec["definition"] is not None:
                # references from this usage = declaration + usages; must contain this usage (or its def line) and no duplicates
                refs = rec["references"]
                if len(refs) != len(set(refs)):
                    V.violation(dict(e2, references=refs), "textDocument/references lists a location twice")
                d = rec["definition"]
                lens = dict(r["lenses"].get(next((s for s in ctx.files if CLI.rel_of_slot(s) == d[0]), None), []))
                title = lens.get(d[1])
                n_refs = len([x for x in refs if (x[0], x[1]) != d])
                if title is not None:
                    n_lens = int(title.split()[0])
                    # the code lens counts every usage (also one on the definition's own line); references skip those
                    if n_lens < n_refs:
                        V.violation(dict(e2, lens=title, references=refs), "code lens usage count is smaller than the reference list")
                if "incoming" in rec and rec["incoming"] > (int(title.split()[0]) if title else 10 ** 6):
                    V.violation(dict(e2, lens=title, incoming=rec["incoming"]), "incoming calls exceed the code lens usage count")
        if "ws_symbols" in r:
            V.count()
            own = sorted((CLI.rel_of_slot(sl), ctx.files[sl].item_line[idx], it["name"]) for sl, idx, it in ctx.all_defs()
                         if sl not in ("tp", "pl", "tpi", "tp2"))
            got = [x for x in r["ws_symbols"] if not x[0].startswith((".venv", ".."))]
            if got != own:
                V.violation(dict(ex, workspace_symbols=got, definitions=own),
                            "workspace/symbol does not list every definition of the workspace's own files exactly once")
            for sl, lst in r["doc_symbols"].items():
                want_l = sorted((ctx.files[sl].item_line[idx], it["name"]) for s2, idx, it in ctx.all_defs() if s2 == sl)
                if lst != want_l:
                    V.violation(dict(ex, document=CLI.rel_of_slot(sl), document_symbols=lst, definitions=want_l),
                                "documentSymbol does not list every fixture the document declares exactly once")
        if "c04" in want:
            # the three COUNTS of C04 per definition: code lens, incoming calls, and the usages that navigate to it
            nav = {}
            for rec in r["positions"]:
                if rec["definition"] is not None:
                    nav[rec["definition"]] = nav.get(rec["definition"], 0) + 1
            for x in r.get("incoming_by_def", []):
                V.count()
                me = (CLI.rel_of_slot(x["slot"]), x["line"])
                n_nav = nav.get(me, 0)
                e6 = dict(ex, definition=list(me), code_lens=x["lens"], incoming_calls=x["incoming"], usages_navigating_to_it=n_nav,
                          call_hierarchy_item_points_at=x["prepared"])
                try:
                    n_lens = int(x["lens"].split()[0])
                except ValueError:
                    n_lens = None
                if n_lens is not None and n_lens != n_nav:
                    V.violation(e6, "the code lens usage count differs from the number of usages that navigate to the definition")
                if x["incoming"] is not None and x["incoming"] != n_nav:
                    V.violation(e6, "callHierarchy/incomingCalls differs from the number of usages that navigate to the definition")
        if "c02" in want:
            # usages (relative path, line, column) by the definition the real server navigates to from them
            by_def = {}
            for rec in r["positions"]:
                ln, cs, ce = ctx.use_pos(rec["u"])
                by_def.setdefault(rec["definition"], set()).add((CLI.rel_of_slot(rec["u"]["file"]), ln, cs))
                # the self-named parameter never navigates to its own fixture
                it = case0["ws"][rec["u"]["file"]]["items"][rec["u"]["idx"] - 1]
                if it["k"] == "def" and rec["u"]["uk"] == "p" and rec["name"] == it["name"] and rec["u"]["file"] != "pl":
                    V.count()
                    if rec["definition"] == rel_def((rec["u"]["file"], rec["u"]["idx"])):
                        V.violation(dict(ex, usage=rec["u"], definition=rec["definition"]),
                                    "textDocument/definition on a self-named parameter returns the overriding fixture itself")
            for dn in r.get("defname", []):
                V.count()
                V.nontriv((sk, tuple(dn["d"]), dn["col"], "defname"))
                me = rel_def(tuple(dn["d"]))
                e5 = dict(ex, fixture=dn["d"], col=dn["col"], definition=dn["definition"], references=dn["references"])
                if dn["definition"] is not None and dn["definition"] != me:
                    V.violation(e5, "textDocument/definition on an overriding fixture's NAME left the override")
                refs = [x for x in dn["references"] if (x[0], x[1]) != me]
                if len(refs) != len(set(refs)):
                    V.violation(e5, "textDocument/references from an overriding fixture's name lists a location twice")
                want_refs = by_def.get(me, set())
                # compared by (file, line): the start column of a STRING usage is the literal's, not the content's (C15's finding)
                if sorted((a, b) for a, b, _ in refs) != sorted((a, b) for a, b, _ in want_refs):
                    V.violation(dict(e5, expected=sorted(want_refs)),
                                "textDocument/references from an overriding fixture's NAME are not the usages that navigate to it")
        if "c05" in want:
            for og in r.get("outgoing", []):
                for c in cases[:1]:
                    rows = [x for x in c.get("rff", []) if L.defid(x["d"]) == tuple(og["d"])]
                    # an outgoing call is paired with the dependency of that NAME (a fixture may request several fixtures)
                    by_name = {}
                    for nm, to in zip(og.get("names", []), og["to"]):
                        by_name.setdefault(nm, to)
                    for row in rows:
                        if row["dep"] not in by_name:
                            continue
                        to = by_name[row["dep"]]
                        V.count()
                        py = {rel_def(L.defid(d)) for d in row["py"]}
                        if to not in py:
                            impls = {rel_def(L.defid(x["impl"])) for cc in cases for x in cc.get("rff", [])
                                     if L.defid(x["d"]) == tuple(og["d"]) and x["dep"] == row["dep"]}
                            e4 = dict(ex, fixture=og["d"], dependency=row["dep"], outgoing=to, expected_any_of=sorted(map(str, py)))
                            if to in impls:
                                V.classify(sorted(set(row["blame"]) | blame), e4, "callHierarchy/outgoingCalls denotes another definition than resolution selects")
                            else:
                                V.violation(e4, "callHierarchy/outgoingCalls differs from resolution and from the model")
    shutil.rmtree(base, ignore_errors=True)
    return len(shapes), meta


def large_workspace(V, tier):
    """C08 'in a new process': ONE large workspace (several hundred fixtures over a dozen files, names sharing prefixes, some names
    defined in several files) served by several FRESH server processes with different worker counts; every process must give
    the same answer to workspace/symbol (several queries), documentSymbol and code lenses, and workspace/symbol with the empty
    query must list every definition of the workspace exactly once."""
    import shutil
    C.build_server()
    base = os.path.join(C.BUILD, "ws", "c08big-%d" % os.getpid())
    shutil.rmtree(base, ignore_errors=True)
    nfiles, per = (12, 40) if tier == "quick" else (30, 60)
    want = []
    for f in range(nfiles):
        d = os.path.join(base, "pkg%d" % (f % 4))
        os.makedirs(d, exist_ok=True)
        name = "conftest.py" if f < 4 else "test_mod%d.py" % f
        lines = ["import pytest", "", ""]
        for k in range(per):
            fx = "fixture_%02d_%03d" % (f, k) if k % 5 else "shared_fixture_%03d" % k      # every 5th name is defined in every file
            lines += ["@pytest.fixture", "def %s():" % fx, "    return %d" % k, "", ""]
            want.append((os.path.join("pkg%d" % (f % 4), name), len(lines) - 3, fx))
        lines += ["def test_uses_%d(fixture_%02d_001, shared_fixture_000):" % (f, f), "    pass", ""]
        with open(os.path.join(d, name), "w") as fh:
            fh.write("\n".join(lines))
    want.sort()

    def session(threads):
        srv = lsp.Server(timeout=60, env={"RAYON_NUM_THREADS": str(threads)})
        try:
            srv.initialize(base)
            out = {}
            for q in ("", "fixture", "shared", "fixture_03", "zzz"):
                syms = srv.request("workspace/symbol", {"query": q}) or []
                out["symbol %r" % q] = sorted((os.path.relpath(lsp.uri_to_path(x["location"]["uri"]), base),
                                               x["location"]["range"]["start"]["line"] + 1, x["name"]) for x in syms) \
                    if isinstance(syms, list) else syms
            p0 = os.path.join(base, "pkg0", "conftest.py")
            ds = srv.doc_request("textDocument/documentSymbol", p0) or []
            out["documentSymbol"] = sorted((x["name"], x["selectionRange"]["start"]["line"]) for x in ds) if isinstance(ds, list) else ds
            cl = srv.doc_request("textDocument/codeLens", p0) or []
            out["codeLens"] = sorted((x["range"]["start"]["line"], (x.get("command") or {}).get("title")) for x in cl) if isinstance(cl, list) else cl
            return out
        except (lsp.ServerDied, lsp.Timeout) as e:
            return {"error": str(e)}
        finally:
            srv.close()

    procs = [1, 2, 4, 16] if tier == "quick" else [1, 2, 3, 4, 8, 16, 16, 16]
    results = lsp.run_parallel(procs, session, workers=4)
    shutil.rmtree(base, ignore_errors=True)
    n = 0
    for t, r in zip(procs, results):
        V.count()
        n += 1
        if r is None or "__exception__" in r:
            raise C.ToolError("LSP session failed: %r" % (r,))
        ex = {"workspace": "%d files x %d fixtures" % (nfiles, per), "RAYON_NUM_THREADS": t}
        if "error" in r:
            V.violation(dict(ex, error=r["error"]), "server died or stopped answering on a large workspace")
            continue
        if r["symbol ''"] != [tuple(x) for x in want] and r["symbol ''"] != want:
            got = [tuple(x) for x in r["symbol ''"]]
            missing = [x for x in want if tuple(x) not in set(got)]
            V.violation(dict(ex, listed=len(got), definitions=len(want), missing=missing[:10],
                             duplicates=len(got) - len(set(got))),
                        "workspace/symbol (empty query) does not list every definition of a large workspace exactly once")
        for k in sorted(r):
            if r[k] != results[0][k]:
                V.violation(dict(ex, request=k, this_process=str(r[k])[:600], first_process=str(results[0][k])[:600]),
                            "two fresh server processes answer the same request on the same workspace differently")
                break
    V.nontriv("c08 large workspace")
    return n
