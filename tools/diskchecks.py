"""C13 (discovery) and C14 (imports / plugins) on materialised directory trees."""
import json
import os
import shutil

import common as C

FILE_TMPL = "import pytest\n\n\n@pytest.fixture\ndef fx_%d():\n    return 1\n\n\ndef test_%d(fx_%d):\n    pass\n"


def path_key(p):
    return "/".join(list(p["dirs"] or []) + [p["file"]])


def check_c13(tier):
    V = C.Verdict("C13", tier, "model_checking")
    meta = C.run_tlc("Discovery", "Discovery.cfg", workers=8, timeout=3600)
    if not meta["ok"]:
        raise C.ToolError("TLC on Discovery failed: %s" % meta["errors"])
    C.build_harness()
    alpha = next(C.tlc_cases(meta, prefix="VERSIONS"))
    dirs, files = sorted(alpha["dirs"]), sorted(alpha["files"])
    dirseqs = [[]] + [[a] for a in dirs] + [[a, b] for a in dirs for b in dirs]
    paths = [{"dirs": d, "file": f} for d in dirseqs for f in files]
    index = {path_key(p): i for i, p in enumerate(paths)}
    cases = list(C.tlc_cases(meta))
    base = os.path.join(C.BUILD, "ws", "c13-%d" % os.getpid())
    shutil.rmtree(base, ignore_errors=True)
    trees = {}
    hcases = []
    for n, c in enumerate(cases):
        tk = (tuple(c["loc"]["above"]), c["loc"]["name"], c["fm"])
        if tk not in trees:
            root = os.path.join(base, "t%d" % len(trees), *c["loc"]["above"], c["loc"]["name"])
            for p in paths:
                i = index[path_key(p)]
                d = os.path.join(root, *p["dirs"])
                os.makedirs(d, exist_ok=True)
                fp = os.path.join(d, p["file"])
                if c["fm"] == "nonutf8" and p["file"] == "test_.py":
                    with open(fp, "wb") as fh:
                        fh.write(b"\xff\xfe\x00bad" + (FILE_TMPL % (i, i, i)).encode())
                elif c["fm"] == "dangling" and p["file"] == "_test.py":
                    os.symlink(os.path.join(d, "does_not_exist_%d" % i), fp)
                else:
                    with open(fp, "w") as fh:
                        fh.write(FILE_TMPL % (i, i, i))
            trees[tk] = root
        root = trees[tk]
        hcases.append({"id": n, "ops": [{"op": "scan", "root": root, "excludes": sorted(c["ex"] or [])},
                                        {"op": "snapshot", "full": True}]})
    results = list(C.run_harness(hcases, threads=4))
    for c, res in zip(cases, results):
        V.count()
        V.nontriv(json.dumps([c["loc"], sorted(c["ex"] or []), c["fm"]]))
        snap = res["res"][1]
        ex = {"root_location": c["loc"], "excludes": sorted(c["ex"] or []), "fault_mode": c["fm"]}
        if not isinstance(snap, dict) or "defs" not in snap or isinstance(res["res"][0], dict):
            V.violation(dict(ex, result=res["res"]), "workspace scan panicked or failed")
            continue
        got = set()
        for name, lst in snap["defs"].items():
            if name.startswith("fx_") and lst:
                got.add(int(name[3:]))
        got_u = set()
        for name in snap["ubf"]:
            if name.startswith("fx_"):
                got_u.add(int(name[3:]))
        py = {index[path_key(p)] for p in c["py"]}
        impl = {index[path_key(p)] for p in c["impl"]}
        if got != got_u:
            V.violation(dict(ex, only_defs=sorted(got - got_u)[:10], only_usages=sorted(got_u - got)[:10]),
                        "a scanned file has definitions without usages or vice versa")
        third = {d["third"] for lst in snap["defs"].values() for d in lst}
        if third - {c["thirdPy"]}:
            e3 = dict(ex, third_party_flags=sorted(third), blame=["third_party_by_substring"])
            if third == {c["thirdImpl"]}:
                V.classify(["third_party_by_substring"], e3, "workspace fixtures are classified third-party because of where the root lives")
            else:
                V.violation(e3, "workspace fixtures are classified third-party (not predicted by the model)")
        if got == py:
            continue
        inv = {v: k for k, v in index.items()}
        e2 = dict(ex, missing=[inv[i] for i in sorted(py - got)][:15], unexpected=[inv[i] for i in sorted(got - py)][:15],
                  n_expected=len(py), n_indexed=len(got), blame=sorted(c["blame"] or []))
        if got == impl:
            V.classify(sorted(c["blame"] or []), e2, "the set of indexed files differs from pytest's discovery rules relative to the root")
        else:
            V.drift += 1
            V.violation(e2, "the set of indexed files differs from the rules and from the implementation model")
    shutil.rmtree(base, ignore_errors=True)
    V.sample({"root_location": cases[0]["loc"], "excludes": cases[0]["ex"], "fault_mode": cases[0]["fm"], "files_in_tree": len(paths)})
    cov = {"states": meta["distinct"], "transitions": meta["transitions"], "traces_validated_against_impl": len(cases),
           "files_per_tree": len(paths), "exhaustive": True,
           "tlc": {"module": "Discovery", "wall_s": meta["wall_s"], "cached": meta.get("cached", False)}}
    return V.finish(
        coverage_extra=cov,
        rule="one tree holds the full product of <= 2 directory components over {ignored names, *.egg-info, near misses, plain} "
             "x 10 file names around the patterns (1330 files, each with a uniquely named fixture and usage); it is "
             "materialised under 6 root locations (plain; ancestors named build / env / .cache / containing "
             "'site-packages'; root itself named build) x 4 exclude sets x 3 fault modes (non-UTF-8 files, dangling "
             "symlinks) and scanned by the real library; the indexed set must equal PyIndexed (root-relative rules)",
        assumptions=["runs as root: permission-denied faults cannot be produced (invalid UTF-8 and dangling symlinks instead)",
                     "exclude patterns limited to the shapes `dir/**` and `**/name.py` (glob crate semantics)"])
