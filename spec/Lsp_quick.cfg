CONSTANTS
  MaxLen = 3
  CfgVariants <- MCCfgQuick
  DeepCfg <- MCDeep
SPECIFICATION Spec
CHECK_DEADLOCK FALSE
INVARIANTS
  TracksLatest
  RemovingCauseClears
  ConfigExact
  PartialConfigKeepsRest
  EmitCase
