"""B2 for the LSP layer: message logs of sessions of the real binary (tools/lsp.py, COLLECT on) are normalised to
ndjson and validated by TLC against spec/LspTrace.tla (protocol obligations of src/main.rs + Lsp.tla's Notify
for documents that carry an abstract (document, version) label)."""
import json
import os
import re
import subprocess
import time

import common as C
import lsp

LOG_CLASSES = [("Scanning workspace", "scanning"), ("Workspace scan complete", "scan_complete"), ("Workspace scan failed", "scan_failed"),
               ("No workspace root provided", "noroot"), ("pytest-language-server initialized", "initialized")]


def normalise(session):
    """one session's raw log -> LspTrace events (every field present in every event: TLC records are total)"""
    meta, raw = session["meta"], session["trace"]
    cfg = meta.get("cfg") or {"kind": "absent", "codes": []}
    base = {"ev": "", "id": -1, "method": "-", "uri": "-", "d": "-", "v": 0, "codes": [], "cls": "-", "file": False, "nchanges": 0,
            "error": False, "code": 0, "clean": True, "root": False, "cfg": {"kind": "absent", "codes": []}}
    out = [dict(base, ev="reset", root=bool(meta.get("root")), cfg={"kind": cfg["kind"], "codes": sorted(cfg["codes"])})]
    label = {}                       # uri -> abstract document of Lsp.tla
    for r in raw:
        m = r["method"]
        if r["dir"] == "c2s":
            if m == "response":
                out.append(dict(base, ev="sresp", id=r["id"]))
            elif "id" in r:
                out.append(dict(base, ev="req", id=r["id"], method=m))
            elif m in ("textDocument/didOpen", "textDocument/didChange"):
                tag = r.get("tag")
                uri = r.get("uri") or "-"
                if tag:
                    label[uri] = tag[0]
                out.append(dict(base, ev="doc", method=m.split("/")[1], uri=uri, d=tag[0] if tag else "-", v=tag[1] if tag else 0,
                                file=uri.startswith("file://"), nchanges=r.get("nchanges", 1)))
            else:
                out.append(dict(base, ev="notif", method=m, uri=r.get("uri") or "-"))
        elif r["dir"] == "s2c":
            if m == "response":
                out.append(dict(base, ev="resp", id=r["id"], error=bool(r.get("error"))))
            elif "id" in r:
                out.append(dict(base, ev="sreq", id=r["id"], method=m))
            elif m == "textDocument/publishDiagnostics":
                out.append(dict(base, ev="pub", uri=r["uri"], d=label.get(r["uri"], "-"), codes=list(r["codes"])))
            elif m == "window/logMessage":
                cls = next((c for t, c in LOG_CLASSES if t in r.get("message", "")), "other")
                out.append(dict(base, ev="log", cls=cls))
            else:
                out.append(dict(base, ev="log", cls="other"))
        else:
            code = r.get("code")
            out.append(dict(base, ev="end", code=code if isinstance(code, int) else -1, clean=bool(r.get("alive_before_close"))))
    return out


def tlc_validate(path, timeout=1800):
    env = C.scrubbed_env({"TRACE": path, "JAVA_TOOL_OPTIONS": "-Xss512m"})
    metadir = path + ".states"
    t = time.time()
    p = subprocess.run(["timeout", str(timeout), "tlc", "-workers", "1", "-metadir", metadir, "-cleanup", "-noGenerateSpecTE",
                        "-config", "LspTrace.cfg", "LspTrace.tla"], cwd=C.SPEC, env=env,
                       stdout=subprocess.PIPE, stderr=subprocess.STDOUT, text=True)
    subprocess.run(["rm", "-rf", metadir])
    out = p.stdout
    states = re.search(r"(\d+) states generated, (\d+) distinct states found", out)
    rejected = re.search(r"TRACE-REJECTED.*", out)
    m = re.search(r"first unmatched event \(1-based line\)\",\s*(\d+)", out)
    inv = re.search(r"Invariant (\w+) is violated", out)
    ok = "Model checking completed. No error has been found" in out and not rejected and not inv
    return {"ok": ok, "states": int(states.group(2)) if states else 0, "rejected": rejected.group(0)[:400] if rejected else None,
            "rejected_line": int(m.group(1)) if m else None, "invariant": inv.group(1) if inv else None,
            "wall_s": round(time.time() - t, 1), "tail": out[-2500:] if not ok and not rejected and not inv else ""}


def start():
    """switch collection on (call before the first session of a check)"""
    lsp.COLLECT = True
    with lsp._SLOCK:
        del lsp.SESSIONS[:]


def validate_collected(V, cap=None, what="sessions of the real binary", max_events=None):
    """validates the sessions collected since start(); a rejected session is a violation with that session as replay"""
    with lsp._SLOCK:
        sessions = list(lsp.SESSIONS)
        del lsp.SESSIONS[:]
    collected = len(sessions)
    if cap and len(sessions) > cap:
        step = len(sessions) / float(cap)
        sessions = [sessions[int(i * step)] for i in range(cap)]
    if max_events:
        # event budget: evenly spaced sessions until the budget is used up (long request-heavy sessions are expensive)
        total = sum(len(s["trace"]) for s in sessions)
        if total > max_events:
            keep = max(1, int(len(sessions) * max_events / float(total)))
            step = len(sessions) / float(keep)
            sessions = [sessions[int(i * step)] for i in range(keep)]
    if not sessions:
        return 0
    os.makedirs(os.path.join(C.BUILD, "tmp"), exist_ok=True)
    path = os.path.join(C.BUILD, "tmp", "lsp-trace-%s-%d.ndjson" % (V.prop, os.getpid()))
    spans, n = [], 0
    with open(path, "w") as fh:
        for s in sessions:
            evs = normalise(s)
            spans.append((n + 1, n + len(evs)))
            n += len(evs)
            for e in evs:
                fh.write(json.dumps(e) + "\n")
    total_events, accepted_sessions = n, 0
    r = tlc_validate(path)
    rejected = []
    # a rejection stops TLC at the first bad session: report it, cut it out, and validate the rest so that one defect
    # does not hide the others (at most 5 rounds)
    rounds = 0
    while not r["ok"] and rounds < 5:
        rounds += 1
        if not (r["rejected"] or r["invariant"]) or not r["rejected_line"]:
            if r["invariant"] and not r["rejected_line"]:
                rejected.append((None, r))
                break
            raise C.ToolError("TLC trace validation (LspTrace) failed to run: %s" % r["tail"])
        k = next(i for i, (a, b) in enumerate(spans) if a <= r["rejected_line"] <= b)
        rejected.append((sessions[k], dict(r, event_in_session=r["rejected_line"] - spans[k][0] + 1)))
        sessions = sessions[k + 1:]
        if not sessions:
            break
        spans, n = [], 0
        with open(path, "w") as fh:
            for s in sessions:
                evs = normalise(s)
                spans.append((n + 1, n + len(evs)))
                n += len(evs)
                for e in evs:
                    fh.write(json.dumps(e) + "\n")
        r = tlc_validate(path)
    try:
        os.unlink(path)
    except OSError:
        pass
    for s, rr in rejected:
        evs = normalise(s) if s else []
        i = rr.get("event_in_session", 0)
        V.violation({"tlc": rr["rejected"] or ("invariant %s violated" % rr["invariant"]), "session_events": evs[:i + 2][-40:],
                     "first_unexplained_event": evs[i - 1] if 0 < i <= len(evs) else None,
                     "rerun": "write the session's events as ndjson and run TRACE=<file> tlc -workers 1 -config LspTrace.cfg LspTrace.tla (cwd /verif/spec)"},
                    "a recorded session of the real server is not a behaviour of the specification (LspTrace.tla): an unanswered / "
                    "spurious response, an unsolicited or missing-cause publication, publication contents other than Lsp.tla's, "
                    "a failed scan, or an unclean exit")
    V.notes["lsp_trace_validation"] = {"what": what, "sessions_collected": collected, "sessions": len(spans) + sum(1 for _ in rejected), "events": total_events,
                                       "rejected_sessions": len(rejected), "tlc_wall_s": r["wall_s"], "tlc_states": r["states"]}
    return total_events if not rejected else 0
