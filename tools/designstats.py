"""Prints the per-property table of DESIGN.md section 10.3 from the evidence files of the last run (quick tier)."""
import json
import os

VERIF = os.path.dirname(os.path.dirname(os.path.abspath(__file__)))
WHAT = {
 "C01": "Layouts table (≤ 3 definers, all orders, 12 conftest kinds, two installed plugins, signature style varied) replayed, every column of every usage token; RandomLayouts.tla: 1 200 seeded random workspaces × 2 orders judged by the same layers; usage kinds incl. several names in one indirect string; LSP tiers: textDocument/definition on 120 materialised layouts + 60 random workspaces",
 "C02": "override-chain table (3 conftest levels × same file × plugin / third-party, both flags), every column of overriding def lines for goto + references; LSP tier: definition / references of the real binary on override names and self-named parameters; override chains of fixtures with unusual names (test_client, request_, non-ASCII), wrapped or not",
 "C03": "Extract.tla product (decorators incl. marks on fixtures, parameter kinds, bodies incl. several yields, docstrings) + CPython extraction + real analyzer, three-way; tests/test_project corpus; every analysis of the repository's own 710 tests (trace hook) validated by TLC against SuiteTrace.tla (oracle: CPython projection); decorator presets, alias-named parameters",
 "C04": "refs(D) = {u : goto(u) = D} on layout + chain tables, again after an in-place re-index (cleanup / fresh path); mirror; CLI unused; LSP tier: code lens = incoming calls = usages navigating to D (exact); random workspaces (library + LSP); own-import workspaces with a sibling test module",
 "C05": "four resolvers asked about the same (file, name) / (fixture, dependency); workspace-root variation; LSP tier: definition / implementation / prepare / hover / outgoing calls (prepared at a usage and on the definition) / inlay-hint type agree; random workspaces (library + LSP); workspaces whose conftest.py is a symbolic link (agreement only)",
 "C06": "every history (L ≤ 3) on long-lived vs fresh twin; B2 traces validated by TLC; LSP tier: 150 histories sent to the real binary (warm / burst / plain) vs a fresh server, all handlers, incl. random histories of 5..9 notifications and an earlier editing session; the repository's own test-suite validated against SuiteTrace.tla (oracle: fresh database); LspTrace.tla on every session",
 "C07": "four History.tla configurations (main incl. an unparsable importer, scan-as-event, conftest chain, closes of MODIFIED documents with the cold twin closing too): every interleaving of edits / cached queries (incl. cycle detection) / close / evict, warm vs cold twin on disk; real pressure eviction; LSP tiers (main + chain family with didOpen of unmodified documents as an event); B2 traces; 192 hand-built histories (go-to-definition / available fixtures / imported names) closing a conftest WITHOUT saving after an import-only edit, judged against a never-opened twin",
 "C08": "snapshot under every registration order (layout table) + cycle reports over orders and fresh processes' hash seeds (dep-graph table); random workspaces; own-import workspaces under two registration orders; one large workspace served by 4 fresh processes; field-level snapshots of override chains under every permutation of the files; own-import workspaces six times each (fresh hash seeds) incl. the unused list",
 "C09": "Conc.tla exhaustive + 1 500 simulated behaviours × {natural, one-shard} + random schedules on real threads (incl. files requesting one name twice); after quiescence every file is re-analysed once more and the reverse index must mirror; every lock log validated by TLC against ConcTrace.tla",
 "C10": "scan worker ∥ editor on the same file: simulated behaviours + both coarse orders, then every text as one further change; real binary racing the scan (also with the document being a symlink, opened AND edited during the scan, below a directory named like an exclude pattern)",
 "C11": "hostile (slot, string) documents × ≈ 500 library calls each; stale-position sessions (handlers warmed first; conftest above goes unparsable); documents with CR / CRLF / mixed line terminators; config / metadata sessions (import-hook .pth files); very large hostile definitions through the real binary",
 "C12": "lock traces of all entry points (natural + one-shard; unparsable round; import graphs in memory and on disk incl. real scan, plugin propagation, never-analysed modules; cache pressure: 2 050 files, eviction while requests run), Locks.tla on the extracted nesting templates, ImportWalk liveness, scheduled notification ∥ requests; chains of pass-through overrides that spell nothing through every handler",
 "C13": "product tree (12 directory names × 11 file names, ≤ 2 levels, plus a pulled-in module) × 8 root locations × 5 exclude sets × 3 fault modes × 4 ways of naming the root (canonical, symbolic link, link below an ignored name, ..), real scan",
 "C14": "import cases (spellings, packages, cycles, aliases, one package referenced twice, bare relative imports) + venv layouts (incl. what an entry module pulls in, and a package entry point whose __init__ only re-exports a module outside the package) materialised and scanned",
 "C15": "token layouts × LF/CRLF with same-length decoy re-analysis; LSP structural rules incl. no-final-newline documents, go-to-implementation and call-hierarchy ranges on fixtures with parameters (vs CPython parameter positions); published diagnostics must cover the identifier in the LATEST text after edits that move the fixtures",
 "C16": "dependency graphs × orders (+3 fresh databases each) and scope cases (incl. third-party provider, self-requesting override next to a dependent); per-file report = workspace report restricted to the file; disjoint cycles over colliding name sets, unknown names in front of the cycle-continuing parameter; histories with an earlier query (asked on the empty index, files then arriving on the scan path; asked after the first file)",
 "C17": "library cases with exact positions (binding forms incl. structural pattern matching); quick-fix / completion-edit round trips through the binary validated with CPython; code actions asked by a LATE client (warning of an earlier version)",
 "C18": "completion requests to the real binary (20 line roles × kinds × scopes × declared sets × stacked decorators; workspace plugin, doubly provided name, sibling asked first, incomplete forms typed above the other fixtures, mixin classes, dynamic scope)",
 "C19": "sessions of the real binary: histories × 27 configuration variants, three-way with Lsp.tla and a library twin, published findings compared as multisets (a version with two findings of one code on one fixture), one session in five through a symbolically linked workspace; every session's message log validated by TLC against LspTrace.tla",
 "C20": "library `unused` on the layout table + 500 materialised trees (with case-differing decoys) × CLI (unused text/json, list, two filters, 1/4/16 workers); override chains whose self-requesting parameter is spelled 11 ways vs the server's own reference counts",
}


def main():
    print("| id | what runs | evaluations | non-trivial | TLC states | wall | known findings met |")
    print("|---|---|---|---|---|---|---|")
    for i in range(1, 21):
        pid = "C%02d" % i
        p = os.path.join(VERIF, "evidence", pid + ".json")
        if not os.path.exists(p):
            continue
        e = json.load(open(p))
        c = e["coverage"]
        kf = ", ".join(sorted(c.get("known_findings", {}))) or "–"
        print("| %s | %s | %s | %s | %s | %.0f s | %s |" % (pid, WHAT[pid], f"{c.get('evaluations', 0):,}".replace(",", " "),
              f"{c.get('distinct_nontrivial', 0):,}".replace(",", " "), f"{c.get('states', 0):,}".replace(",", " "), e["wall_s"], kf))


if __name__ == "__main__":
    main()
