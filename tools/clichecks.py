"""C20: the CLI of the real binary (`fixtures unused`, `fixtures list`) on workspaces materialised
from the Layouts table (Layouts_cli.cfg), compared with layer R (PyUnused, PyRefs), with the
library's own answers (table part in layouts.check_c20_library) and with itself across runs."""
import json
import os
import random
import re
import shutil

import common as C
import layouts as L
import lsp
import render as R

UNI = R.LAYOUT_UNIVERSE
ANSI = re.compile(r"\x1b\[[0-9;]*m")


def disk_path(root, slot):
    p = UNI.paths[slot]
    if slot == "tp":
        return os.path.join(root, "R/.venv/lib/python3.11/site-packages/tp/plugin.py")
    assert p.startswith(R.VWS + "/")
    return os.path.join(root, p[len(R.VWS + "/"):])


def materialise(root, ctx):
    for slot, r in ctx.files.items():
        p = disk_path(root, slot)
        os.makedirs(os.path.dirname(p), exist_ok=True)
        with open(p, "w") as fh:
            fh.write(r.text)
    if "tp" in ctx.files:
        sp = os.path.join(root, "R/.venv/lib/python3.11/site-packages")
        di = os.path.join(sp, "tp-1.0.dist-info")
        os.makedirs(di, exist_ok=True)
        with open(os.path.join(di, "entry_points.txt"), "w") as fh:
            fh.write("[pytest11]\ntp = tp.plugin\n")
        open(os.path.join(sp, "tp", "__init__.py"), "w").close()
    if "tpi" in ctx.files:
        sp = os.path.join(root, "R/.venv/lib/python3.11/site-packages")
        di = os.path.join(sp, "tpi-1.0.dist-info")
        os.makedirs(di, exist_ok=True)
        with open(os.path.join(di, "entry_points.txt"), "w") as fh:
            fh.write("[pytest11]\ntpi = tpi.plugin\n")
        open(os.path.join(sp, "tpi", "__init__.py"), "w").close()
    os.makedirs(os.path.join(root, "R"), exist_ok=True)


def parse_unused_text(out):
    out = ANSI.sub("", out)
    res = []
    for line in out.splitlines():
        m = re.match(r"^\s+\S\s+(\S+) in (.+)$", line)
        if m:
            res.append((m.group(2).strip(), m.group(1)))
    return res


def parse_tree(out):
    """-> list of (relative file path, fixture name, info string)"""
    out = ANSI.sub("", out)
    lines = out.splitlines()
    entries = []
    stack = []   # (level, name)
    cur_file = None
    for line in lines[2:]:
        if not line.strip() or line.startswith("No fixtures"):
            continue
        m = re.match(r"^((?:│   |    )*)(├── |└── )?(.*)$", line)
        prefix, conn, label = m.group(1), m.group(2), m.group(3)
        level = len(prefix) // 4 + (1 if conn else 0)
        fm = re.match(r"^(.*) \((\d+) fixtures\)$", label)
        if label.endswith("/") or label.endswith("/ (editable install)"):
            name = label.split("/")[0]
            while stack and stack[-1][0] >= level:
                stack.pop()
            stack.append((level, name))
            cur_file = None
        elif fm:
            while stack and stack[-1][0] >= level:
                stack.pop()
            cur_file = "/".join([n for _, n in stack] + [fm.group(1)])
        else:
            m2 = re.match(r"^(\S+) \((.*)\)$", label)
            if m2 and cur_file is not None:
                entries.append((cur_file, m2.group(1), m2.group(2)))
            else:
                entries.append(("?", label, "?"))
    return entries


def count_of(info):
    m = re.search(r"used (\d+) time", info)
    return int(m.group(1)) if m else 0


def rel_of_slot(slot):
    if slot == "tp":
        return ".venv/lib/python3.11/site-packages/tp/plugin.py"
    return UNI.paths[slot][len(R.VWS + "/R/"):]


# decoys present in every materialised tree: unused project fixtures whose names (or directories) differ ONLY IN CASE,
# in directories no layout file can see -- they must be listed, counted 0, and always in the same order
DECOY_FILES = {
    "casing/conftest.py": "import pytest\n\n\n@pytest.fixture\ndef CaseFx():\n    return 1\n\n\n@pytest.fixture\ndef casefx():\n    return 2\n",
    "Casing2/conftest.py": "import pytest\n\n\n@pytest.fixture\ndef same_fx():\n    return 1\n",
    "casing2/conftest.py": "import pytest\n\n\n@pytest.fixture\ndef same_fx():\n    return 2\n",
}
DECOYS = {("casing/conftest.py", "CaseFx"), ("casing/conftest.py", "casefx"), ("Casing2/conftest.py", "same_fx"), ("casing2/conftest.py", "same_fx")}


def check_c20(tier):
    V = C.Verdict("C20", tier, "model_checking")
    # ---- part 1: library level over the whole layout table (unused set vs layer R)
    meta_lib, replayed = L.check_c20_library(V, tier)
    # ---- part 2: the real binary on materialised trees
    meta = L.load_cases("Layouts_cli.cfg")
    C.build_server()
    by_shape = {}
    for case in C.tlc_cases(meta):
        sk = L.shape_key(case)
        by_shape.setdefault(sk, []).append(case)
    shapes = sorted(by_shape)
    rnd = random.Random(C.seed())
    if tier == "quick":
        rnd.shuffle(shapes)
        shapes = shapes[:500]
    base = os.path.join(C.BUILD, "ws", "c20-%d" % os.getpid())
    shutil.rmtree(base, ignore_errors=True)

    def job(n_sk):
        n, sk = n_sk
        cases = by_shape[sk]
        ctx = L.CaseCtx(cases[0])
        root = os.path.join(base, "t%d" % n)
        materialise(root, ctx)
        ws = os.path.join(root, "R")
        for rel, text in DECOY_FILES.items():
            os.makedirs(os.path.dirname(os.path.join(ws, rel)), exist_ok=True)
            with open(os.path.join(ws, rel), "w") as fh:
                fh.write(text)
        out = {"sk": sk, "n": n}
        try:
            runs = []
            for threads in ("1", "4", "16"):
                rc, so, se = lsp.run_cli(["fixtures", "unused", ws], env={"RAYON_NUM_THREADS": threads})
                runs.append((rc, so))
            out["unused_runs"] = runs
            out["unused_json"] = lsp.run_cli(["fixtures", "unused", ws, "--format", "json"])[:2]
            out["list"] = [lsp.run_cli(["fixtures", "list", ws], env={"RAYON_NUM_THREADS": t})[:2] for t in ("1", "16")]
            out["list_skip"] = lsp.run_cli(["fixtures", "list", ws, "--skip-unused"])[:2]
            out["list_only"] = lsp.run_cli(["fixtures", "list", ws, "--only-unused"])[:2]
        finally:
            shutil.rmtree(root, ignore_errors=True)
        return out

    results = lsp.run_parallel(list(enumerate(shapes)), job, workers=8)
    trees = 0
    for res in results:
        if res is None or "__exception__" in res:
            raise C.ToolError("CLI job failed: %r" % (res,))
        trees += 1
        cases = by_shape[res["sk"]]
        shape = cases[0]["shape"]
        ctx = L.CaseCtx(cases[0])
        texts = {rel_of_slot(s): r.text for s, r in ctx.files.items()}
        # expectations from TLC (layer R is order independent; layer I per registration order)
        row0 = cases[0]["unused"][0]
        py_unused = {(rel_of_slot(x["file"]), x["name"]) for x in row0["py"]} | DECOYS
        impl_unused = [{(rel_of_slot(x["file"]), x["name"]) for x in c["unused"][0]["impl"]} | DECOYS for c in cases]
        blame = set()
        for c in cases:
            for r2 in c["goto"]:
                blame |= set(r2["blame"])
        py_counts = {}
        for r2 in cases[0]["refs"]:
            k = (rel_of_slot(r2["d"]["file"]), r2["name"])
            py_counts[k] = py_counts.get(k, 0) + len(r2["py"] or [])
        for k in DECOYS:
            py_counts[k] = 0
        impl_counts = []
        for c in cases:
            d = {k: 0 for k in DECOYS}
            for x in c["unused"][0]["counts"]:
                d[(rel_of_slot(x["file"]), x["name"])] = x["n"]
            impl_counts.append(d)
        ex = {"shape": shape, "files": texts, "blame": sorted(blame)}
        V.count()
        if L.n_named(cases[0], "n") >= 2:
            V.nontriv(res["sk"])
        # (1) text output, exit status, reproducibility across worker counts
        rc0, so0 = res["unused_runs"][0]
        listed = parse_unused_text(so0)
        if len(listed) != len(set(listed)):
            V.violation(dict(ex, output=so0), "`fixtures unused` lists an entry twice")
        if (rc0 == 1) != bool(listed) or rc0 not in (0, 1):
            V.violation(dict(ex, output=so0, exit=rc0), "`fixtures unused` exit status does not match its list")
        decoy_orders = [[e for e in parse_unused_text(r[1]) if e in DECOYS] for r in res["unused_runs"]]
        if any(o != decoy_orders[0] for o in decoy_orders[1:]):
            V.violation(dict(ex, orders=decoy_orders, runs=[r[1] for r in res["unused_runs"]]),
                        "`fixtures unused` prints entries that differ only in case in a different order from run to run")
        if any(r != res["unused_runs"][0] for r in res["unused_runs"][1:]):
            e2 = dict(ex, runs=[r[1] for r in res["unused_runs"]])
            if blame:
                V.classify(sorted(blame), e2, "`fixtures unused` output differs between runs / worker counts")
            else:
                V.violation(e2, "`fixtures unused` output differs between runs / worker counts")
        # (2) json output: valid, same entries
        try:
            js = json.loads(res["unused_json"][1])
            js_set = {(x["file"], x["fixture"]) for x in js}
            if res["unused_json"][0] != rc0 and not blame:
                V.violation(dict(ex, text=so0, json=res["unused_json"][1]), "exit status differs between text and json format")
            if js_set != set(listed) and not blame:
                V.violation(dict(ex, text=so0, json=res["unused_json"][1]), "json and text output of `fixtures unused` list different entries")
        except ValueError:
            V.violation(dict(ex, json=res["unused_json"][1]), "`fixtures unused --format json` is not valid JSON")
        # (3) the set itself vs layer R
        got = set(listed)
        if got != py_unused:
            e3 = dict(ex, got=sorted(map(list, got)), expected=sorted(map(list, py_unused)))
            if any(got == iu for iu in impl_unused):
                V.classify(sorted(blame), e3, "`fixtures unused` differs from 'project fixture, not autouse, no usage resolves to it'")
            else:
                V.drift += 1
                V.violation(e3, "`fixtures unused` differs from the reference and from every order the model predicts")
        # (4) list counts vs references, (5) filters partition, (6) reproducible
        if res["list"][0] != res["list"][1]:
            e4 = dict(ex, runs=[r[1] for r in res["list"]])
            if blame:
                V.classify(sorted(blame), e4, "`fixtures list` output differs between runs / worker counts")
            else:
                V.violation(e4, "`fixtures list` output differs between runs / worker counts")
        ent = parse_tree(res["list"][0][1])
        counts = {(f, n): count_of(i) for f, n, i in ent}
        if any(f == "?" for f, _, _ in ent):
            raise C.ToolError("cannot parse `fixtures list` output:\n%s" % res["list"][0][1])
        if counts != py_counts:
            e5 = dict(ex, got=sorted((list(k), v) for k, v in counts.items()), expected=sorted((list(k), v) for k, v in py_counts.items()),
                      output=ANSI.sub("", res["list"][0][1]))
            if any(counts == ic for ic in impl_counts):
                V.classify(sorted(blame), e5, "`fixtures list` usage counts differ from the number of references")
            else:
                V.drift += 1
                V.violation(e5, "`fixtures list` usage counts differ from the references and from the model")
        skip = {(f, n) for f, n, _ in parse_tree(res["list_skip"][1])}
        only = {(f, n) for f, n, _ in parse_tree(res["list_only"][1])}
        allk = set(counts)
        if (skip & only) or (skip | only) != allk:
            if not blame:
                V.violation(dict(ex, all=sorted(map(list, allk)), skip=sorted(map(list, skip)), only=sorted(map(list, only))),
                            "--skip-unused and --only-unused do not partition the listing")
        if trees <= 2:
            V.sample({"shape": shape, "unused": sorted(map(list, got)), "counts": sorted((list(k), v) for k, v in counts.items())})
    # ---- part 3: the CLI run on a SUB-DIRECTORY whose conftest.py pulls fixtures in from above it (Imports.tla cases with the
    # importer R/sub/conftest.py).  Judged for what C20 states without a reference answer: exit status 1 exactly when the list is
    # non-empty, JSON valid with the same entries as the text, byte-identical repeated runs.
    import diskchecks as DK
    meta_i = C.run_tlc("Imports", "Imports.cfg", workers=12, timeout=3600)
    icases = [c for c in C.tlc_cases(meta_i) if c["shape"]["imp"] == "cs"]
    icases = icases[:: max(1, len(icases) // (60 if tier == "quick" else 600))]

    def subjob(n_c):
        n, c = n_c
        root = os.path.join(base, "sub%d" % n)
        uni = DK.imp_universe(root)
        for sl, m in c["ws"].items():
            os.makedirs(os.path.dirname(uni.paths[sl]), exist_ok=True)
            with open(uni.paths[sl], "w") as fh:
                fh.write(R.render_checked(uni, sl, m).text)
        sub = os.path.join(root, "R", "sub")
        try:
            runs = [lsp.run_cli(["fixtures", "unused", sub], env={"RAYON_NUM_THREADS": t})[:2] for t in ("1", "8")]
            js = lsp.run_cli(["fixtures", "unused", sub, "--format", "json"])[:2]
            return {"runs": runs, "json": js}
        finally:
            shutil.rmtree(root, ignore_errors=True)

    for (n, c), r in zip(enumerate(icases), lsp.run_parallel(list(enumerate(icases)), subjob, workers=8)):
        if r is None or "__exception__" in r:
            raise C.ToolError("CLI job failed: %r" % (r,))
        V.count()
        V.nontriv("subdir" + json.dumps(c["shape"], sort_keys=True))
        trees += 1
        rc0, so0 = r["runs"][0]
        listed = parse_unused_text(so0)
        ex = {"scanned_directory": "R/sub", "import_shape": c["shape"], "output": ANSI.sub("", so0), "exit": rc0, "json": r["json"][1]}
        if rc0 not in (0, 1) or (rc0 == 1) != bool(listed):
            V.violation(ex, "`fixtures unused` on a sub-directory: exit status does not match its list")
        if r["runs"][1] != r["runs"][0]:
            V.violation(dict(ex, second_run=ANSI.sub("", r["runs"][1][1])), "`fixtures unused` on a sub-directory: repeated runs differ")
        try:
            js = json.loads(r["json"][1])
            if {(x["file"], x["fixture"]) for x in js} != set(listed) or r["json"][0] != rc0:
                V.violation(ex, "`fixtures unused` on a sub-directory: json and text output disagree")
        except ValueError:
            V.violation(ex, "`fixtures unused --format json` on a sub-directory is not valid JSON")
    # ---- part 4: "the usage counts printed by `fixtures list` equal the number of references the server reports" on override
    # chains whose self-requesting parameter is SPELLED in every way a signature allows (default value, keyword-only, annotation,
    # positional-only, second position, wrapped line).  Oracle = the server's own find_references_for_definition on the same
    # tree (no layer-R verdict on whether a defaulted parameter is a request); `fixtures unused` = the entries counted 0.
    SPELL = {"plain": "n", "default": "n=None", "kwonly_default": "*, n=None", "annotated": "n: int", "annotated_default": "n: int = 0",
             "posonly": "n, /", "second": "other, n", "second_default": "other, n=None", "wrapped": "\n    n,\n",
             "wrapped_default": "\n    other,\n    n=None,\n", "kwonly": "*, n"}
    C.build_harness()
    sjobs = [(sp, where, above) for sp in sorted(SPELL) for where in ("sub_conftest", "test_module") for above in (False, True)]

    def sp_files(sp, where, above):
        ov = "@pytest.fixture\ndef n(%s):\n    return n\n" % SPELL[sp]
        tests = "def test_1(n):\n    pass\n\n\ndef test_2(n, other):\n    pass\n"
        files = {"conftest.py": "import pytest\n\n\n@pytest.fixture\ndef n():\n    return 0\n\n\n@pytest.fixture\ndef other():\n    return 1\n",
                 "test_top.py": "def test_top(n):\n    pass\n"}
        if where == "sub_conftest":
            files["sub/conftest.py"] = "import pytest\n\n\n" + ov
            files["sub/test_a.py"] = tests
        else:
            # `above`: the tests stand ABOVE the override in the module
            files["sub/test_a.py"] = "import pytest\n\n\n" + ((tests + "\n\n" + ov) if above else (ov + "\n\n" + tests))
        return files

    def spjob(job):
        n, (sp, where, above) = job
        root = os.path.join(base, "sp%d" % n)
        ws = os.path.join(root, "R")
        files = sp_files(sp, where, above)
        for rel, text in files.items():
            os.makedirs(os.path.dirname(os.path.join(ws, rel)), exist_ok=True)
            with open(os.path.join(ws, rel), "w") as fh:
                fh.write(text)
        try:
            return {"list": lsp.run_cli(["fixtures", "list", ws])[:2], "unused": lsp.run_cli(["fixtures", "unused", ws])[:2],
                    "unused_json": lsp.run_cli(["fixtures", "unused", ws, "--format", "json"])[:2]}
        finally:
            pass

    spres = lsp.run_parallel(list(enumerate(sjobs)), spjob, workers=8)
    hops, defs_of = [], {}
    for n, (sp, where, above) in enumerate(sjobs):
        ws = os.path.join(base, "sp%d" % n, "R")
        files = sp_files(sp, where, above)
        dl = []
        for rel, text in sorted(files.items()):
            ls = text.split("\n")
            for i, l in enumerate(ls):
                m = re.match(r"def (\w+)\(", l)
                if m and i > 0 and ls[i - 1].startswith("@pytest.fixture"):
                    dl.append((rel, i + 1, m.group(1)))
        defs_of[n] = dl
        hops.append({"id": n, "ops": [{"op": "scan", "root": ws}] + [{"op": "refs", "path": os.path.join(ws, rel), "line1": ln, "name": nm} for rel, ln, nm in dl]})
    for res in C.run_harness(hops, threads=8):
        n = res["id"]
        sp, where, above = sjobs[n]
        r = spres[n]
        if r is None or "__exception__" in r:
            raise C.ToolError("CLI job failed: %r" % (r,))
        V.count()
        V.nontriv(("spelling", sp, where, above))
        trees += 1
        srv_counts = {}
        for (rel, ln, nm), ans in zip(defs_of[n], res["res"][1:]):
            if not isinstance(ans, list):
                raise C.ToolError("the library does not know the definition %s:%d %s (%r)" % (rel, ln, nm, ans))
            srv_counts[(rel, nm)] = len(ans)
        ent = parse_tree(r["list"][1])
        counts = {(f, nm): count_of(i) for f, nm, i in ent}
        ex = {"parameter_spelling": SPELL[sp], "override_in": where, "tests_above_override": above, "files": sp_files(sp, where, above),
              "server_reference_counts": sorted((list(k), v) for k, v in srv_counts.items()),
              "cli_counts": sorted((list(k), v) for k, v in counts.items())}
        if counts != srv_counts:
            V.violation(dict(ex, output=ANSI.sub("", r["list"][1])), "`fixtures list` usage counts differ from the number of references the server reports")
        listed = set(parse_unused_text(r["unused"][1]))
        want = {k for k, v in srv_counts.items() if v == 0}
        if listed != want or (r["unused"][0] == 1) != bool(want):
            V.violation(dict(ex, unused=sorted(map(list, listed)), exit=r["unused"][0]),
                        "`fixtures unused` does not list exactly the fixtures the server reports no reference for (or its exit status disagrees)")
        try:
            if {(x["file"], x["fixture"]) for x in json.loads(r["unused_json"][1])} != listed:
                V.violation(dict(ex, json=r["unused_json"][1]), "json and text output of `fixtures unused` list different entries")
        except ValueError:
            V.violation(dict(ex, json=r["unused_json"][1]), "`fixtures unused --format json` is not valid JSON")
    shutil.rmtree(base, ignore_errors=True)
    cov = L.tlc_cov(meta_lib, replayed + trees)
    cov["states"] += meta["distinct"]
    cov["transitions"] += meta["transitions"]
    cov["cli_trees"] = trees
    cov["exhaustive"] = tier != "quick"
    return V.finish(
        coverage_extra=cov,
        rule="library level: get_unused_fixtures on every (layout, order) of the Layouts table vs PyUnused; binary "
             "level: layouts of Layouts_cli.cfg (autouse, imported, overriding, third-party via a venv entry point, "
             "sibling and same-file definitions) materialised on disk, `fixtures unused` (text, json, exit status) and "
             "`fixtures list` (plain, --skip-unused, --only-unused) run with RAYON_NUM_THREADS 1/4/16; compared with "
             "layer R (PyUnused, |PyRefs|), across formats, filters and runs; non-trivial = >= 2 definitions of the name",
        assumptions=["workspace plugins (editable installs) are covered by C14's universe, not materialised here",
                     "quick tier samples 500 layouts by VERIF_SEED"])
