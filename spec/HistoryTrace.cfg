CONSTANTS
  Files <- TFiles
  Dirs <- TDirs
  DirOf <- TDirOf
  ParentOf <- TParentOf
  RoleOf <- TRoleOf
  TNames <- TNamesMC
SPECIFICATION Spec
CHECK_DEADLOCK FALSE
INVARIANTS
  TMirror
  TNoDangling
  TVersionMonotone
POSTCONDITION TraceAccepted
