CONSTANTS
  Files <- MCFiles
  Dirs <- MCDirs
  DirOf <- MCDirOf
  ParentOf <- MCParentOf
  RoleOf <- MCRoleOf
  MaxDefiners = 3
  Emit <- MCEmitCli
  Levels <- MCLevelsCli
  LevelsB <- MCLevelsCli
  SameKinds <- MCSameCli
  ExtraSets <- MCExtraCli
  ExtraSetsB <- MCExtraCli
  UseKinds <- MCUseCli
  UFiles <- MCUFilesU
  ExtraUsers = FALSE
  Revs <- MCRevBoth
  OrderMode = "all"
INIT Init
NEXT Next
CHECK_DEADLOCK FALSE
INVARIANTS
  RefNegativeClause
  RepairedEqualsR
  RepairedViewsAgree
  Mirror
  RefsInverse
  IndexComplete
  EmitCase
