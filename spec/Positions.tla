------------------------------ MODULE Positions ------------------------------
(***************************************************************************)
(* C15: the column algebra of reported ranges.  A source line is a         *)
(* sequence of PIECES with explicit widths in UTF-8 bytes (b) and UTF-16   *)
(* code units (u); non-ASCII characters are placeholders (E2 = a 2-byte    *)
(* character, C3 = 3-byte, M4 = 4-byte / surrogate pair) that the renderer *)
(* substitutes and whose declared widths it re-checks against the text.    *)
(*                                                                         *)
(* Promised range of the marked token: [ sum of u before it,  + its own u ]*)
(* and for string usages the CONTENT of the literal.                       *)
(* Implementation model: byte sums (deviation byte_columns), one character *)
(* stripped at each end of a string literal whatever its prefix and quote  *)
(* length (quote_strip_pm1), every indirect-parametrize name mapped to the *)
(* whole first-argument string (indirect_whole_string).                    *)
(***************************************************************************)
EXTENDS Naturals, Sequences, FiniteSets, TLC, Json

P(t, b, u) == [t |-> t, b |-> b, u |-> u]
A(t) == P(t, Len(t), Len(t))                     \* an ASCII piece: widths = length

\* prefix material that may precede the token on its line
Prefixes == {"none", "ascii", "e2", "c3", "m4"}
PrefixChar(k) == CASE k = "ascii" -> A("aa") [] k = "e2" -> P("<E2>", 2, 1) [] k = "c3" -> P("<C3>", 3, 1) [] k = "m4" -> P("<M4>", 4, 2)

\* string literal forms of the target: opening part, content, closing part
StrForms == {"sq", "dq", "tsq", "tdq", "raw", "RAW", "uni"}
Open(f)  == CASE f = "sq" -> "'" [] f = "dq" -> "\"" [] f = "tsq" -> "'''" [] f = "tdq" -> "\"\"\"" [] f = "raw" -> "r\""
              [] f = "RAW" -> "R'" [] f = "uni" -> "u\""
Close(f) == CASE f \in {"sq", "RAW"} -> "'" [] f \in {"dq", "raw", "uni"} -> "\"" [] f = "tsq" -> "'''" [] f = "tdq" -> "\"\"\""

Constructs == {"test_param", "fixture_param", "usefix", "usefix_class", "pytestmark", "indirect_true", "indirect_list",
               "defname", "defname_async", "defname_tab", "defname_class",
               \* more than one blank between the keywords and the name (legal Python)
               "defname_wide", "defname_async_wide"}

\* a line = <<pieces before>>, the target's opening part (strings), the target token, closing part, rest
Line(c, pk, sf, nm) ==
    LET pre_param == IF pk = "none" THEN <<>>
                     ELSE IF pk = "m4" THEN <<A("a: \""), PrefixChar("m4"), A("\", ")>>      \* a: "<M4>", fx
                     ELSE <<PrefixChar(pk), A(", ")>>                                     \* identifier parameter
        pre_str == IF pk = "none" THEN <<>> ELSE <<A("\""), PrefixChar(pk), A("\", ")>>   \* "x", 'fx'
        tok == A("fx")
        \* "sub_def" / "sub_async": the fixture's name also occurs INSIDE the keywords in front of it (`def e`, `async def sync`)
        name == CASE nm = "ascii" -> A("fx_n") [] nm = "nonascii" -> P("f<E2>_n", 5, 4) [] nm = "sub_def" -> A("e") [] nm = "sub_async" -> A("sync")
    IN  CASE c = "test_param"    -> [before |-> <<A("def test_x(")>> \o pre_param, open |-> <<>>, tok |-> tok, close |-> <<>>, after |-> <<A("):")>>]
          [] c = "fixture_param" -> [before |-> <<A("def w_fix(")>> \o pre_param, open |-> <<>>, tok |-> tok, close |-> <<>>, after |-> <<A("):")>>]
          [] c \in {"usefix", "usefix_class"} ->
                                    [before |-> <<A("@pytest.mark.usefixtures(")>> \o pre_str, open |-> <<A(Open(sf))>>, tok |-> tok,
                                     close |-> <<A(Close(sf))>>, after |-> <<A(")")>>]
          [] c = "pytestmark"    -> [before |-> <<A("pytestmark = pytest.mark.usefixtures(")>> \o pre_str, open |-> <<A(Open(sf))>>, tok |-> tok,
                                     close |-> <<A(Close(sf))>>, after |-> <<A(")")>>]
          [] c = "indirect_true" -> [before |-> <<A("@pytest.mark.parametrize(\"")>> \o (IF pk = "none" THEN <<>> ELSE <<PrefixChar(pk), A(",")>>),
                                     open |-> <<>>, tok |-> tok, close |-> <<>>, after |-> <<A("\", [1], indirect=True)")>>]
          [] c = "indirect_list" -> [before |-> <<A("@pytest.mark.parametrize(\"fx\", [1], indirect=[")>> \o pre_str, open |-> <<A(Open(sf))>>,
                                     tok |-> tok, close |-> <<A(Close(sf))>>, after |-> <<A("])")>>]
          [] c = "defname"       -> [before |-> <<A("def ")>>, open |-> <<>>, tok |-> name, close |-> <<>>, after |-> <<A("():")>>]
          [] c = "defname_async" -> [before |-> <<A("async def ")>>, open |-> <<>>, tok |-> name, close |-> <<>>, after |-> <<A("():")>>]
          [] c = "defname_wide"  -> [before |-> <<A("def   ")>>, open |-> <<>>, tok |-> name, close |-> <<>>, after |-> <<A("():")>>]
          [] c = "defname_async_wide" -> [before |-> <<A("async  def  ")>>, open |-> <<>>, tok |-> name, close |-> <<>>, after |-> <<A("():")>>]
          [] c = "defname_tab"   -> [before |-> <<P("<TAB>", 1, 1), A("def ")>>, open |-> <<>>, tok |-> name, close |-> <<>>, after |-> <<A("(self):")>>]
          [] c = "defname_class" -> [before |-> <<A("    def ")>>, open |-> <<>>, tok |-> name, close |-> <<>>, after |-> <<A("(self):")>>]

RECURSIVE SumB(_), SumU(_)
SumB(s) == IF s = <<>> THEN 0 ELSE Head(s).b + SumB(Tail(s))
SumU(s) == IF s = <<>> THEN 0 ELSE Head(s).u + SumU(Tail(s))

IsString(c) == c \in {"usefix", "usefix_class", "pytestmark", "indirect_list"}

\* the promised range, in UTF-16 code units
Expected(l) == [start |-> SumU(l.before) + SumU(l.open), end |-> SumU(l.before) + SumU(l.open) + l.tok.u]

\* what the code computes
Impl(c, l, D) ==
    LET sum(s) == IF "byte_columns" \in D THEN SumB(s) ELSE SumU(s)
        w(p) == IF "byte_columns" \in D THEN p.b ELSE p.u
    IN  IF IsString(c)
        THEN IF "quote_strip_pm1" \in D
             THEN [start |-> sum(l.before) + 1, end |-> sum(l.before) + sum(l.open) + w(l.tok) + sum(l.close) - 1]
             ELSE [start |-> sum(l.before) + sum(l.open), end |-> sum(l.before) + sum(l.open) + w(l.tok)]
        ELSE IF c = "indirect_true" /\ "indirect_whole_string" \in D
        THEN \* the whole content of the first-argument string: from after its opening quote to before the closing one
             [start |-> sum(<<l.before[1]>>), end |-> sum(l.before) + w(l.tok)]
        ELSE [start |-> sum(l.before), end |-> sum(l.before) + w(l.tok)]

AllPosDevs == {"byte_columns", "quote_strip_pm1", "indirect_whole_string"}

DefConstructs == {"defname", "defname_async", "defname_tab", "defname_class", "defname_wide", "defname_async_wide"}
VARIABLES c, pk, sf, nm
vars == <<c, pk, sf, nm>>
Init == /\ c \in Constructs /\ pk \in Prefixes /\ sf \in StrForms /\ nm \in {"ascii", "nonascii", "sub_def", "sub_async"}
        /\ (~IsString(c) => sf = "dq")
        /\ (c \notin DefConstructs => nm = "ascii")
        /\ (c \in DefConstructs => pk = "none")
Next == UNCHANGED vars
Spec == Init /\ [][Next]_vars

L == Line(c, pk, sf, nm)
Blame == LET e == Expected(L) IN
         IF Impl(c, L, AllPosDevs) = e THEN {}
         ELSE LET single == { d \in AllPosDevs : Impl(c, L, AllPosDevs \ {d}) = e }
              IN  IF single # {} THEN single ELSE { d \in AllPosDevs : Impl(c, L, {d}) # e }

\* with every deviation repaired the model computes the promised range
RepairedExact == Impl(c, L, {}) = Expected(L)
WellFormed == Expected(L).start <= Expected(L).end

EmitCase == PrintT("CASE " \o ToJson([c |-> c, pk |-> pk, sf |-> sf, nm |-> nm, line |-> L,
                                     expect |-> Expected(L), impl |-> Impl(c, L, AllPosDevs), blame |-> Blame]))
=============================================================================
