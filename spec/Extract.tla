------------------------------- MODULE Extract -------------------------------
(***************************************************************************)
(* C03: what the index records for ONE function item is what the source    *)
(* says.  A function is an abstract feature record; the documented         *)
(* extraction rules (README / property C03) are the operators below.       *)
(* TLC enumerates the feature product group by group; each record is       *)
(* rendered to Python text, re-extracted by CPython (tools/cpyextract.py,  *)
(* an independent implementation of the same rules) and analysed by the    *)
(* real library; all three must agree, field by field.                     *)
(*                                                                         *)
(* C15: columns.  A line is a sequence of tokens with explicit widths in   *)
(* UTF-8 bytes and UTF-16 code units; the promised column of a token is    *)
(* the sum of the UTF-16 widths before it (deviation byte_columns: the     *)
(* code sums BYTES); string usages are the CONTENT of the literal          *)
(* (deviation quote_strip_pm1: the code strips exactly one character at    *)
(* each end whatever the literal's prefix and quote length).               *)
(***************************************************************************)
EXTENDS Naturals, Sequences, FiniteSets, TLC, Json

CONSTANTS Group       \* which slice of the product this run enumerates

Decos   == {"pytest.fixture", "fixture", "pytest_asyncio.fixture"}
Forms   == {"bare", "call", "name", "scope0", "scope1", "scope2", "scope3", "scope4", "scope_bad", "autouse_t", "autouse_f",
            "scope_autouse"}
\* an unrelated decorator before / after the fixture decorator; a usefixtures mark or an indirect parametrize
\* mark above / below it (fixtures may carry marks: their names are usages like on tests)
\* kwdeco_*: an unrelated CALLED decorator that carries keyword arguments spelled like the fixture decorator's own
\* (name=, scope=, autouse=): only the fixture decorator's arguments count
\* preset_before: in front of the function, at its level, assignments that merely PRESET the decorator
\* (`session_fixture = pytest.fixture(scope="session")`): a decorator factory call that is not applied to a function declares nothing
Extras  == {"none", "before", "after", "usefix_before", "usefix_after", "indirect_before", "indirect_after", "marks_around",
            "kwdeco_before", "kwdeco_after", "preset_before"}
Places  == {"module", "class", "nested_class", "if"}
\* aliasname: a plain parameter spelled like the `name=` alias the fixture decorator gives ("custom_name"): an ordinary dependency
PKinds  == {"plain", "posonly", "kwonly", "default", "annot", "self", "request", "star", "kw", "aliasname"}
Bodies  == {"return", "yield_top", "yield_if", "yield_else", "yield_for", "yield_while", "yield_with", "yield_async_with",
            "yield_async_for", "yield_try", "yield_except", "yield_tryelse", "yield_finally", "yield_nested_def",
            "yield_from", "yield_assign", "yield_lambda_only",
            \* several yields: the reported yield line is the FIRST in source order
            "yield_except_else", "yield_except_finally", "yield_if_else_both", "yield_nested_then_own", "yield_handler2"}
Rets    == {"none", "name", "attr", "subscript", "tuple_sub", "union", "string", "generator", "iterator",
            "async_iterator", "none_const"}
Docs    == {"none", "oneline", "block", "leading_blank", "tabs", "deep_indent", "not_first", "ws_line", "crlf_free_trailing"}

Base == [deco |-> "pytest.fixture", form |-> "bare", extra |-> "none", async |-> FALSE, place |-> "module",
         params |-> <<>>, body |-> "return", ret |-> "none", doc |-> "none"]

ParamSeqs == {<<>>} \cup { <<a>> : a \in PKinds } \cup { <<a, b>> : a \in PKinds \ {"star", "kw"}, b \in PKinds }
             \cup { <<"self", "plain", "request">>, <<"posonly", "plain", "kwonly">>, <<"plain", "default", "star">>,
                    <<"annot", "annot", "kw">> }
\* legal Python orderings only: posonly first, then plain/annot/default/self/request, star, kwonly, kw
Rank(k) == CASE k = "posonly" -> 0 [] k = "self" -> 1 [] k \in {"plain", "annot", "request", "aliasname"} -> 2 [] k = "default" -> 3
             [] k = "star" -> 4 [] k = "kwonly" -> 5 [] k = "kw" -> 6
Count(ps, k) == Cardinality({ i \in 1..Len(ps) : ps[i] = k })
LegalParams(ps) == /\ \A i \in 1..Len(ps) : \A j \in 1..Len(ps) : i < j => Rank(ps[i]) <= Rank(ps[j])
                   /\ Count(ps, "self") <= 1 /\ Count(ps, "star") <= 1 /\ Count(ps, "kw") <= 1 /\ Count(ps, "request") <= 1
                   /\ Count(ps, "aliasname") <= 1

Funcs ==
    CASE Group = "deco"   -> { [Base EXCEPT !.deco = d, !.form = f, !.extra = e, !.async = a, !.place = p]
                               : d \in Decos, f \in Forms, e \in Extras, a \in BOOLEAN, p \in Places }
      [] Group = "params" -> { [Base EXCEPT !.params = ps, !.place = p, !.async = a]
                               : ps \in { x \in ParamSeqs : LegalParams(x) }, p \in {"module", "class"}, a \in BOOLEAN }
                             \* the decorator renames the fixture and a parameter is spelled like that name
                             \cup { [Base EXCEPT !.params = ps, !.form = "name"]
                                    : ps \in { x \in ParamSeqs : LegalParams(x) /\ Count(x, "aliasname") = 1 } }
      [] Group = "body"   -> { f \in { [Base EXCEPT !.body = b, !.ret = r, !.async = a] : b \in Bodies, r \in Rets, a \in BOOLEAN } :
                                 /\ (f.body \in {"yield_async_with", "yield_async_for"} => f.async)
                                 /\ (f.body \in {"yield_from", "yield_lambda_only"} => ~f.async) }
      [] Group = "doc"    -> { [Base EXCEPT !.doc = d, !.place = p, !.body = b]
                               : d \in Docs, p \in {"module", "class", "nested_class"}, b \in {"return", "yield_top"} }

VARIABLE fn
Init == fn \in Funcs
Next == UNCHANGED fn
Spec == Init /\ [][Next]_fn

----------------------------------------------------------------------------
(* The documented extraction rules *)
FuncName == "fx_sample"
IsRecorded(f) == f.place # "if"        \* fixtures inside conditional blocks are a documented limitation
NameOf(f) == IF f.form = "name" THEN "custom_name" ELSE FuncName
ScopeOf(f) == CASE f.form = "scope0" -> 0 [] f.form = "scope1" -> 1 [] f.form = "scope2" -> 2 [] f.form = "scope3" -> 3
                [] f.form = "scope4" -> 4 [] f.form = "scope_autouse" -> 2 [] OTHER -> 0
AutouseOf(f) == f.form \in {"autouse_t", "scope_autouse"}
ParamName(k, i) == CASE k = "self" -> "self" [] k = "request" -> "request" [] k = "star" -> "args" [] k = "kw" -> "kwargs"
                     [] k = "aliasname" -> "custom_name"
                     [] OTHER -> IF i = 1 THEN "dep_a" ELSE IF i = 2 THEN "dep_b" ELSE "dep_c"
DepsOf(f) == LET ps == f.params
                 keep == { i \in 1..Len(ps) : ps[i] \notin {"self", "request", "star", "kw"} }
                 RECURSIVE S(_)
                 S(i) == IF i > Len(ps) THEN <<>> ELSE (IF i \in keep THEN <<ParamName(ps[i], i)>> ELSE <<>>) \o S(i + 1)
             IN  S(1)
\* generator status: a `yield` in the function's OWN body at any block depth (not in a nested def / lambda)
IsGen(f) == f.body \notin {"return", "yield_nested_def", "yield_lambda_only"}
\* which annotation text is reported: for generators the first type argument of Generator/Iterator/AsyncIterator
RetKind(f) == CASE f.ret = "none" -> "none"
                [] IsGen(f) /\ f.ret \in {"generator", "iterator", "async_iterator", "subscript", "tuple_sub"} -> "first_arg"
                [] OTHER -> "whole"
HasDoc(f) == f.doc \notin {"none", "not_first"}

\* which of the body's yields (1-based, in source order, own yields only) is the reported one: always the first
YieldOrdinal(f) == IF IsGen(f) THEN 1 ELSE 0
\* number of mark usages (usefixtures strings + indirect names) the function's decorators contribute
MarkUsages(f) == CASE f.extra \in {"usefix_before", "usefix_after", "indirect_before", "indirect_after"} -> 1
                   [] f.extra = "marks_around" -> 2
                   [] OTHER -> 0

Expected(f) ==
    [present |-> IsRecorded(f), name |-> NameOf(f), scope |-> ScopeOf(f), autouse |-> AutouseOf(f),
     deps |-> DepsOf(f), isgen |-> IsGen(f), retkind |-> RetKind(f), hasdoc |-> HasDoc(f),
     yieldord |-> YieldOrdinal(f), markuses |-> MarkUsages(f)]

EmitCase == PrintT("CASE " \o ToJson([fn |-> fn, expect |-> Expected(fn)]))

\* sanity of the rules themselves
RulesConsistent ==
    /\ (fn.form = "name" => NameOf(fn) # FuncName)
    /\ (IsGen(fn) => fn.body # "return")
    /\ (RetKind(fn) = "first_arg" => IsGen(fn))
    /\ Len(DepsOf(fn)) <= Len(fn.params)
=============================================================================
