"""Writes /verif/seeded/RESULTS.md and /verif/benign/RESULTS.md from the recorded runs (runs.json of each entry)."""
import glob
import json
import os

VERIF = os.path.dirname(os.path.dirname(os.path.abspath(__file__)))
NOTES_P = os.path.join(VERIF, "seeded", "NOTES.json")


def main():
    notes = json.load(open(NOTES_P)) if os.path.exists(NOTES_P) else {}
    rows = []
    for d in sorted(glob.glob(os.path.join(VERIF, "seeded", "C*/"))):
        sid = os.path.basename(d.rstrip("/"))
        m = json.load(open(d + "meta.json"))
        runs = json.load(open(d + "runs.json")) if os.path.exists(d + "runs.json") else []
        det = [r["check"] for r in runs if r["detected"]]
        miss = [r["check"] for r in runs if not r["detected"]]
        rows.append((sid, m.get("property"), (m.get("summary") or "")[:160].replace("|", "/").replace("\n", " "),
                     ", ".join(det) or "-", ", ".join(miss) or "-", notes.get(sid, "")))
    out = ["# Seeded changes: which check catches which change", "",
           "Each change was written by a sub-agent that saw only the property text and a scratch worktree, and was",
           "confirmed in a scratch worktree (applies, 710 tests pass with it, its demonstration fails with it and passes",
           "without it).  `tools/seedrun.py <id> <checks>` applies it to `/tmp/seedrepo` (never `/repo`), runs the QUICK",
           "tier of the named checks against it and records `runs.json`.  `detected` = exit 1 with a VIOLATION line.", "",
           "| seed | property | change | detected by | run but silent | note |", "|---|---|---|---|---|---|"]
    for r in rows:
        out.append("| %s | %s | %s | %s | %s | %s |" % r)
    n_det = sum(1 for r in rows if r[3] != "-")
    out += ["", "%d of %d seeded changes are detected by at least one quick check." % (n_det, len(rows)), ""]
    open(os.path.join(VERIF, "seeded", "RESULTS.md"), "w").write("\n".join(out))
    # benign
    out = ["# Behaviour-preserving refactorings: no check may raise an alarm", "",
           "Twelve refactorings written by a sub-agent that saw nothing of /verif (each builds, passes the 710 tests and",
           "preserves behaviour for every input -- see note.txt).  `tools/benignrun.py` runs every quick check against each.", "",
           "| refactoring | checks run | alarms |", "|---|---|---|"]
    for d in sorted(glob.glob(os.path.join(VERIF, "benign", "*/")), key=lambda x: int(os.path.basename(x.rstrip("/")))):
        bid = os.path.basename(d.rstrip("/"))
        runs = json.load(open(d + "runs.json")) if os.path.exists(d + "runs.json") else []
        al = [r["check"] for r in runs if r["false_alarm"]]
        note = open(d + "note.txt").read().strip().split("\n")[0][:140].replace("|", "/") if os.path.exists(d + "note.txt") else ""
        out.append("| %s: %s | %d | %s |" % (bid, note, len(runs), ", ".join(al) or "none"))
    open(os.path.join(VERIF, "benign", "RESULTS.md"), "w").write("\n".join(out) + "\n")


if __name__ == "__main__":
    main()
