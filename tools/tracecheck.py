"""B2 trace validation (implementation -> specification): seeded random histories are executed on the
real library, every call and the projected state / answer is logged as ndjson, and TLC validates the
log against spec/HistoryTrace.tla (Index.tla's actions, all invariants evaluated in every state)."""
import json
import os
import random
import re
import subprocess
import time

import common as C
import render as R

UNI = R.Universe({"c0": "/vws/R/conftest.py", "c": "/vws/R/a/conftest.py", "h": "/vws/R/a/helperh.py",
                  "t": "/vws/R/a/b/test_t.py", "t2": "/vws/R/a/test_t2.py"})
FILES = ["c0", "c", "h", "t", "t2"]
NAMES = ["n", "x", "y"]


def item(k, name="-", deps=(), scope=0, autouse=False, mod="-", marks=(), cmarks=(), ind=()):
    return {"k": k, "name": name, "deps": list(deps), "scope": scope, "autouse": autouse, "mod": mod,
            "marks": list(marks), "cmarks": list(cmarks), "ind": list(ind)}


def random_module(rnd, slot):
    items = []
    n_items = rnd.randint(0, 3)
    for _ in range(n_items):
        r = rnd.random()
        if slot in ("t", "t2"):
            if r < 0.15:
                # a test whose body uses names it does not declare (undeclared-fixture findings are index state)
                items.append(item("testb", name="test_%d" % len(items), deps=rnd.sample(NAMES, rnd.randint(0, 1)),
                                  ind=rnd.sample(NAMES, rnd.randint(1, 2))))
            elif r < 0.6:
                params = rnd.sample(NAMES, rnd.randint(0, 2))
                marks = rnd.sample(NAMES, 1) if rnd.random() < 0.2 else []
                items.append(item("test", name="test_%d" % len(items), deps=params, marks=marks))
            else:
                nm = rnd.choice(NAMES)
                items.append(item("def", name=nm, deps=rnd.sample(NAMES, rnd.randint(0, 1)), scope=rnd.choice([0, 0, 2, 4])))
        else:
            if slot == "c" and r < 0.3:
                items.append(item("star", mod="h") if rnd.random() < 0.6 else item("imp", name=rnd.choice(NAMES), mod="h"))
            else:
                nm = rnd.choice(NAMES)
                items.append(item("def", name=nm, deps=rnd.sample(NAMES, rnd.randint(0, 2)), scope=rnd.choice([0, 0, 1, 4])))
    return {"present": True, "valid": rnd.random() > 0.15, "items": items}


def gen_history(rnd, length):
    evs = []
    for _ in range(length):
        r = rnd.random()
        if r < 0.52:
            f = rnd.choice(FILES)
            evs.append({"ev": "analyze", "f": f, "m": random_module(rnd, f), "cleanup": True})
        elif r < 0.57:
            # the workspace scan's visit (fresh path, no definitions cleanup) of a file whose text did not change
            evs.append({"ev": "rescan", "f": rnd.choice(FILES)})
        elif r < 0.62:
            evs.append({"ev": "refs", "pick": rnd.random()})
        elif r < 0.65:
            evs.append({"ev": "unused"})
        elif r < 0.68:
            # (these histories live in memory only: an evicted / closed file cannot be read back from disk.  The module that
            # others IMPORT is therefore never evicted or closed here -- what eviction of an imported module does is judged by
            # History.tla's families, whose files are on disk; the trace specification does not model the import memo's
            # being filled as a side effect of `unused` / `refs`, which only shows once the imported module has vanished)
            evs.append({"ev": "evict", "f": rnd.choice([f for f in FILES if f != "h"])})
        elif r < 0.72:
            evs.append({"ev": "close", "f": rnd.choice([f for f in FILES if f != "h"])})
        elif r < 0.82:
            evs.append({"ev": "avail", "f": rnd.choice(["t", "t2", "c"])})
        elif r < 0.90:
            evs.append({"ev": "imported", "f": rnd.choice(["c", "c0"])})
        else:
            evs.append({"ev": "goto", "f": rnd.choice(["t", "t2"]), "n": rnd.choice(NAMES)})
    return evs


def build_and_project(histories):
    """run the histories on the real library; return the ndjson trace lines (with logged state/answers)"""
    cases, plans = [], []
    for hi, evs in enumerate(histories):
        ops, plan = [], []
        cur = {}          # slot -> Rendered of the last VALID version
        curbuf_valid = {}
        last = {}         # slot -> (module, Rendered) last handed to analysis
        curmod = {}       # slot -> module of the last VALID version
        for ev in evs:
            if ev["ev"] == "rescan":
                if ev["f"] not in last:
                    plan.append((None, None, None))
                    continue
                m, r = last[ev["f"]]
                ops.append({"op": "analyze", "path": UNI.paths[ev["f"]], "text": r.text, "fresh": True})
                ops.append({"op": "snapshot", "raw": True})
                plan.append(({"ev": "analyze", "f": ev["f"], "m": m, "cleanup": False}, len(ops) - 1, dict(cur)))
            elif ev["ev"] == "refs":
                defs = [(slot, idx, r.text.split("\n")[ln - 1]) for slot, r in sorted(cur.items())
                        for idx, ln in sorted(r.item_line.items()) if curmod[slot]["items"][idx - 1]["k"] == "def"]
                if not defs:
                    plan.append((None, None, None))
                    continue
                slot, idx, _ = defs[int(ev["pick"] * len(defs)) % len(defs)]
                nm = curmod[slot]["items"][idx - 1]["name"]
                ops.append({"op": "refs", "path": UNI.paths[slot], "line1": cur[slot].item_line[idx], "name": nm})
                plan.append(({"ev": "refs", "f": slot, "idx": idx, "n": nm}, len(ops) - 1, dict(cur)))
            elif ev["ev"] == "unused":
                ops.append({"op": "unused"})
                plan.append((ev, len(ops) - 1, dict(cur)))
            elif ev["ev"] == "evict":
                ops.append({"op": "evict", "paths": [UNI.paths[ev["f"]]]})
                plan.append((ev, None, dict(cur)))
            elif ev["ev"] == "analyze":
                r = R.render_checked(UNI, ev["f"], ev["m"])
                ops.append({"op": "analyze", "path": UNI.paths[ev["f"]], "text": r.text})
                ops.append({"op": "snapshot", "raw": True})
                if ev["m"]["valid"]:
                    cur[ev["f"]] = r
                    curmod[ev["f"]] = ev["m"]
                curbuf_valid[ev["f"]] = ev["m"]["valid"]
                last[ev["f"]] = (ev["m"], r)
                plan.append((ev, len(ops) - 1, dict(cur)))
            elif ev["ev"] == "close":
                ops.append({"op": "close", "path": UNI.paths[ev["f"]]})
                plan.append((ev, None, dict(cur)))
            elif ev["ev"] == "avail":
                ops.append({"op": "available", "path": UNI.paths[ev["f"]]})
                plan.append((ev, len(ops) - 1, dict(cur)))
            elif ev["ev"] == "imported":
                ops.append({"op": "imported", "path": UNI.paths[ev["f"]]})
                plan.append((ev, len(ops) - 1, dict(cur)))
            elif ev["ev"] == "goto":
                r = cur.get(ev["f"])
                pos = None
                if r is not None and curbuf_valid.get(ev["f"]):
                    for (idx, uk, ui), (ln, cs, ce) in sorted(r.use_pos.items()):
                        if uk == "p" and r.text.split("\n")[ln - 1][cs:ce] == ev["n"]:
                            # the parameter must not be a self-named fixture parameter (exclusion is C02's subject)
                            pos = (ln, cs, idx, ui)
                            break
                if pos is None:
                    plan.append((None, None, None))
                    continue
                ops.append({"op": "goto", "path": UNI.paths[ev["f"]], "line": pos[0] - 1, "col": pos[1]})
                plan.append((dict(ev, idx=pos[2], ui=pos[3]), len(ops) - 1, dict(cur)))
        cases.append({"id": hi, "ops": ops})
        plans.append(plan)
    lines = []
    for res, plan in zip(C.run_harness(cases), plans):
        lines.append({"ev": "reset"})
        for ev, ri, cur in plan:
            if ev is None:
                continue
            if ev["ev"] == "analyze":
                snap = res["res"][ri]
                lines.append(dict(ev, post=project(snap, cur)))
            elif ev["ev"] in ("close", "evict"):
                lines.append(ev)
            elif ev["ev"] == "refs":
                ans = res["res"][ri]
                if not isinstance(ans, list):
                    lines.append(dict(ev, ans=[{"file": "?", "idx": 0, "uk": json.dumps(ans)[:80], "ui": 0}]))
                else:
                    lines.append(dict(ev, ans=[dict(file=UNI.slot_of_path.get(u["file"]), **{k: v for k, v in decode_use(cur, u).items() if k != "name"})
                                               for u in ans]))
            elif ev["ev"] == "unused":
                ans = res["res"][ri]
                lines.append(dict(ev, ans=[{"file": UNI.slot_of_path.get(x["file"]), "name": x["name"]} for x in ans]))
            elif ev["ev"] == "avail":
                ans = res["res"][ri]
                m = {n: {"file": "NOFILE", "idx": 0} for n in NAMES}
                for d in ans:
                    if d["name"] in m:
                        m[d["name"]] = decode_def(cur, d)
                lines.append(dict(ev, ans=m))
            elif ev["ev"] == "imported":
                lines.append(dict(ev, ans=[x for x in res["res"][ri] if x in NAMES]))
            elif ev["ev"] == "goto":
                a = res["res"][ri]
                lines.append(dict(ev, ans=decode_def(cur, a) if a else {"file": "NOFILE", "idx": 0}))
    return lines


def decode_def(cur, d):
    slot = UNI.slot_of_path.get(d["file"])
    r = cur.get(slot)
    idx = r.line_item.get(d["line"]) if r else None
    return {"file": slot, "idx": idx if idx is not None else 0 - d["line"]}


def decode_use(cur, u):
    slot = UNI.slot_of_path.get(u["file"])
    r = cur.get(slot)
    if r:
        for key, (ln, cs, ce) in r.use_pos.items():
            if ln == u["line"] and cs == u["sc"] and ce == u["ec"]:
                it_name = r.text.split("\n")[ln - 1][cs:ce]
                if it_name == u["name"] or key[1] == "i":
                    return {"idx": key[0], "uk": key[1], "ui": key[2], "name": u["name"]}
    return {"idx": 0, "uk": "?", "ui": 0, "name": u["name"]}


def project(snap, cur):
    defs = {n: [decode_def(cur, d) for d in snap["defs"].get(n, [])] for n in NAMES}
    fdefs = {f: sorted(snap["fdefs"].get(UNI.paths[f], [])) for f in FILES}
    usages = {f: [decode_use(cur, u) for u in snap["usages"].get(UNI.paths[f], [])] for f in FILES}
    ubf = {n: {f: [decode_use(cur, u) for u in snap["ubf"].get(n, []) if u["file"] == UNI.paths[f]] for f in FILES} for n in NAMES}
    undecl = {}
    for f in FILES:
        r = cur.get(f)
        out = []
        for u in snap.get("undecl", {}).get(UNI.paths[f], []):
            idx = r.line_item.get(u["fn_line"]) if r else None
            out.append({"idx": idx if idx is not None else 0 - u["fn_line"], "j": u["line"] - u["fn_line"], "name": u["name"]})
        undecl[f] = out
    return {"defs": defs, "fdefs": fdefs, "usages": usages, "ubf": ubf, "undecl": undecl, "version": snap["version"]}


def tlc_validate(trace_path, timeout=1800):
    env = C.scrubbed_env({"TRACE": trace_path, "JAVA_TOOL_OPTIONS": "-Xss512m"})
    metadir = trace_path + ".states"
    t = time.time()
    p = subprocess.run(["timeout", str(timeout), "tlc", "-workers", "1", "-metadir", metadir, "-cleanup", "-noGenerateSpecTE",
                        "-config", "HistoryTrace.cfg", "HistoryTrace.tla"], cwd=C.SPEC, env=env,
                       stdout=subprocess.PIPE, stderr=subprocess.STDOUT, text=True)
    subprocess.run(["rm", "-rf", metadir])
    out = p.stdout
    states = re.search(r"(\d+) states generated, (\d+) distinct states found", out)
    rejected = re.search(r"TRACE-REJECTED.*", out)
    inv = re.search(r"Invariant (\w+) is violated", out)
    ok = "Model checking completed. No error has been found" in out and not rejected and not inv
    return {"ok": ok, "states": int(states.group(2)) if states else 0, "rejected": rejected.group(0)[:1500] if rejected else None,
            "invariant": inv.group(1) if inv else None, "wall_s": round(time.time() - t, 1),
            "tail": out[-1500:] if not ok and not rejected and not inv else ""}


def validate_random_histories(V, n_hist, length, tag):
    """returns number of validated events; records a violation when TLC rejects the trace"""
    rnd = random.Random((C.seed() + 1) * 7919)
    hs = [gen_history(rnd, length) for _ in range(n_hist)]
    lines = build_and_project(hs)
    os.makedirs(os.path.join(C.BUILD, "tmp"), exist_ok=True)
    path = os.path.join(C.BUILD, "tmp", "trace-%s-%d.ndjson" % (tag, os.getpid()))
    with open(path, "w") as fh:
        for l in lines:
            fh.write(json.dumps(l) + "\n")
    r = tlc_validate(path)
    if not r["ok"]:
        if r["rejected"] or r["invariant"]:
            keep = os.path.join(C.REPLAYS, V.prop)
            os.makedirs(keep, exist_ok=True)
            kept = os.path.join(keep, "trace-%s.ndjson" % tag)
            os.replace(path, kept)
            V.violation({"trace": kept, "tlc": r["rejected"] or ("invariant %s violated" % r["invariant"]),
                         "rerun": "TRACE=%s tlc -workers 1 -config HistoryTrace.cfg HistoryTrace.tla (cwd /verif/spec)" % kept},
                        "a recorded execution of the real library is not a behaviour of the specification "
                        "(state after an analysis, a query answer, or an invariant differs)")
        else:
            raise C.ToolError("TLC trace validation failed to run: %s" % r["tail"])
    else:
        os.unlink(path)
    V.notes["trace_validation"] = {"histories": n_hist, "events": len(lines), "tlc_states": r["states"], "accepted": r["ok"],
                                   "wall_s": r["wall_s"]}
    return len(lines) if r["ok"] else 0
