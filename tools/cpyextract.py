"""Independent extraction of fixtures and usages from Python source with CPython's own parser,
following the DOCUMENTED rules (README, property C03/C15) -- never the implementation:

definitions : functions (sync/async) at module level, class level or nested-class level decorated
              with pytest.fixture / fixture / pytest_asyncio.fixture (bare or called), and
              assignment-style `name = pytest.fixture(...)(func)`;  name honours name=;  scope,
              autouse;  dependencies = parameters in order (positional-only, regular, keyword-only)
              without self / request;  generator = a yield in the function's own body at any block
              depth (not inside a nested def / lambda / class);  yield line = the first such;
              return type = annotation text (first type argument for generators annotated with a
              subscript);  docstring cleaned (first line stripped, common indentation removed,
              leading/trailing blank lines dropped).
usages      : parameters of test_* functions (without self) and of fixtures (without self, request);
              string arguments of pytest.mark.usefixtures on functions and classes; usefixtures inside
              a module-level `pytestmark` (plain / list / tuple / annotated); names of an indirect
              parametrize (True: every name of the first argument; list: listed names that occur).
positions   : 1-based lines; columns both as UTF-8 byte offsets and UTF-16 code units."""
import ast
import io
import tokenize

SCOPES = ["function", "class", "module", "package", "session"]


def _u16(line_bytes, byte_col):
    return len(line_bytes[:byte_col].decode("utf-8", "surrogatepass").encode("utf-16-le")) // 2


class Extractor:
    def __init__(self, text):
        self.text = text
        self.tree = ast.parse(text)
        self.lines_b = [l.encode("utf-8") for l in text.split("\n")]
        self.defs = []
        self.usages = []
        # name tokens after def/async def, by (line, byte col of `def`)
        self.def_name_pos = {}
        try:
            toks = list(tokenize.generate_tokens(io.StringIO(text).readline))
        except (tokenize.TokenError, IndentationError):
            toks = []
        for i, t in enumerate(toks):
            if t.type == tokenize.NAME and t.string == "def" and i + 1 < len(toks):
                nt = toks[i + 1]
                lb = self.lines_b[nt.start[0] - 1] if nt.start[0] - 1 < len(self.lines_b) else b""
                line_str = lb.decode("utf-8", "surrogatepass")
                bcol = len(line_str[:nt.start[1]].encode("utf-8"))
                self.def_name_pos[t.start[0]] = (nt.start[0], bcol, bcol + len(nt.string.encode("utf-8")))
        self.visit(self.tree.body, in_class=False)

    # ---- helpers
    def cols(self, line, b0, b1):
        lb = self.lines_b[line - 1]
        return {"line": line, "b0": b0, "b1": b1, "u0": _u16(lb, b0), "u1": _u16(lb, b1)}

    @staticmethod
    def is_fixture_deco(d):
        f = d.func if isinstance(d, ast.Call) else d
        if isinstance(f, ast.Name):
            return f.id == "fixture"
        if isinstance(f, ast.Attribute) and isinstance(f.value, ast.Name):
            return f.attr == "fixture" and f.value.id in ("pytest", "pytest_asyncio")
        return False

    @staticmethod
    def mark_call(d, what):
        if isinstance(d, ast.Call):
            f = d.func
            if isinstance(f, ast.Attribute) and f.attr == what:
                v = f.value
                if isinstance(v, ast.Attribute) and v.attr == "mark" and isinstance(v.value, ast.Name) and v.value.id == "pytest":
                    return d
                if isinstance(v, ast.Name) and v.id == "mark":
                    return d
        return None

    def str_content(self, node):
        """(value, line, byte range of the CONTENT of a single-token string literal) or None"""
        if not (isinstance(node, ast.Constant) and isinstance(node.value, str)):
            return None
        if node.lineno != node.end_lineno:
            return None
        raw = self.lines_b[node.lineno - 1][node.col_offset:node.end_col_offset].decode("utf-8", "surrogatepass")
        i = 0
        while i < len(raw) and raw[i] not in "'\"":
            i += 1
        q = raw[i:i + 3] if raw[i:i + 3] in ("'''", '"""') else raw[i:i + 1]
        if not raw.endswith(q) or len(raw) < i + 2 * len(q):
            return None      # implicit concatenation etc.: no single content span
        pre = len(raw[:i + len(q)].encode("utf-8"))
        post = len(q.encode("utf-8"))
        return node.value, node.lineno, node.col_offset + pre, node.end_col_offset - post

    def usefixtures(self, decos):
        out = []
        for d in decos:
            c = self.mark_call(d, "usefixtures")
            if c:
                for a in c.args:
                    sc = self.str_content(a)
                    if sc:
                        out.append(sc)
                    elif isinstance(a, ast.Constant) and isinstance(a.value, str):
                        out.append((a.value, a.lineno, None, None))
        return out

    def indirect(self, decos):
        out = []
        for d in decos:
            c = self.mark_call(d, "parametrize")
            if not c or not c.args:
                continue
            ind = [k for k in c.keywords if k.arg == "indirect"]
            a0 = c.args[0]
            if not ind or not (isinstance(a0, ast.Constant) and isinstance(a0.value, str)):
                continue
            names = [x.strip() for x in a0.value.split(",")]
            v = ind[0].value
            if isinstance(v, ast.Constant) and v.value is True:
                sc = self.str_content(a0)
                for n in names:
                    # exact token of the name inside the first-argument string (single-line literal)
                    if sc and a0.value.count(n) >= 1:
                        off = len(a0.value[:a0.value.index(n)].encode("utf-8"))
                        out.append((n, sc[1], sc[2] + off, sc[2] + off + len(n.encode("utf-8")), (sc[2], sc[3])))
                    else:
                        out.append((n, a0.lineno, None, None))
            elif isinstance(v, (ast.List, ast.Tuple)):
                for e in v.elts:
                    sc = self.str_content(e)
                    if sc and sc[0] in names:
                        out.append(sc)
        return out

    @staticmethod
    def own_yields(fn):
        found = []

        def walk(node):
            for ch in ast.iter_child_nodes(node):
                if isinstance(ch, (ast.FunctionDef, ast.AsyncFunctionDef, ast.Lambda, ast.ClassDef)):
                    continue
                if isinstance(ch, (ast.Yield, ast.YieldFrom)):
                    found.append(ch.lineno)
                walk(ch)
        for st in fn.body:
            if isinstance(st, (ast.FunctionDef, ast.AsyncFunctionDef, ast.ClassDef)):
                continue
            if isinstance(st, ast.Expr) and isinstance(st.value, (ast.Yield, ast.YieldFrom)):
                found.append(st.value.lineno)
            walk(st)
        return sorted(found)

    @staticmethod
    def clean_doc(s):
        lines = s.split("\n")
        while lines and not lines[0].strip():
            lines.pop(0)
        while lines and not lines[-1].strip():
            lines.pop()
        if not lines:
            return ""
        indents = [len(l) - len(l.lstrip()) for l in lines[1:] if l.strip()]
        m = min(indents) if indents else 0
        return "\n".join([lines[0].strip()] + [(l[m:] if l.strip() else "") for l in lines[1:]])

    @staticmethod
    def type_text(node):
        if isinstance(node, ast.Constant) and isinstance(node.value, str):
            return node.value
        return ast.unparse(node)

    def ret_text(self, fn, is_gen):
        r = fn.returns
        if r is None:
            return None
        if is_gen and isinstance(r, ast.Subscript):
            sl = r.slice
            if isinstance(sl, ast.Tuple) and sl.elts:
                return self.type_text(sl.elts[0])
            return self.type_text(sl)
        return self.type_text(r)

    def params(self, fn):
        a = fn.args
        return [(x.arg, x.lineno, x.col_offset, x.col_offset + len(x.arg.encode("utf-8")))
                for x in list(a.posonlyargs) + list(a.args) + list(a.kwonlyargs)]

    # ---- traversal
    def visit(self, stmts, in_class):
        for st in stmts:
            if isinstance(st, (ast.FunctionDef, ast.AsyncFunctionDef)):
                self.function(st)
            elif isinstance(st, ast.ClassDef):
                for v, ln, b0, b1 in self.usefixtures(st.decorator_list):
                    self.usages.append(dict(name=v, kind="usefixtures_class", **(self.cols(ln, b0, b1) if b0 is not None else {"line": ln})))
                self.visit(st.body, True)
            elif isinstance(st, ast.Assign) and not in_class:
                self.assign(st, st.targets, st.value)
            elif isinstance(st, ast.Assign):
                self.assign(st, st.targets, st.value)
            elif isinstance(st, ast.AnnAssign) and st.value is not None:
                self.assign(st, [st.target], st.value, annotated=True)

    def assign(self, st, targets, value, annotated=False):
        names = [t.id for t in targets if isinstance(t, ast.Name)]
        if "pytestmark" in names:
            decos = list(value.elts) if isinstance(value, (ast.List, ast.Tuple)) else [value]
            for v, ln, b0, b1 in self.usefixtures(decos):
                self.usages.append(dict(name=v, kind="pytestmark", **(self.cols(ln, b0, b1) if b0 is not None else {"line": ln})))
        if not annotated and isinstance(value, ast.Call) and isinstance(value.func, ast.Call) and self.is_fixture_deco(value.func.func):
            for t in targets:
                if isinstance(t, ast.Name):
                    self.defs.append(dict(name=t.id, kind="assign", line=st.lineno, end_line=st.lineno, deps=[], scope="function",
                                          autouse=False, yield_line=None, ret=None, doc=None,
                                          namepos=self.cols(t.lineno, t.col_offset, t.end_col_offset)))

    def function(self, fn):
        fix = [d for d in fn.decorator_list if self.is_fixture_deco(d)]
        for v, ln, b0, b1 in self.usefixtures(fn.decorator_list):
            self.usages.append(dict(name=v, kind="usefixtures", **(self.cols(ln, b0, b1) if b0 is not None else {"line": ln})))
        for v, ln, b0, b1, *whole in self.indirect(fn.decorator_list):
            self.usages.append(dict(name=v, kind="indirect", **(self.cols(ln, b0, b1) if b0 is not None else {"line": ln})))
            if whole:       # indirect=True: the byte span of the WHOLE first-argument string content (for the C15 known deviation)
                self.usages[-1]["whole"] = list(whole[0])
        if fix:
            d = fix[0]
            name, scope, autouse = fn.name, "function", False
            if isinstance(d, ast.Call):
                for kw in d.keywords:
                    if kw.arg == "name" and isinstance(kw.value, ast.Constant) and isinstance(kw.value.value, str):
                        name = kw.value.value
                    if kw.arg == "scope" and isinstance(kw.value, ast.Constant) and isinstance(kw.value.value, str) \
                            and kw.value.value.lower() in SCOPES:
                        scope = kw.value.value.lower()
                    if kw.arg == "autouse" and isinstance(kw.value, ast.Constant) and kw.value.value is True:
                        autouse = True
            ys = self.own_yields(fn)
            doc = ast.get_docstring(fn, clean=False)
            np = self.def_name_pos.get(fn.lineno)
            self.defs.append(dict(name=name, kind="function", line=fn.lineno, end_line=fn.end_lineno,
                                  deps=[p[0] for p in self.params(fn) if p[0] not in ("self", "request")],
                                  scope=scope, autouse=autouse, yield_line=ys[0] if ys else None,
                                  ret=self.ret_text(fn, bool(ys)), doc=self.clean_doc(doc) if doc is not None else None,
                                  namepos=self.cols(*np) if np else None))
            for p in self.params(fn):
                if p[0] not in ("self", "request"):
                    self.usages.append(dict(name=p[0], kind="fixture_param", **self.cols(p[1], p[2], p[3])))
        # a function decorated as a fixture is a fixture, whatever it is called: pytest does not collect it as a test
        if fn.name.startswith("test_") and not fix:
            for p in self.params(fn):
                if p[0] != "self":
                    self.usages.append(dict(name=p[0], kind="test_param", **self.cols(p[1], p[2], p[3])))


def extract(text):
    e = Extractor(text)
    return e.defs, e.usages
