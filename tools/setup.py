"""MANIFEST.setup_cmd: build everything from files on disk, warm the TLC table caches."""
import common as C


def main():
    C.build_harness()
    C.build_server()
    import registry
    for fn in getattr(registry, "WARM", []):
        fn()
    return 0
