import clichecks
import concchecks
import depgraphs
import diskchecks
import extractchecks
import histories
import layouts
import lspchecks


def warm_layouts():
    layouts.load_cases("Layouts_quick.cfg")
    layouts.load_cases("Layouts_chain.cfg")
    import common as C
    for m, c in [("History", "History_c06_quick.cfg"), ("History", "History_c07_quick.cfg"),
                 ("History", "History_c07scan_quick.cfg"), ("History", "History_c07chain_quick.cfg"), ("History", "History_c07mod_quick.cfg"),
                 ("DepGraphs", "DepGraphs_cycles.cfg"), ("DepGraphs", "DepGraphs_scopes.cfg"),
                 ("Layouts", "Layouts_cli.cfg")]:
        C.run_tlc(m, c, workers=12, timeout=7200)
    import randlayouts
    randlayouts.load_cases("quick")
    C.run_tlc("Lsp", "Lsp_quick.cfg", workers=8, timeout=3600)
    C.run_tlc("Conc", "Conc_c09.cfg", workers=12, timeout=3600)
    C.run_tlc("Conc", "Conc_c10.cfg", workers=12, timeout=3600)
    C.run_tlc("ImportWalk", "ImportWalk.cfg", workers=8, timeout=3600)
    C.run_tlc("Discovery", "Discovery.cfg", workers=8, timeout=3600)
    C.run_tlc("Imports", "Imports.cfg", workers=12, timeout=3600)
    C.run_tlc("Positions", "Positions.cfg", workers=4, timeout=3600)
    C.run_tlc("Completion", "Completion.cfg", workers=4, timeout=3600)
    C.run_tlc("Hostile", "Hostile_slots.cfg", workers=8, timeout=7200)
    C.run_tlc("Hostile", "Hostile_stale.cfg", workers=4, timeout=3600)
    for g in ("use", "bind", "fix"):
        C.run_tlc("Undeclared", "Undeclared_%s.cfg" % g, workers=4, timeout=3600)
    for g in ("deco", "params", "body", "doc"):
        C.run_tlc("Extract", "Extract_%s.cfg" % g, workers=4, timeout=3600)
    C.run_tlc("Plugins", "Plugins.cfg", workers=4, timeout=3600)


CHECKS = {
    "C01": layouts.check_c01,
    "C02": layouts.check_c02,
    "C03": extractchecks.check_c03,
    "C04": layouts.check_c04,
    "C05": layouts.check_c05,
    "C06": histories.check_c06,
    "C07": histories.check_c07,
    "C08": layouts.check_c08,
    "C09": concchecks.check_c09,
    "C10": concchecks.check_c10,
    "C11": lspchecks.check_c11,
    "C12": concchecks.check_c12,
    "C13": diskchecks.check_c13,
    "C14": diskchecks.check_c14,
    "C15": extractchecks.check_c15,
    "C16": depgraphs.check_c16,
    "C17": lspchecks.check_c17,
    "C18": lspchecks.check_c18,
    "C19": lspchecks.check_c19,
    "C20": clichecks.check_c20,
}
WARM = [warm_layouts]
