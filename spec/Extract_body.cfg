CONSTANTS
  Group = "body"
SPECIFICATION Spec
CHECK_DEADLOCK FALSE
INVARIANTS
  RulesConsistent
  EmitCase
