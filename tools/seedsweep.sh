#!/bin/bash
# Runs every seeded change against the quick tier of its own property's check (plus the checks known to be the
# natural detectors of cross-cutting changes); results go to seeded/<id>/runs.json, the table to seeded/RESULTS.md.
cd /verif
declare -A EXTRA=( [C04_1]="C10" [C05_1]="C06" [C05_3]="C06 C07" [C08_3]="C09" [C11_1]="C12" [C11_3]="C12" [C14_1]="C07" [C16_1]="C07 C19" [C18_2]="C07" [C18_3]="C07 C05" [C15_4]="C03" [C02_3]="C01" [C01_5]="C07" [C05_5]="C06" [C09_5]="C06" [C08_6]="C16" [C16_5]="C19" [C02_6]="C01" [C03_6]="C15" [C12_6]="C11" )
for d in seeded/C*/; do id=$(basename $d); p=${id%_*}; rm -f $d/runs.json; python3 tools/seedrun.py $id $p ${EXTRA[$id]} 2>&1 | cut -c1-500; done
python3 tools/seedreport.py
