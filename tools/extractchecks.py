"""C03 (what the index records is what the file says) and C15 (positions).
Three-way agreement per function item: the specification's rules (spec/Extract.tla), an independent
CPython-based extraction (tools/cpyextract.py) and the real analyzer; plus the repository's own
Python corpus (tests/test_project) CPython-vs-analyzer."""
import glob
import json
import os

import common as C
import cpyextract

SCOPES = ["function", "class", "module", "package", "session"]


def pname(kind, i):
    return {"self": "self", "request": "request", "star": "args", "kw": "kwargs", "aliasname": "custom_name"}.get(kind, ["dep_a", "dep_b", "dep_c"][i - 1])


def signature(params):
    ps = list(params or [])
    out = []
    posonly = [i for i, k in enumerate(ps) if k == "posonly"]
    seen_star = False
    for i, k in enumerate(ps):
        n = pname(k, i + 1)
        if k == "posonly":
            out.append(n)
            if i == posonly[-1]:
                out.append("/")
        elif k in ("plain", "self", "request", "aliasname"):
            out.append(n)
        elif k == "default":
            out.append(n + "=1")
        elif k == "annot":
            out.append(n + ": int")
        elif k == "star":
            out.append("*" + n)
            seen_star = True
        elif k == "kwonly":
            if not seen_star:
                out.append("*")
                seen_star = True
            out.append(n)
        elif k == "kw":
            out.append("**" + n)
    return ", ".join(out)


BODY = {
    "return": ["return 1"],
    "yield_top": ["yield 1"],
    "yield_if": ["if True:", "    yield 1"],
    "yield_else": ["if False:", "    pass", "else:", "    yield 1"],
    "yield_for": ["for _ in range(1):", "    yield 1"],
    "yield_while": ["while True:", "    yield 1", "    break"],
    "yield_with": ["with open('f') as fh:", "    yield fh"],
    "yield_async_with": ["async with ctx() as c:", "    yield c"],
    "yield_async_for": ["async for x in agen():", "    yield x"],
    "yield_try": ["try:", "    yield 1", "finally:", "    pass"],
    "yield_except": ["try:", "    pass", "except Exception:", "    yield 1"],
    "yield_tryelse": ["try:", "    pass", "except Exception:", "    pass", "else:", "    yield 1"],
    "yield_finally": ["try:", "    pass", "finally:", "    yield 1"],
    "yield_nested_def": ["def inner():", "    yield 1", "return inner"],
    "yield_from": ["yield from range(3)"],
    "yield_assign": ["value = yield 1", "print(value)"],
    "yield_lambda_only": ["f = lambda: (yield)", "return f"],
    "yield_except_else": ["try:", "    c = 1", "except OSError:", "    yield None", "else:", "    yield c"],
    "yield_except_finally": ["try:", "    c = 1", "except OSError:", "    yield None", "finally:", "    yield 2"],
    "yield_if_else_both": ["if cond():", "    yield 1", "else:", "    yield 2"],
    "yield_nested_then_own": ["def inner():", "    yield 0", "x = inner", "yield x"],
    "yield_handler2": ["try:", "    pass", "except KeyError:", "    pass", "except OSError:", "    yield 1", "yield 2"],
}
# 0-based index (within BODY[kind]) of the line carrying the first OWN yield in source order
FIRST_YIELD = {"yield_except_else": 3, "yield_except_finally": 3, "yield_if_else_both": 1, "yield_nested_then_own": 3, "yield_handler2": 5}
RET = {"none": "", "name": " -> int", "attr": " -> a.b.C", "subscript": " -> Dict[str, int]", "tuple_sub": " -> Tuple[int, str]",
       "union": " -> int | None", "string": ' -> "Foo"', "generator": " -> Generator[int, None, None]",
       "iterator": " -> Iterator[int]", "async_iterator": " -> AsyncIterator[int]", "none_const": " -> None"}


def doc_lines(kind, ind):
    if kind == "oneline":
        return ['"""One line."""']
    if kind == "block":
        return ['"""Summary line.', "", ind + "Details indented.", ind + "  More indented.", ind + '"""']
    if kind == "leading_blank":
        return ['"""', ind + "Summary after blank.", "", ind + "Tail.", ind + '"""']
    if kind == "tabs":
        return ['"""Summary.', "", ind + "\tTabbed detail.", ind + "\t\tDeeper.", ind + '"""']
    if kind == "deep_indent":
        return ['"""  Padded summary.  ', ind + "        far right", ind + "    less far", "", ind + '"""']
    if kind == "ws_line":
        # a whitespace-only separator line SHORTER than the body indentation
        return ['"""Summary.', "  ", ind + "Detail one.", " ", ind + "Detail two.", ind + '"""']
    if kind == "crlf_free_trailing":
        return ['"""Summary.', "", ind + "Detail.   ", "", "", ind + '"""']
    if kind == "not_first":
        return ["x = 1", '"""not a docstring"""']
    return []


def render_fn(f):
    lines = ["import pytest", "import pytest_asyncio", "from pytest import fixture",
             "from typing import Generator, Iterator, AsyncIterator, Dict, Tuple", "", ""]
    ind = ""
    if f["place"] in ("class", "nested_class"):
        lines.append("class TestOuter:")
        ind = "    "
        if f["place"] == "nested_class":
            lines.append(ind + "class TestInner:")
            ind = "        "
    elif f["place"] == "if":
        lines.append("if True:")
        ind = "    "
    form = f["form"]
    args = {"bare": None, "call": "", "name": 'name="custom_name"', "scope_bad": 'scope="galaxy"', "autouse_t": "autouse=True",
            "autouse_f": "autouse=False", "scope_autouse": 'scope="module", autouse=True'}.get(form)
    if form.startswith("scope") and form[5:].isdigit():
        args = 'scope="%s"' % SCOPES[int(form[5:])]
    deco = "@" + f["deco"] + ("" if args is None else "(%s)" % args)
    if f["extra"] == "preset_before":
        lines += [ind + 'session_fixture = pytest.fixture(scope="session")', ind + "auto = fixture(autouse=True)",
                  ind + 'renamed = pytest.fixture(name="other_name")', ""]
    if f["extra"] == "before":
        lines.append(ind + "@some_decorator")
    if f["extra"] == "kwdeco_before":
        lines.append(ind + '@timed(name="stage_setup", scope="session", autouse=True)')
    if f["extra"] in ("usefix_before", "marks_around"):
        lines.append(ind + '@pytest.mark.usefixtures("mark_dep")')
    if f["extra"] == "indirect_before":
        lines.append(ind + '@pytest.mark.parametrize("ind_dep", [1], indirect=True)')
    lines.append(ind + deco)
    if f["extra"] == "after":
        lines.append(ind + "@other.decorator(1)")
    if f["extra"] == "kwdeco_after":
        lines.append(ind + '@other.timed(name="stage_setup", scope="session", autouse=True)')
    if f["extra"] == "usefix_after":
        lines.append(ind + '@pytest.mark.usefixtures("mark_dep")')
    if f["extra"] in ("indirect_after", "marks_around"):
        lines.append(ind + '@pytest.mark.parametrize("ind_dep", [1], indirect=True)')
    params = list(f["params"] or [])
    if f["place"] in ("class", "nested_class") and "self" not in params:
        params = ["self"] + params
        shift = True
    else:
        shift = False
    sig = signature(params) if not shift else ", ".join(["self"] + ([signature(list(f["params"] or []))] if f["params"] else []))
    lines.append(ind + ("async " if f["async"] else "") + "def fx_sample(%s)%s:" % (sig, RET[f["ret"]]))
    b = ind + "    "
    for l in doc_lines(f["doc"], b):
        lines.append(l if (not l.strip() or l.startswith(b)) else b + l)
    for l in BODY[f["body"]]:
        lines.append(b + l)
    lines += ["", ""]
    return "\n".join(lines) + "\n"


def impl_records(snap, path):
    defs = [d for lst in snap["defs"].values() for d in lst if d["file"] == path]
    usages = snap["usages"].get(path, [])
    return defs, usages


def compare_file(V, text, snap, path, label, expect=None, judge_positions=False):
    """CPython extraction vs real records for one file. Returns list of (what, detail)."""
    problems = []
    try:
        cdefs, cusages = cpyextract.extract(text)
    except SyntaxError:
        return problems
    rdefs, rusages = impl_records(snap, path)
    ck = {(d["name"], d["line"]): d for d in cdefs}
    rk = {(d["name"], d["line"]): d for d in rdefs}
    if len(rdefs) != len(rk):
        problems.append(("a definition is recorded twice", sorted(map(str, rk))))
    for k in sorted(set(ck) | set(rk)):
        c, r = ck.get(k), rk.get(k)
        if c is None:
            problems.append(("the index records a fixture the source does not declare", {"recorded": r}))
            continue
        if r is None:
            problems.append(("a declared fixture is missing from the index", {"declared": c}))
            continue
        fields = [("deps", c["deps"], r["deps"]), ("scope", c["scope"], r["scope"]), ("autouse", c["autouse"], r["autouse"]),
                  ("yield_line", c["yield_line"], r["yield_line"]), ("return_type", c["ret"], r["ret"]),
                  ("docstring", c["doc"], r["doc"]), ("end_line", c["end_line"], r["end_line"])]
        for fname, cv, rv in fields:
            if fname == "return_type" and isinstance(cv, str) and isinstance(rv, str) and "".join(cv.split()) == "".join(rv.split()):
                continue          # spacing inside a type expression is cosmetic
            if cv != rv:
                problems.append(("field %s of a fixture differs from the source" % fname,
                                 {"fixture": k[0], "line": k[1], "source_says": cv, "index_says": rv}))
    # usages as bags of (name, line, byte columns) -- `request` parameters are not judged
    cu = sorted((u["name"], u["line"], u.get("b0"), u.get("b1")) for u in cusages if u["name"] != "request")
    ru = sorted((u["name"], u["line"], u["sc"], u["ec"]) for u in rusages if u["name"] != "request")
    cu_l = sorted((a, b) for a, b, _, _ in cu)
    ru_l = sorted((a, b) for a, b, _, _ in ru)
    if cu_l != ru_l:
        problems.append(("recorded usages differ from the fixture-requesting sites of the source",
                         {"source_says": cu_l, "index_says": ru_l}))
    return problems


def check_c03(tier):
    V = C.Verdict("C03", tier, "model_checking")
    C.build_harness()
    metas = []
    cases = []
    for g in ("deco", "params", "body", "doc"):
        m = C.run_tlc("Extract", "Extract_%s.cfg" % g, workers=4, timeout=3600)
        if not m["ok"]:
            raise C.ToolError("TLC on Extract/%s failed: %s" % (g, m["errors"]))
        metas.append(m)
        cases += [(g, c) for c in C.tlc_cases(m)]
    # the same fixture functions under a name that starts with `test_` (a fixture is a fixture, whatever it is called: its
    # parameters are requests of ONE function, recorded once): every parameter-kind sequence and every decorator form
    for g, c in list(cases):
        if g in ("params", "deco") and (g == "params" or (c["fn"]["extra"] == "none" and c["fn"]["place"] == "module")):
            c2 = json.loads(json.dumps(c))
            c2["fn"]["tname"] = True
            if c2["expect"]["name"] == "fx_sample":
                c2["expect"]["name"] = "test_sample"
            cases.append((g, c2))
    hcases = []
    texts = []
    for n, (g, c) in enumerate(cases):
        t = render_fn(c["fn"])
        if c["fn"].get("tname"):
            t = t.replace("fx_sample", "test_sample")
        texts.append(t)
        hcases.append({"id": n, "ops": [{"op": "analyze", "path": "/vws/x/conftest.py", "text": t}, {"op": "snapshot", "full": True}]})
    # the repository's own Python corpus and its unit-test snippets' directory
    corpus = sorted(glob.glob(os.path.join(C.REPO, "tests", "test_project", "**", "*.py"), recursive=True))
    for p in corpus:
        t = open(p, encoding="utf-8").read()
        texts.append(t)
        hcases.append({"id": len(hcases), "ops": [{"op": "analyze", "path": "/vws/corpus/" + os.path.basename(p), "text": t},
                                                  {"op": "snapshot", "full": True}]})
    results = list(C.run_harness(hcases))
    known_map = {"field return_type": "ret_", "field yield_line": "yield_"}
    for n, res in enumerate(results):
        text = texts[n]
        V.count()
        a, snap = res["res"]
        if isinstance(a, dict) and "panic" in a:
            V.violation({"text": text, "panic": a}, "analysis panicked")
            continue
        if n < len(cases):
            g, c = cases[n]
            fn, exp = c["fn"], c["expect"]
            V.nontriv(json.dumps(fn, sort_keys=True))
            path = "/vws/x/conftest.py"
            # (1) the specification's rules vs CPython's reading of the rendered text (tool sanity)
            try:
                cdefs, cus = cpyextract.extract(text)
            except SyntaxError as e:
                raise C.ToolError("rendered function is not valid Python: %s\n%s" % (e, text))
            if exp["present"] != (len(cdefs) == 1) and fn["place"] != "if":
                raise C.ToolError("spec/CPython disagree on presence for %r" % fn)
            if fn["place"] != "if" and cdefs:
                d = cdefs[0]
                spec_view = (exp["name"], SCOPES[exp["scope"]], exp["autouse"], list(exp["deps"] or []), exp["isgen"], exp["hasdoc"])
                cpy_view = (d["name"], d["scope"], d["autouse"], d["deps"], d["yield_line"] is not None, d["doc"] is not None)
                if spec_view != cpy_view:
                    raise C.ToolError("Extract.tla rules and cpyextract disagree for %r: %r vs %r" % (fn, spec_view, cpy_view))
                n_marks = sum(1 for u in cus if u["kind"] in ("usefixtures", "indirect"))
                if n_marks != exp["markuses"]:
                    raise C.ToolError("Extract.tla (MarkUsages) and cpyextract disagree for %r: %r vs %r" % (fn, exp["markuses"], n_marks))
                if fn["body"] in FIRST_YIELD:
                    body_start = text.split("\n").index(next(l for l in text.split("\n") if l.strip() == BODY[fn["body"]][0].strip() and l.startswith(" "))) + 1
                    if d["yield_line"] != body_start + FIRST_YIELD[fn["body"]]:
                        raise C.ToolError("Extract.tla (YieldOrdinal = first in source order) and cpyextract disagree for %r: line %r" % (fn, d["yield_line"]))
            # (2) the real analyzer
            rdefs, _ = impl_records(snap, path)
            if fn["place"] == "if":
                continue      # documented limitation: presence inside conditional blocks is not judged
            probs = compare_file(V, text, snap, path, fn)
            for what, detail in probs:
                ex = {"function": fn, "detail": detail, "text": text}
                dev = classify_c03(what, fn, detail)
                if dev:
                    V.classify([dev], ex, what)
                else:
                    V.violation(ex, what)
        else:
            path = hcases[n]["ops"][0]["path"]
            V.nontriv(path)
            for what, detail in compare_file(V, text, snap, path, path):
                ex = {"corpus_file": path, "detail": detail}
                dev = classify_c03(what, None, detail)
                if dev:
                    V.classify([dev], ex, what)
                else:
                    V.violation(ex, what)
    # ---- what the server attributes to a document, through the real binary: textDocument/documentSymbol lists every declared
    # fixture once, by name and def line (documents with several fixtures of one name: class-level overrides, name= aliases)
    if not os.environ.get("VERIF_REPLAY"):
        import lsp
        import shutil
        C.build_server()
        multi = ("import pytest\n\n\n@pytest.fixture\ndef client():\n    return 0\n\n\n@pytest.fixture\ndef other():\n    return 1\n\n\n"
                 "class TestA:\n    @pytest.fixture\n    def client(self, client):\n        return client\n\n    def test_a(self, client):\n        pass\n\n\n"
                 "class TestB:\n    @pytest.fixture(name=\"client\")\n    def special_client(self):\n        return 2\n\n    def test_b(self, client, other):\n        pass\n\n\n"
                 "@pytest.fixture\ndef client():\n    return 3\n")
        docs = [("multi_same_name.py", multi)] + [(os.path.basename(p), open(p, encoding="utf-8").read()) for p in corpus]
        sbase = os.path.join(C.BUILD, "ws", "c03-%d" % os.getpid())
        shutil.rmtree(sbase, ignore_errors=True)

        def sym_session(job):
            n, (name, text) = job
            root = os.path.join(sbase, "s%d" % n)
            os.makedirs(root, exist_ok=True)
            path = os.path.join(root, "test_doc_%d.py" % n)
            srv = lsp.Server()
            try:
                srv.initialize(root)
                srv.did_open(path, text)
                ds = srv.doc_request("textDocument/documentSymbol", path) or []
                return sorted((x["name"], x["selectionRange"]["start"]["line"] + 1) for x in ds)
            except (lsp.ServerDied, lsp.Timeout) as e:
                return {"error": str(e)}
            finally:
                srv.close()
                shutil.rmtree(root, ignore_errors=True)

        for (name, text), r in zip(docs, lsp.run_parallel(list(enumerate(docs)), sym_session, workers=6)):
            V.count()
            V.nontriv("symbols:" + name)
            if r is None or isinstance(r, dict):
                V.violation({"document": name, "result": r, "text": text}, "server died or did not answer documentSymbol")
                continue
            try:
                cdefs, _ = cpyextract.extract(text)
            except SyntaxError:
                continue
            want_syms = sorted((d["name"], d["line"]) for d in cdefs)
            if r != [tuple(x) for x in want_syms] and [list(x) for x in r] != [list(x) for x in want_syms]:
                V.violation({"document": name, "document_symbols": r, "declared_fixtures": want_syms, "text": text},
                            "documentSymbol does not list exactly the fixtures the document declares (each once, at its def line)")
        shutil.rmtree(sbase, ignore_errors=True)
    V.sample({"function": cases[0][1]["fn"], "expect": cases[0][1]["expect"], "text": texts[0]})
    # B2 over the repository's own test-suite (hook: src/fixtures/verif_trace.rs): every text any of the 710 tests hands to the
    # analyzer is projected by CPython under the documented rules and the recorded index slice must be SuiteTrace.tla's
    n_suite = 0
    if not os.environ.get("VERIF_REPLAY"):
        import suitetrace
        n_suite = suitetrace.validate(V, "cpython")
    cov = {"states": sum(m["distinct"] for m in metas), "transitions": sum(m["transitions"] for m in metas),
           "traces_validated_against_impl": len(results) + n_suite, "corpus_files": len(corpus), "exhaustive": True,
           "tlc": [{"cfg": m["cfg"], "wall_s": m["wall_s"]} for m in metas]}
    return V.finish(
        coverage_extra=cov,
        rule="feature product of one fixture function, group by group: decorator spelling x form (bare, called, name=, each "
             "scope, invalid scope, autouse) x neighbouring decorators x sync/async x placement (module, class, nested class, "
             "conditional block); parameter-kind sequences; body (yield in every block kind, nested def, lambda, yield from, "
             "assignment) x return annotation form x async; docstring layouts x placement. Every record: Extract.tla rules == "
             "CPython extraction of the rendered text (else tool error) and real analyzer == CPython extraction field by "
             "field; plus the repository's tests/test_project corpus; non-trivial = distinct feature record / corpus file",
        assumptions=["a parameter named `request` is not judged as usage (built-in fixture)",
                     "presence of fixtures inside conditional blocks is a documented limitation and not judged"])


def classify_c03(what, fn, detail):
    """map a disagreement to a listed deviation iff its shape is exactly the deviation's"""
    if not isinstance(detail, dict):
        return None
    if what.startswith("field return_type"):
        s, i = detail.get("source_says"), detail.get("index_says")
        if isinstance(i, str) and i.startswith("Str(") and fn and fn["ret"] == "string":
            return "string_annotation_debug_print"
        if fn and fn["body"] in ("yield_async_with", "yield_async_for", "yield_except", "yield_assign") and i is not None:
            return "contains_yield_incomplete"
    if what.startswith("field yield_line") and fn and fn["body"] in ("yield_assign",):
        return "yield_line_expr_stmt_only"
    return None


# ------------------------------------------------------------------------------------------- C15
PLACE = {"<E2>": "é", "<C3>": "中", "<M4>": "\U0001F600", "<TAB>": "\t"}


def piece_text(p):
    t = p["t"]
    for k, v in PLACE.items():
        t = t.replace(k, v)
    return t


def u16len(s):
    return len(s.encode("utf-16-le")) // 2


def render_pos_case(c):
    L = c["line"]
    pieces = list(L["before"] or []) + list(L["open"] or []) + [L["tok"]] + list(L["close"] or []) + list(L["after"] or [])
    for p in pieces:
        t = piece_text(p)
        if len(t.encode("utf-8")) != p["b"] or u16len(t) != p["u"]:
            raise C.ToolError("Positions.tla declares widths %r for piece %r" % ((p["b"], p["u"]), t))
    line = "".join(piece_text(p) for p in pieces)
    head = ["import pytest", "", "", "@pytest.fixture", "def fx():", "    return 1", "", ""]
    k = c["c"]
    if k == "test_param":
        body = [line, "    pass"]
    elif k == "fixture_param":
        body = ["@pytest.fixture", line, "    return 1"]
    elif k == "usefix":
        body = [line, "def test_u():", "    pass"]
    elif k == "usefix_class":
        body = [line, "class TestK:", "    def test_u(self):", "        pass"]
    elif k == "pytestmark":
        body = [line]
    elif k in ("indirect_true", "indirect_list"):
        body = [line, "def test_i(fx):", "    pass"]
    elif k in ("defname", "defname_async", "defname_wide", "defname_async_wide"):
        body = ["@pytest.fixture", line, "    return 1"]
    elif k == "defname_tab":
        body = ["class TestK:", "\t@pytest.fixture", line, "\t\treturn 1"]
    elif k == "defname_class":
        body = ["class TestK:", "    @pytest.fixture", line, "        return 1"]
    else:
        raise C.ToolError("unknown construct %r" % k)
    text = "\n".join(head + body) + "\n"
    target_line = len(head) + body.index(line) + 1
    return text, target_line


def check_c15(tier):
    import lsp
    V = C.Verdict("C15", tier, "model_checking")
    meta = C.run_tlc("Positions", "Positions.cfg", workers=4, timeout=3600)
    if not meta["ok"]:
        raise C.ToolError("TLC on Positions failed: %s" % meta["errors"])
    C.build_harness()
    cases = list(C.tlc_cases(meta))
    hcases, rendered = [], []
    variants = [("lf", "\n")] + ([("crlf", "\r\n")])
    for c in cases:
        text, tl = render_pos_case(c)
        for vname, eol in variants:
            t2 = text.replace("\n", eol)
            rendered.append((c, t2, tl, vname))
            # the same path is first analysed with a decoy of IDENTICAL byte length whose line starts differ
            # (the first line moved to the end): caches keyed by path must not leak into the real analysis
            first, rest = t2.split(eol, 1)
            decoy = rest + first + eol
            assert len(decoy.encode()) == len(t2.encode())
            hcases.append({"id": len(hcases), "ops": [{"op": "analyze", "path": "/vws/p/test_pos.py", "text": decoy},
                                                      {"op": "analyze", "path": "/vws/p/test_pos.py", "text": t2},
                                                      {"op": "snapshot", "full": True}]})
    results = list(C.run_harness(hcases))
    for (c, text, tl, vname), res in zip(rendered, results):
        V.count()
        V.nontriv((json.dumps({k: c[k] for k in ("c", "pk", "sf", "nm")}, sort_keys=True), vname))
        snap = res["res"][2]
        ex = {"construct": c["c"], "prefix": c["pk"], "string_form": c["sf"], "name_kind": c["nm"], "eol": vname, "text": text}
        if not isinstance(snap, dict):
            V.violation(dict(ex, result=res["res"]), "analysis failed or panicked")
            continue
        exp = (c["expect"]["start"], c["expect"]["end"])
        impl = (c["impl"]["start"], c["impl"]["end"])
        # tool sanity: CPython's tokenisation agrees with the specification's expected UTF-16 range
        cdefs, cus = cpyextract.extract(text.replace("\r\n", "\n"))
        if c["c"].startswith("defname"):
            cand = [d["namepos"] for d in cdefs if d["line"] == tl]
            real = [(d["sc"], d["ec"]) for lst in snap["defs"].values() for d in lst if d["line"] == tl]
        else:
            cand = [u for u in cus if u["line"] == tl and u["name"] == "fx" and "u0" in u]
            real = [(u["sc"], u["ec"]) for u in snap["usages"].get("/vws/p/test_pos.py", []) if u["line"] == tl and u["name"] == "fx"]
        if not cand or (cand[0]["u0"], cand[0]["u1"]) != exp:
            raise C.ToolError("Positions.tla expectation %r and CPython tokenisation %r disagree:\n%s" % (exp, cand, text))
        if len(real) != 1:
            V.violation(dict(ex, recorded=real), "the token is recorded %d times" % len(real))
            continue
        got = real[0]
        if got[0] > got[1]:
            V.violation(dict(ex, recorded=got), "a recorded range has start after end")
        if got == exp:
            continue
        e2 = dict(ex, expected_utf16=exp, recorded=got, model_predicts=impl, blame=c["blame"])
        if got == impl:
            V.classify(c["blame"], e2, "a reported range does not cover exactly the identifier / string content in UTF-16 columns")
        else:
            V.drift += 1
            V.violation(e2, "a reported range differs from the token and from the implementation model")
    # ---- structural rules of LSP responses on the C03 function corpus (real binary)
    C.build_server()
    m = C.run_tlc("Extract", "Extract_body.cfg", workers=4, timeout=3600)
    fcases = [x for x in C.tlc_cases(m)]
    multi = [x for x in fcases if x["fn"]["body"] in FIRST_YIELD and x["fn"]["ret"] == "none"]
    fcases = fcases[:: (6 if tier == "quick" else 1)] + (multi if tier == "quick" else [])
    # fixtures WITH parameters (every parameter-kind sequence of Extract.tla's params group) and with marks around the fixture
    # decorator: the call hierarchy has ranges to report there
    mp = C.run_tlc("Extract", "Extract_params.cfg", workers=4, timeout=3600)
    pc_all = [x for x in C.tlc_cases(mp)]
    fcases += pc_all[:: (5 if tier == "quick" else 1)]
    md = C.run_tlc("Extract", "Extract_deco.cfg", workers=4, timeout=3600)
    fcases += [x for x in C.tlc_cases(md) if x["fn"]["extra"] in ("usefix_before", "indirect_after", "marks_around", "kwdeco_before")][:: (40 if tier == "quick" else 4)]
    base = os.path.join(C.BUILD, "ws", "c15-%d" % os.getpid())
    import shutil
    shutil.rmtree(base, ignore_errors=True)

    def session(job):
        n, fc = job
        root = os.path.join(base, "s%d" % n)
        os.makedirs(root, exist_ok=True)
        if n % 2 == 0:
            text = render_fn(fc["fn"]) + "\n\ndef test_uses(fx_sample):\n    pass\n"
            if n % 4 == 0:
                # parameter names that ALSO occur earlier on the def line: inside `def` / `async`, inside the function's name
                text = text.replace("dep_a", "d").replace("dep_b", "sample").replace("dep_c", "fx")
        else:
            # the fixture is the LAST statement and the document has NO final newline: every range must still lie inside it
            text = "def test_uses(fx_sample):\n    pass\n\n\n" + render_fn(fc["fn"]).rstrip("\n")
        path = os.path.join(root, "test_s.py")
        # the fixtures fx_sample may request exist, so that the call hierarchy has something to point at
        with open(os.path.join(root, "conftest.py"), "w") as fh:
            fh.write("import pytest\n" + "".join("\n\n@pytest.fixture\ndef %s():\n    return 1\n" % nm
                                                  for nm in ("dep_a", "dep_b", "dep_c", "mark_dep", "ind_dep", "d", "sample", "fx")))
        srv = lsp.Server()
        try:
            srv.initialize(root)
            srv.did_open(path, text)
            lines = text.split("\n")
            tline = next(i for i, l in enumerate(lines) if l.startswith("def test_uses("))
            out = {"symbols": srv.doc_request("textDocument/documentSymbol", path),
                   "definition": srv.pos_request("textDocument/definition", path, tline, 15),
                   "references": srv.pos_request("textDocument/references", path, tline, 15, {"context": {"includeDeclaration": True}}),
                   "lens": srv.doc_request("textDocument/codeLens", path),
                   "implementation": srv.pos_request("textDocument/implementation", path, tline, 15),
                   "text": text, "tline": tline}
            dl = next((i for i, l in enumerate(lines) if "def fx_sample(" in l), None)
            if dl is not None:
                pc = srv.pos_request("textDocument/prepareCallHierarchy", path, dl, lines[dl].index("fx_sample") + 1)
                if pc and isinstance(pc, list):
                    out["outgoing"] = srv.request("callHierarchy/outgoingCalls", {"item": pc[0]})
                    out["incoming"] = srv.request("callHierarchy/incomingCalls", {"item": pc[0]})
            out["alive"] = srv.alive()
            return out
        except (lsp.ServerDied, lsp.Timeout) as e:
            return {"error": str(e), "text": text}
        finally:
            srv.close()
            shutil.rmtree(root, ignore_errors=True)

    for fc, r in zip(fcases, lsp.run_parallel(list(enumerate(fcases)), session, workers=8)):
        V.count()
        if r is None or "__exception__" in r:
            raise C.ToolError("LSP session failed: %r" % (r,))
        if "error" in r:
            V.violation({"function": fc["fn"], "error": r["error"], "text": r["text"]}, "server died during a position request")
            continue
        text = r["text"]
        lines = text.split("\n")
        cdefs, _ = cpyextract.extract(text)
        d0 = [d for d in cdefs if d["name"] == "fx_sample"]
        ex = {"function": fc["fn"], "text": text}

        def inside(rg):
            return rg["start"]["line"] < len(lines) and rg["end"]["line"] < len(lines) and \
                (rg["start"]["line"], rg["start"]["character"]) <= (rg["end"]["line"], rg["end"]["character"])

        for s in (r["symbols"] or []):
            if not inside(s["range"]) or not inside(s["selectionRange"]):
                V.violation(dict(ex, symbol=s), "documentSymbol range is malformed or outside the document")
            sr, fr = s["selectionRange"], s["range"]
            if not ((fr["start"]["line"], fr["start"]["character"]) <= (sr["start"]["line"], sr["start"]["character"])
                    and (sr["end"]["line"], sr["end"]["character"]) <= (fr["end"]["line"], fr["end"]["character"])):
                V.classify(["symbol_range_ends_col0"], dict(ex, symbol=s), "a symbol's selection range is not inside its full range")
        dfn = r["definition"]
        if d0 and dfn:
            loc = dfn if isinstance(dfn, dict) else dfn[0]
            tgt = loc["range"]["start"]["line"] + 1
            ok_lines = {d0[0]["line"]} | ({d0[0]["yield_line"]} if d0[0]["yield_line"] else set())
            if tgt not in ok_lines:
                V.violation(dict(ex, target_line=tgt, def_line=d0[0]["line"]), "go-to-definition does not land on the def (or yield) line")
        # go-to-implementation: where the fixture yields its value (the FIRST own yield in source order), else the def line
        imp = r.get("implementation")
        if d0 and imp and not (isinstance(imp, dict) and "__error__" in imp):
            loc = imp if isinstance(imp, dict) else imp[0]
            tgt = loc["range"]["start"]["line"] + 1
            want = d0[0]["yield_line"] or d0[0]["line"]
            if tgt != want:
                V.violation(dict(ex, target_line=tgt, expected_line=want), "go-to-implementation does not land on the line where the fixture yields its value (or its def line)")
        refs = r["references"] or []
        keys = [json.dumps(x, sort_keys=True) for x in refs]
        if len(keys) != len(set(keys)):
            V.violation(dict(ex, references=refs), "find-references lists a location twice")
        # call-hierarchy ranges: every fromRange of an outgoing call covers exactly the parameter that names the called fixture,
        # every fromRange of an incoming call exactly the name of this fixture in the caller's signature (ASCII lines here, so
        # UTF-16 columns are character columns)
        _, cuses = cpyextract.extract(text)
        for kind, want_name in (("outgoing", None), ("incoming", "fx_sample")):
            calls = r.get(kind)
            if not isinstance(calls, list):
                continue
            for call in calls:
                nm = want_name or call["to"]["name"]
                # where the documented rules (CPython) see this name requested: parameters of fx_sample (outgoing) or the
                # parameter of the test that requests fx_sample (incoming)
                want_pos = {(u["line"] - 1, u["u0"], u["u1"]) for u in cuses if u["name"] == nm and "u0" in u
                            and u["kind"] == ("fixture_param" if kind == "outgoing" else "test_param")}
                for rg in call.get("fromRanges", []):
                    ok = inside(rg) and rg["start"]["line"] == rg["end"]["line"]
                    got = lines[rg["start"]["line"]][rg["start"]["character"]:rg["end"]["character"]] if ok else None
                    if ok and not lines[rg["start"]["line"]].isascii():
                        continue
                    here = (rg["start"]["line"], rg["start"]["character"], rg["end"]["character"])
                    if got != nm or (want_pos and here not in want_pos):
                        V.violation(dict(ex, call_hierarchy=kind, fixture=nm, range=rg, text_at_range=got,
                                         parameter_positions=sorted(want_pos)),
                                    "a call-hierarchy range does not cover exactly the identifier that names the fixture there")

    # ---- published diagnostics follow the text: after edits that MOVE the fixtures (lines inserted / removed above, columns shifted
    # by `async`, blocks reordered) every range covers, in the LATEST text, the identifier its message is about
    import re as _re
    DOC = ("import pytest\n\n\n@pytest.fixture\ndef alpha(beta):\n    return beta\n\n\n@pytest.fixture\ndef beta(alpha):\n    return alpha\n\n\n"
           "@pytest.fixture(scope=\"session\")\ndef wide(narrow):\n    return narrow\n\n\n@pytest.fixture\ndef narrow():\n    return 1\n\n\n"
           "def test_body():\n    x = narrow\n    return x\n")
    blocks = DOC.split("\n\n\n")

    def reorder(perm):
        return "\n\n\n".join([blocks[0]] + [blocks[i] for i in perm])

    EDITS = {
        "lines_above": lambda t: "# moved\n\n\n" + t,
        "lines_removed": lambda t: t.replace("import pytest\n\n\n", "import pytest\n", 1),
        "async_defs": lambda t: t.replace("\ndef alpha", "\nasync def alpha").replace("\ndef wide", "\nasync def wide"),
        "in_class": lambda t: t.replace("def test_body():\n    x = narrow\n    return x\n", "class TestK:\n    def test_body(self):\n        x = narrow\n        return x\n"),
        "cycle_last": lambda t: reorder([3, 4, 5, 1, 2]),
        "reversed": lambda t: reorder([4, 3, 2, 1, 5]),
        "crlf": lambda t: t.replace("\n", "\r\n"),
    }
    names = sorted(EDITS)
    seqs = [[a] for a in names] + [[a, b] for a in names for b in names if a != b and (tier != "quick" or (names.index(a) + names.index(b)) % 3 == 0)]

    def diag_session(job):
        n, seq = job
        root = os.path.join(base, "d%d" % n)
        os.makedirs(root, exist_ok=True)
        path = os.path.join(root, "test_d.py")
        srv = lsp.Server()
        try:
            srv.initialize(root)
            steps = [("open", DOC, srv.did_open(path, DOC))]
            ver = 2
            for e in seq + ["back"]:
                t = DOC if e == "back" else EDITS[e](DOC)
                steps.append((e, t, srv.did_change(path, t, version=ver)))
                ver += 1
            return {"steps": steps}
        except (lsp.ServerDied, lsp.Timeout) as e:
            return {"error": str(e)}
        finally:
            srv.close()
            shutil.rmtree(root, ignore_errors=True)

    n_diag = 0
    for seq, r in zip(seqs, lsp.run_parallel(list(enumerate(seqs)), diag_session, workers=8)):
        if r is None or "__exception__" in r:
            raise C.ToolError("LSP session failed: %r" % (r,))
        if "error" in r:
            V.violation({"edits": seq, "error": r["error"]}, "server died / no diagnostics while a document was being edited")
            continue
        for e, t, diags in r["steps"]:
            V.count()
            n_diag += 1
            V.nontriv(("diagmove", e))
            ls = t.replace("\r\n", "\n").split("\n")
            ex = {"edits": seq, "step": e, "text": t, "published": diags}
            if sorted(d.get("code") for d in diags) != ["circular-dependency", "scope-mismatch", "undeclared-fixture"]:
                V.violation(ex, "the findings of the latest text are not published exactly once each (three causes, three findings)")
                continue
            for d in diags:
                rg = d["range"]
                ok = rg["start"]["line"] == rg["end"]["line"] and rg["start"]["line"] < len(ls)
                got = ls[rg["start"]["line"]][rg["start"]["character"]:rg["end"]["character"]] if ok else None
                if d["code"] == "undeclared-fixture":
                    want, where = {"narrow"}, "x = narrow"
                elif d["code"] == "scope-mismatch":
                    want, where = {"wide"}, "def wide("
                else:
                    want, where = {"alpha", "beta"}, "def "
                if got not in want or where not in ls[rg["start"]["line"]]:
                    V.violation(dict(ex, finding=d, text_at_range=got),
                                "a published diagnostic's range does not cover, in the latest text, the identifier the finding is about")
    shutil.rmtree(base, ignore_errors=True)
    V.sample({"construct": cases[0]["c"], "line": "".join(piece_text(p) for p in (cases[0]["line"]["before"] or [])) + "...",
              "expect": cases[0]["expect"]})
    cov = {"states": meta["distinct"], "transitions": meta["transitions"],
           "traces_validated_against_impl": len(results) + len(fcases) + n_diag, "exhaustive": True,
           "tlc": {"module": "Positions", "wall_s": meta["wall_s"]}}
    return V.finish(
        coverage_extra=cov,
        rule="token layouts: construct {test parameter, fixture parameter, usefixtures on function / class, pytestmark, "
             "indirect parametrize True / list, def name plain / async / tab-indented / class-nested} x what precedes the token "
             "on its line {nothing, ASCII, 2-byte, 3-byte, 4-byte (surrogate pair) character} x string form {'', \"\", triple, "
             "r\"\", R'', u\"\"} x name {ASCII, non-ASCII} x line ending {LF, CRLF}; expected UTF-16 range = sum of declared "
             "piece widths (re-checked against the text and against CPython's tokenisation); plus structural rules of "
             "documentSymbol / definition / references responses of the real binary on the C03 function corpus",
        assumptions=["library-level line/start_char/end_char are what the handlers put into LSP ranges (thin conversion, line-1)"])
