------------------------------ MODULE Discovery ------------------------------
(***************************************************************************)
(* C13: which files a workspace scan indexes (scanner.rs:78-198).          *)
(* Layer R (PyIndexed): conftest.py, test_*.py, *_test.py whose directory  *)
(* components BELOW THE ROOT are not ignored names, not matched by an      *)
(* exclude pattern (root-relative), readable -- independent of where the   *)
(* root lives.  Layer I (ImplIndexed): what the code does, with the named  *)
(* deviations                                                              *)
(*   skip_applies_to_absolute_path  scanner.rs:138 tests EVERY component   *)
(*       of the absolute path, so an ancestor of the root named like an    *)
(*       ignored directory hides the whole workspace;                      *)
(*   root_dir_name_filtered  scanner.rs:102 filter_entry also sees the     *)
(*       root entry itself.                                                *)
(* One TLC state = (root location, exclude set, fault mode); the tree is   *)
(* the FULL product of directory components x file names (every path class *)
(* coexists in one tree, which is also what checks that one unreadable     *)
(* file does not affect the others).                                       *)
(***************************************************************************)
EXTENDS Naturals, Sequences, FiniteSets, TLC, Json

CONSTANTS DevsOn,     \* deviations of the code as it is (subset of AllDiscDevs)
          Deep        \* thorough tier: every ignored name as an ancestor / as the root's own name, more exclude sets

AllDiscDevs == {"skip_applies_to_absolute_path", "root_dir_name_filtered", "third_party_by_substring"}
\*   third_party_by_substring  analyzer.rs:453 a file is third-party iff its ABSOLUTE path contains the
\*       substring "site-packages" -- a workspace below such a directory is classified third-party

SkipNames == {".git", ".hg", ".svn", ".venv", "venv", "env", ".env", "__pycache__", ".pytest_cache",
              ".mypy_cache", ".ruff_cache", ".tox", ".nox", "build", "dist", ".eggs", "node_modules",
              "bower_components", "target", ".idea", ".vscode", ".cache", ".local", "vendor", "site-packages"}
\* representatives: ignored names, *.egg-info, near misses, plain
DirAlphabet == {".git", "build", ".venv", "node_modules", "x.egg-info", "site-packages",
                "builds", "egg-info", "envs", "pkg", "tests",
                "pkg_x"}      \* a name that merely STARTS like the excluded directory
EggInfo == {"x.egg-info"}
Ignored(d) == d \in SkipNames \/ d \in EggInfo

FileAlphabet == {"conftest.py", "test_a.py", "a_test.py", "test_.py", "_test.py", "test_a.txt", "atest.py",
                 "test.py", "conftest.pyi", "testa.py",
                 "pkg_test.py"}   \* a test file whose NAME starts like the excluded directory
NameOk(f) == f \in {"conftest.py", "test_a.py", "a_test.py", "test_.py", "_test.py", "pkg_test.py"}

DirSeqs == {<<>>} \cup { <<a>> : a \in DirAlphabet } \cup { <<a, b>> : a \in DirAlphabet, b \in DirAlphabet }
Paths == { [dirs |-> d, file |-> f] : d \in DirSeqs, f \in FileAlphabet }

\* exclude patterns (glob crate semantics, root-relative): "pkg/**" and "**/test_a.py"
ExcludeSets == { {}, {"pkg/**"}, {"**/test_a.py"}, {"pkg/**", "**/test_a.py"}, {"**/pkg/**"} }
               \cup (IF Deep THEN { {"tests/**"}, {"**/conftest.py"}, {"pkg/tests/**"}, {"**/tests/**", "pkg/**"}, {"pkg_x/**"} } ELSE {})
Matches(pat, p) ==
    CASE pat = "pkg/**" -> Len(p.dirs) >= 1 /\ p.dirs[1] = "pkg"
      [] pat = "**/test_a.py" -> p.file = "test_a.py"
      [] pat = "**/pkg/**" -> \E i \in 1..Len(p.dirs) : p.dirs[i] = "pkg"
      [] pat = "tests/**" -> Len(p.dirs) >= 1 /\ p.dirs[1] = "tests"
      [] pat = "pkg_x/**" -> Len(p.dirs) >= 1 /\ p.dirs[1] = "pkg_x"
      [] pat = "**/conftest.py" -> p.file = "conftest.py"
      [] pat = "pkg/tests/**" -> Len(p.dirs) >= 2 /\ p.dirs[1] = "pkg" /\ p.dirs[2] = "tests"
      [] pat = "**/tests/**" -> \E i \in 1..Len(p.dirs) : p.dirs[i] = "tests"
Excluded(p, ex) == \E pat \in ex : Matches(pat, p)

\* where the root lives: components of the absolute path ABOVE the root, and the root's own name
RootLocs == { [above |-> <<"plain">>, name |-> "ws"],
              [above |-> <<"site-packages">>, name |-> "ws"],
              [above |-> <<"pkg">>, name |-> "ws"],            \* an ancestor named like an exclude pattern's component
              [above |-> <<"build">>, name |-> "ws"],
              [above |-> <<"env">>, name |-> "ws"],
              [above |-> <<".cache">>, name |-> "ws"],
              [above |-> <<"my-site-packages-x">>, name |-> "ws"],
              [above |-> <<"plain2">>, name |-> "build"] }
            \cup (IF Deep THEN { [above |-> <<n>>, name |-> "ws"] : n \in SkipNames \cup EggInfo }
                               \cup { [above |-> <<"plain3">>, name |-> n] : n \in {"env", ".venv", "node_modules", "x.egg-info", "site-packages", "target"} }
                               \cup { [above |-> <<"build", "dist">>, name |-> "ws"], [above |-> <<"a", "site-packages", "b">>, name |-> "ws"] }
                  ELSE {})

\* fault modes: which path classes are made unreadable / invalid
FaultModes == {"none", "nonutf8", "dangling"}
Faulty(p, fm) ==
    CASE fm = "none" -> FALSE
      [] fm = "nonutf8" -> p.file = "test_.py"            \* every test_.py holds invalid UTF-8
      [] fm = "dangling" -> p.file = "_test.py"           \* every _test.py is a dangling symlink

SeqSetD(s) == { s[i] : i \in 1..Len(s) }

PyIndexed(p, ex, fm) ==
    /\ NameOk(p.file)
    /\ \A d \in SeqSetD(p.dirs) : ~Ignored(d)
    /\ ~Excluded(p, ex)
    /\ ~Faulty(p, fm)

\* "plus the modules those files pull in": tests/conftest.py star-imports tests/helpermod.py (not a pytest file
\* name); the helper is indexed exactly when its importer is
Importer == [dirs |-> <<"tests">>, file |-> "conftest.py"]
PyPulled(ex, fm) == PyIndexed(Importer, ex, fm)

ImplIndexed(p, loc, ex, fm, D) ==
    /\ PyIndexed(p, ex, fm)
    /\ ("skip_applies_to_absolute_path" \in D => \A d \in SeqSetD(loc.above) \cup {loc.name} : ~Ignored(d))
    /\ ("root_dir_name_filtered" \in D => ~Ignored(loc.name))

\* classification of an indexed workspace file: always "project" by layer R (it is below the root,
\* outside any ignored directory, hence outside every site-packages directory of the workspace)
HasSub(str) == str \in {"my-site-packages-x", "site-packages"}
ImplThird(l, D) == "third_party_by_substring" \in D /\ (\E i \in 1..Len(l.above) : HasSub(l.above[i]))

\* how the client NAMES the root: by its canonical path, through a symbolic link that lives elsewhere (a plainly named
\* directory), or by a path with a `..` component.  Layer R does not depend on it: the outcome relative to the root is the same.
\* symlink_ign: the symbolic link itself lives in a directory with an IGNORED name (the spelled path then carries an ignored
\* component ABOVE the root, which must not matter)
Vias == {"direct", "symlink", "symlink_ign", "dotdot"}
VARIABLES loc, ex, fm, via
vars == <<loc, ex, fm, via>>
Init == loc \in RootLocs /\ ex \in ExcludeSets /\ fm \in FaultModes /\ via \in Vias /\ (via # "direct" => fm = "none")
Next == UNCHANGED vars
Spec == Init /\ [][Next]_vars

\* C13 for the repaired design: relocation invariance and fault isolation
RepairedRelocationInvariant ==
    \A l2 \in RootLocs : \A p \in Paths : ImplIndexed(p, loc, ex, fm, {}) = ImplIndexed(p, l2, ex, fm, {})
FaultIsolation ==
    \A p \in Paths : ~Faulty(p, fm) => (PyIndexed(p, ex, fm) = PyIndexed(p, ex, "none"))
RepairedEqualsR == /\ \A p \in Paths : ImplIndexed(p, loc, ex, fm, {}) = PyIndexed(p, ex, fm)
                   /\ ImplIndexed(Importer, loc, ex, fm, {}) = PyPulled(ex, fm)

EmitCase ==
    PrintT("CASE " \o ToJson([loc |-> loc, ex |-> ex, fm |-> fm, via |-> via,
                              py |-> { p \in Paths : PyIndexed(p, ex, fm) },
                              impl |-> { p \in Paths : ImplIndexed(p, loc, ex, fm, DevsOn) },
                              nfiles |-> Cardinality(Paths),
                              pulledPy |-> PyPulled(ex, fm), pulledImpl |-> ImplIndexed(Importer, loc, ex, fm, DevsOn),
                              thirdImpl |-> ImplThird(loc, DevsOn), thirdPy |-> FALSE,
                              blame |-> { d \in DevsOn :
                                            { p \in Paths : ImplIndexed(p, loc, ex, fm, DevsOn \ {d}) } = { p \in Paths : PyIndexed(p, ex, fm) }
                                            /\ { p \in Paths : ImplIndexed(p, loc, ex, fm, DevsOn) } # { p \in Paths : PyIndexed(p, ex, fm) } }]))

EmitAlphabet ==
    (loc.above = <<"plain">> /\ ex = {} /\ fm = "none" /\ via = "direct") =>
        PrintT("VERSIONS " \o ToJson([dirs |-> DirAlphabet, files |-> FileAlphabet]))

\* both deviations were genuine defects, repaired in /repo by 1053d5b
MCDevsNow == {}     \* third_party_by_substring repaired by 5f5f5b8
=============================================================================
