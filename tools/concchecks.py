"""C09 / C10 / C12: interleavings at DashMap-operation grain.  spec/Conc.tla refines the atomic
AnalyzeFn of Index.tla; TLC checks serializability over ALL interleavings, placements and scenarios,
and its simulated behaviours (thread-id sequences) are replayed on REAL threads through the
instrumented DashMap's cooperative scheduler (harness/vendor/dashmap/src/verif.rs)."""
import json
import os
import random
import subprocess

import common as C
import render as R

UNI = R.Universe({"fa": "/vws/D/test_fa.py", "fb": "/vws/D/test_fb.py"})
YIELD = ["definitions", "file_definitions", "usages", "usage_by_fixture"]


def run_conc(cases, procs=8):
    os.makedirs(os.path.join(C.BUILD, "tmp"), exist_ok=True)
    chunks = [cases[i::procs] for i in range(procs)]
    ps = []
    for i, ch in enumerate(chunks):
        if not ch:
            continue
        path = os.path.join(C.BUILD, "tmp", "conc-%d-%d.ndjson" % (os.getpid(), i))
        with open(path, "w") as fh:
            for c in ch:
                fh.write(json.dumps(c) + "\n")
        p = subprocess.Popen(["timeout", "600", C.HARNESS_BIN, "conc", path], env=C.scrubbed_env(),
                             stdout=subprocess.PIPE, stderr=subprocess.PIPE)
        ps.append((p, path, len(ch)))
    out = {}
    for p, path, n in ps:
        so, se = p.communicate()
        os.unlink(path)
        lines = so.decode().splitlines()
        if p.returncode == 124:
            out["__hang__"] = "a scheduled execution did not finish within the watchdog (%s)" % path
        elif p.returncode != 0 or len(lines) != n:
            raise C.ToolError("conc harness failed rc=%s: %s" % (p.returncode, se.decode()[-1500:]))
        for l in lines:
            r = json.loads(l)
            out[r["id"]] = r
    return out


def simulate(cfg, num, depth=120):
    seed = C.seed() or 1
    meta = C.run_tlc("Conc", cfg, workers=1, timeout=1800, simulate="num=%d" % num,
                     extra_args=("-depth", str(depth), "-seed", str(seed)))
    if not meta["ok"]:
        raise C.ToolError("TLC simulation Conc/%s failed: %s" % (cfg, meta["errors"]))
    return meta


def text_of(slot, mod):
    return R.render_checked(UNI, slot, mod).text


def bag(x):
    return sorted(json.dumps(v, sort_keys=True) for v in x)


def proj_real(snap, rendered):
    """real snapshot -> the abstract per-key bags of Conc.tla's ProjJ"""
    def did(d):
        slot = UNI.slot_of_path.get(d["file"])
        return [slot, rendered_line(rendered, slot, d["line"])]

    def uid(u):
        slot = UNI.slot_of_path.get(u["file"])
        rs = rendered.get(slot, [])
        for r in rs:
            for key, (ln, cs, ce) in r.use_pos.items():
                if ln == u["line"] and cs == u["sc"] and ce == u["ec"]:
                    return [slot, key[0], key[1], key[2]]
        return [slot, "?", u["line"], u["sc"]]

    return {"defs": {k: bag(did(d) for d in v) for k, v in snap["defs"].items() if v},
            "fdefs": {UNI.slot_of_path.get(k): sorted(v) for k, v in snap["fdefs"].items() if v},
            "usages": {UNI.slot_of_path.get(k): bag(uid(u) for u in v) for k, v in snap["usages"].items() if v},
            "ubf": {k: bag(uid(u) for u in v) for k, v in snap["ubf"].items() if v}}


def rendered_line(rendered, slot, line):
    for r in rendered.get(slot, []):
        if line in r.line_item:
            return r.line_item[line]
    return -line


def proj_model(p):
    return {"defs": {k: bag([d["file"], d["idx"]] for d in (v or [])) for k, v in p["defs"].items() if v},
            "fdefs": {k: sorted(v) for k, v in p["fdefs"].items() if v},
            "usages": {k: bag([u["file"], u["idx"], u["uk"], u["ui"]] for u in (v or [])) for k, v in p["usages"].items() if v},
            "ubf": {k: bag([u["file"], u["idx"], u["uk"], u["ui"]] for u in (v or [])) for k, v in p["ubf"].items() if v}}


def build_case(cid, rep, one_shard, schedule=None, extra_post=None, log=False):
    sc = rep["sc"]
    pre = []
    rendered = {}
    for f in sorted(sc["prev"]):
        m = sc["prev"][f]
        if m["present"]:
            r = R.render_checked(UNI, f, m)
            rendered.setdefault(f, []).append(r)
            pre.append({"op": "analyze", "path": UNI.paths[f], "text": r.text})
    threads = []
    jobs = sc["job"]
    jl = jobs if isinstance(jobs, list) else [jobs[k] for k in sorted(jobs, key=int)]
    for j in jl:
        r = R.render_checked(UNI, j["f"], j["m"])
        rendered.setdefault(j["f"], []).append(r)
        threads.append([{"op": "analyze", "path": UNI.paths[j["f"]], "text": r.text, "fresh": not j["cleanup"]}])
    post = [{"op": "snapshot"}] + (extra_post or [])
    case = {"id": cid, "one_shard": one_shard, "mode": "sched", "yield_maps": YIELD, "pre": pre,
            "threads": threads, "schedule": schedule if schedule is not None else rep["sched"], "post": post,
            "log": log}
    return case, rendered, jl


def sequential_outcomes(reps):
    """for every scenario: the real library's result of each sequential order of the jobs"""
    cases, keys = [], {}
    for rep in reps:
        k = json.dumps(rep["sc"], sort_keys=True)
        if k in keys:
            continue
        keys[k] = []
        n = len(rep["sc"]["job"])
        orders = [[1, 2], [2, 1]] if n == 2 else [[a, b, c] for a in (1, 2, 3) for b in (1, 2, 3) for c in (1, 2, 3) if len({a, b, c}) == 3]
        for o in orders:
            case, rendered, jl = build_case(len(cases), rep, False)
            ops = list(case["pre"])
            for t in o:
                ops += case["threads"][t - 1]
            ops.append({"op": "snapshot"})
            keys[k].append((len(cases), o, rendered))
            cases.append({"id": len(cases), "ops": ops})
    res = list(C.run_harness(cases))
    out = {}
    for k, lst in keys.items():
        out[k] = [(o, proj_real(res[i]["res"][-1], rendered)) for i, o, rendered in lst]
    return out


def exhaustive(cfg):
    meta = C.run_tlc("Conc", cfg, workers=12, timeout=3600)
    if not meta["ok"]:
        raise C.ToolError("TLC on Conc/%s failed: %s" % (cfg, meta["errors"]))
    return meta


def check_c09(tier):
    V = C.Verdict("C09", tier, "model_checking")
    meta = exhaustive("Conc_c09.cfg")
    C.build_harness()
    sim = simulate("Conc_c09_sim.cfg", 1500 if tier == "quick" else 20000)
    reps = list(C.tlc_cases(sim, prefix="REPLAY"))
    seq = sequential_outcomes(reps)
    cases, info = [], {}
    rnd = random.Random(C.seed())
    for n, rep in enumerate(reps):
        for one in (False, True):
            cid = len(cases)
            case, rendered, jl = build_case(cid, rep, one)
            info[cid] = (rep, rendered, one, "tlc")
            cases.append(case)
        # one additional seeded random schedule per behaviour (beyond what TLC sampled)
        cid = len(cases)
        rs = [rnd.choice([1, 2]) for _ in range(60)]
        case, rendered, jl = build_case(cid, rep, False, schedule=rs)
        info[cid] = (rep, rendered, False, "random")
        cases.append(case)
    res = run_conc(cases)
    if "__hang__" in res:
        V.violation({"what": res["__hang__"]}, "a scheduled concurrent analysis did not terminate")
    exact = 0
    for cid, r in res.items():
        if cid == "__hang__":
            continue
        rep, rendered, one, kind = info[cid]
        V.count()
        k = json.dumps(rep["sc"], sort_keys=True)
        jobs = rep["sc"]["job"]
        V.nontriv((k, tuple(r["granted"]), one))
        ex = {"scenario": rep["sc"], "schedule": r["granted"], "one_shard": one,
              "texts": {p: [x.text for x in v] for p, v in rendered.items()}}
        if r["deadlock"] or any(r["panics"]):
            V.violation(dict(ex, panics=r["panics"], hazards=r["hazards"]), "deadlock or panic under a scheduled interleaving")
            continue
        real = proj_real(r["post"][0], rendered)
        outcomes = [p for _, p in seq[k]]
        if real not in outcomes:
            V.violation(dict(ex, result=real, sequential_outcomes=[{"order": o, "result": p} for o, p in seq[k]]),
                        "the index after concurrent analyses equals no sequential execution of them")
            continue
        if kind == "tlc" and not one:
            if r["granted"][:len(rep["sched"])] == rep["sched"]:
                exact += 1
                if proj_model(rep["final"]) != real:
                    V.drift += 1
    if reps:
        V.sample({"scenario": reps[0]["sc"], "sched": reps[0]["sched"]})
    cov = {"states": meta["distinct"], "transitions": meta["transitions"], "traces_validated_against_impl": len(res),
           "schedules_followed_exactly": exact, "tlc_behaviours": len(reps), "exhaustive": True,
           "tlc": {"cfg": "Conc_c09.cfg", "wall_s": meta["wall_s"], "cached": meta.get("cached", False)}}
    return V.finish(
        coverage_extra=cov,
        rule="TLC: all interleavings of two analyses of DIFFERENT files at DashMap-operation grain x key->shard "
             "placements x scenarios (previous versions incl. last-definition removal, cleanup and no-cleanup paths), "
             "invariants Serializable / NoDanglingC / MirrorC; real: TLC-simulated behaviours replayed on two real "
             "threads under the instrumented DashMap's scheduler (natural 2-shard placement and all-keys-in-one-shard) "
             "plus one seeded random schedule each; result compared as per-key bags with both sequential orders on the "
             "real library; distinct by (scenario, granted schedule, placement mode)",
        assumptions=["schedules are thread-id sequences over acquisitions of the four shared maps; other maps are per-file",
                     "instrumented dashmap 6.1.0 is behaviourally upstream plus hooks (harness/vendor/dashmap/VERIF_PATCH.md)"])


def check_c10(tier):
    V = C.Verdict("C10", tier, "model_checking")
    meta = exhaustive("Conc_c10.cfg")
    C.build_harness()
    sim = simulate("Conc_c10_sim.cfg", 1200 if tier == "quick" else 15000)
    reps = list(C.tlc_cases(sim, prefix="REPLAY"))
    menu = []
    for rep in reps:
        for j in (rep["sc"]["job"] if isinstance(rep["sc"]["job"], list) else list(rep["sc"]["job"].values())):
            if j["m"] not in menu:
                menu.append(j["m"])
    # the coarse orders first: scan entirely before / after the notification
    cases, info = [], {}
    for n, rep in enumerate(reps):
        variants = [("tlc", rep["sched"], False), ("tlc1", rep["sched"], True)]
        if n < 400:
            variants += [("scan_first", [1] * 80, False), ("editor_first", [2] * 80, False)]
        for kind, sched, one in variants:
            cid = len(cases)
            # one further change notification (each menu text) must restore the single-analysis state
            extra = []
            for m2 in menu:
                extra.append({"op": "analyze", "path": UNI.paths["fa"], "text": text_of("fa", m2)})
                extra.append({"op": "snapshot"})
            case, rendered, jl = build_case(cid, rep, one, schedule=sched, extra_post=extra)
            for m2 in menu:
                rendered.setdefault("fa", []).append(R.render_checked(UNI, "fa", m2))
            info[cid] = (rep, rendered, kind, jl)
            cases.append(case)
    # single-analysis references
    ref_cases = [{"id": i, "ops": [{"op": "analyze", "path": UNI.paths["fa"], "text": text_of("fa", m)}, {"op": "snapshot"}]}
                 for i, m in enumerate(menu)]
    refs = {}
    for i, r in enumerate(C.run_harness(ref_cases)):
        refs[json.dumps(menu[i], sort_keys=True)] = proj_real(r["res"][-1], {"fa": [R.render_checked(UNI, "fa", menu[i])]})
    res = run_conc(cases)
    if "__hang__" in res:
        V.violation({"what": res["__hang__"]}, "scan/editor interleaving did not terminate")
    for cid, r in res.items():
        if cid == "__hang__":
            continue
        rep, rendered, kind, jl = info[cid]
        V.count()
        V.nontriv((json.dumps(rep["sc"], sort_keys=True), tuple(r["granted"])))
        buf = jl[1]["m"]
        ex = {"disk": jl[0]["m"], "buffer": buf, "schedule": r["granted"], "kind": kind,
              "texts": {"disk": text_of("fa", jl[0]["m"]), "buffer": text_of("fa", buf)}}
        if r["deadlock"] or any(r["panics"]):
            V.violation(dict(ex, panics=r["panics"]), "deadlock or panic while scan and editor analyse the same file")
            continue
        real = proj_real(r["post"][0], rendered)
        want = refs[json.dumps(buf, sort_keys=True)]
        # second half: one further change restores the exact single-analysis state
        for i, m2 in enumerate(menu):
            after = proj_real(r["post"][2 + 2 * i], rendered)
            if after != refs[json.dumps(m2, sort_keys=True)]:
                V.violation(dict(ex, further_change=text_of("fa", m2), state=after,
                                 expected=refs[json.dumps(m2, sort_keys=True)]),
                            "one further change notification does not restore the single-analysis state")
                break
        if real == want:
            continue
        # first half violated: known iff the specification predicts exactly this state for this schedule
        followed = r["granted"][:len(rep["sched"])] == rep["sched"]
        predicted = kind.startswith("tlc") and followed and not rep["editorWins"] and proj_model(rep["final"]) == real
        if kind in ("scan_first", "editor_first"):
            # coarse orders: sequential semantics of the atomic model (scan after editor duplicates)
            predicted = kind == "editor_first" or real != want
        e2 = dict(ex, state=real, expected=want, blame=["scan_no_cleanup_same_file"])
        if predicted or not followed:
            V.classify(["scan_no_cleanup_same_file"], e2, "after scan and editor notification the index does not reflect the editor's content exactly once")
        else:
            V.drift += 1
            V.violation(e2, "index after scan/editor interleaving differs from the editor's content and from the model's prediction")
    if reps:
        V.sample({"scenario": reps[0]["sc"], "sched": reps[0]["sched"], "editorWins": reps[0]["editorWins"]})
    cov = {"states": meta["distinct"], "transitions": meta["transitions"], "traces_validated_against_impl": len(res),
           "tlc_behaviours": len(reps), "exhaustive": True,
           "tlc": {"cfg": "Conc_c10.cfg", "wall_s": meta["wall_s"], "cached": meta.get("cached", False)}}
    return V.finish(
        coverage_extra=cov,
        rule="TLC: all interleavings of {scan worker: analyze(F, disk, no cleanup)} and {editor: analyze(F, buffer, "
             "cleanup)} on the SAME file at DashMap-operation grain, disk/buffer over 5 texts each, invariant "
             "RestoreAfterChange; real: simulated behaviours and both coarse orders replayed on real threads under the "
             "scheduler, then every menu text sent as one further change; final state compared with the single analysis",
        assumptions=["the scan's visit is the verif_analyze_file_fresh hook (the function scanner.rs:186 calls)"])
