//! The op interpreter: one JSON op -> one call into the real library -> one JSON answer.
//! Projections of the real state to the abstract state of the specification live here too.

use pytest_language_server::{
    CompletionContext, FixtureDatabase, FixtureDefinition, FixtureUsage,
};
use serde_json::{json, Map, Value};
use std::cell::RefCell;
use std::collections::{BTreeMap, HashSet};
use std::panic::{catch_unwind, AssertUnwindSafe};
use std::path::{Path, PathBuf};

thread_local! {
    pub static LAST_PANIC_LOC: RefCell<String> = RefCell::new(String::new());
}

pub fn short_def(d: &FixtureDefinition) -> Value {
    json!({"file": d.file_path.to_string_lossy(), "line": d.line, "name": d.name})
}

pub fn full_def(d: &FixtureDefinition) -> Value {
    json!({
        "file": d.file_path.to_string_lossy(), "line": d.line, "name": d.name,
        "end_line": d.end_line, "sc": d.start_char, "ec": d.end_char,
        "doc": d.docstring, "ret": d.return_type, "third": d.is_third_party,
        "plugin": d.is_plugin, "deps": d.dependencies, "scope": d.scope.as_str(),
        "yield_line": d.yield_line, "autouse": d.autouse,
    })
}

pub fn usage_json(u: &FixtureUsage) -> Value {
    json!({"file": u.file_path.to_string_lossy(), "line": u.line, "name": u.name,
           "sc": u.start_char, "ec": u.end_char})
}

fn opt_def(d: Option<FixtureDefinition>, full: bool) -> Value {
    match d {
        Some(d) => {
            if full {
                full_def(&d)
            } else {
                short_def(&d)
            }
        }
        None => Value::Null,
    }
}

fn s<'a>(op: &'a Value, k: &str) -> &'a str {
    op.get(k).and_then(|v| v.as_str()).unwrap_or_else(|| panic!("TOOL: op field {k} missing in {op}"))
}
fn u(op: &Value, k: &str) -> u64 {
    op.get(k).and_then(|v| v.as_u64()).unwrap_or_else(|| panic!("TOOL: op field {k} missing in {op}"))
}
fn b(op: &Value, k: &str) -> bool {
    op.get(k).and_then(|v| v.as_bool()).unwrap_or(false)
}

fn sorted_vals(mut v: Vec<Value>) -> Vec<Value> {
    v.sort_by_key(|x| x.to_string());
    v
}

/// Full projection of the `pub` maps (Appendix B of DESIGN.md).  Vector order is preserved for
/// `definitions[name]` (registration order is observable); everything keyed by hash iteration is
/// sorted so that the projection is a function of the abstract state.
pub fn snapshot(db: &FixtureDatabase, full: bool) -> Value {
    snapshot_opt(db, full, false)
}

/// `raw`: keep the vector order of usage_by_fixture entries (trace validation compares it)
pub fn snapshot_opt(db: &FixtureDatabase, full: bool, raw: bool) -> Value {
    let mut defs = BTreeMap::new();
    for e in db.definitions.iter() {
        let v: Vec<Value> = e
            .value()
            .iter()
            .map(|d| if full { full_def(d) } else { short_def(d) })
            .collect();
        defs.insert(e.key().clone(), Value::Array(v));
    }
    let mut fdefs = BTreeMap::new();
    for e in db.file_definitions.iter() {
        let mut v: Vec<String> = e.value().iter().cloned().collect();
        v.sort();
        fdefs.insert(e.key().to_string_lossy().to_string(), json!(v));
    }
    let mut usages = BTreeMap::new();
    for e in db.usages.iter() {
        let v: Vec<Value> = e.value().iter().map(usage_json).collect();
        usages.insert(e.key().to_string_lossy().to_string(), Value::Array(v));
    }
    let mut ubf = BTreeMap::new();
    for e in db.usage_by_fixture.iter() {
        let v: Vec<Value> = e
            .value()
            .iter()
            .map(|(p, us)| {
                let mut j = usage_json(us);
                j["key_file"] = json!(p.to_string_lossy());
                j
            })
            .collect();
        ubf.insert(e.key().clone(), Value::Array(if raw { v } else { sorted_vals(v) }));
    }
    let mut cached: Vec<String> = db
        .file_cache
        .iter()
        .map(|e| e.key().to_string_lossy().to_string())
        .collect();
    cached.sort();
    let mut undecl = BTreeMap::new();
    for e in db.undeclared_fixtures.iter() {
        let v: Vec<Value> = e
            .value()
            .iter()
            .map(|x| {
                json!({"name": x.name, "line": x.line, "sc": x.start_char, "ec": x.end_char,
                       "fn": x.function_name, "fn_line": x.function_line})
            })
            .collect();
        undecl.insert(e.key().to_string_lossy().to_string(), Value::Array(v));
    }
    let mut imports = BTreeMap::new();
    for e in db.imports.iter() {
        let mut v: Vec<String> = e.value().iter().cloned().collect();
        v.sort();
        imports.insert(e.key().to_string_lossy().to_string(), json!(v));
    }
    let mut plugins: Vec<String> = db
        .plugin_fixture_files
        .iter()
        .map(|e| e.key().to_string_lossy().to_string())
        .collect();
    plugins.sort();
    json!({"defs": defs, "fdefs": fdefs, "usages": usages, "ubf": ubf, "cached": cached,
           "undecl": undecl, "imports": imports, "plugins": plugins,
           "version": db.definitions_version.load(std::sync::atomic::Ordering::SeqCst)})
}

fn completion_ctx_json(c: Option<CompletionContext>) -> Value {
    match c {
        None => Value::Null,
        Some(CompletionContext::FunctionSignature {
            function_name,
            function_line,
            is_fixture,
            declared_params,
            fixture_scope,
        }) => json!({"kind": "signature", "fn": function_name, "fn_line": function_line,
                     "is_fixture": is_fixture, "declared": declared_params,
                     "scope": fixture_scope.map(|s| s.as_str())}),
        Some(CompletionContext::FunctionBody {
            function_name,
            function_line,
            is_fixture,
            declared_params,
            fixture_scope,
        }) => json!({"kind": "body", "fn": function_name, "fn_line": function_line,
                     "is_fixture": is_fixture, "declared": declared_params,
                     "scope": fixture_scope.map(|s| s.as_str())}),
        Some(CompletionContext::UsefixturesDecorator) => json!({"kind": "usefixtures"}),
        Some(CompletionContext::ParametrizeIndirect) => json!({"kind": "parametrize"}),
    }
}

fn find_def(db: &FixtureDatabase, op: &Value) -> Option<FixtureDefinition> {
    db.get_definition_at_line(Path::new(s(op, "path")), u(op, "line1") as usize, s(op, "name"))
}

/// Emulates `evict_cache_if_needed` for a chosen victim set through the `pub` maps (exactly the
/// five removals of src/fixtures/mod.rs:336-343).
fn evict(db: &FixtureDatabase, paths: &[PathBuf]) {
    for p in paths {
        db.file_cache.remove(p);
        db.line_index_cache.remove(p);
        db.ast_cache.remove(p);
        db.available_fixtures_cache.remove(p);
        db.imported_fixtures_cache.remove(p);
    }
}

pub fn exec_op(db: &FixtureDatabase, op: &Value) -> Value {
    let name = s(op, "op");
    match name {
        "analyze" => {
            let p = PathBuf::from(s(op, "path"));
            if b(op, "fresh") {
                db.verif_analyze_file_fresh(p, s(op, "text"));
            } else {
                db.analyze_file(p, s(op, "text"));
            }
            Value::Null
        }
        "close" => {
            db.cleanup_file_cache(Path::new(s(op, "path")));
            Value::Null
        }
        "evict" => {
            let paths: Vec<PathBuf> = op["paths"]
                .as_array()
                .map(|a| a.iter().filter_map(|x| x.as_str()).map(PathBuf::from).collect())
                .unwrap_or_default();
            evict(db, &paths);
            Value::Null
        }
        "mark_plugin" => {
            db.plugin_fixture_files.insert(PathBuf::from(s(op, "path")), ());
            Value::Null
        }
        "set_root" => {
            *db.workspace_root.lock().unwrap() = Some(PathBuf::from(s(op, "path")));
            Value::Null
        }
        "goto" => opt_def(
            db.find_fixture_definition(Path::new(s(op, "path")), u(op, "line") as u32, u(op, "col") as u32),
            b(op, "full"),
        ),
        "goto_or_def" => opt_def(
            db.find_fixture_or_definition_at_position(
                Path::new(s(op, "path")),
                u(op, "line") as u32,
                u(op, "col") as u32,
            ),
            b(op, "full"),
        ),
        "name_at" => json!(db.find_fixture_at_position(
            Path::new(s(op, "path")),
            u(op, "line") as u32,
            u(op, "col") as u32
        )),
        "def_at_line" => opt_def(find_def(db, op), b(op, "full")),
        "refs" => match find_def(db, op) {
            None => json!({"nodef": true}),
            Some(d) => {
                let r = db.find_references_for_definition(&d);
                Value::Array(r.iter().map(usage_json).collect())
            }
        },
        // references exactly as src/providers/references.rs composes them for a cursor position
        "refs_at" => {
            let path = Path::new(s(op, "path"));
            let (line, col) = (u(op, "line") as u32, u(op, "col") as u32);
            let Some(fname) = db.find_fixture_at_position(path, line, col) else {
                return Value::Null;
            };
            let target = match db.find_fixture_definition(path, line, col) {
                Some(d) => Some(d),
                None => db.get_definition_at_line(path, (line + 1) as usize, &fname),
            };
            match target {
                None => {
                    let r = db.find_fixture_references(&fname);
                    json!({"name": fname, "target": null,
                           "refs": sorted_vals(r.iter().map(usage_json).collect())})
                }
                Some(d) => {
                    let r = db.find_references_for_definition(&d);
                    json!({"name": fname, "target": short_def(&d),
                           "refs": r.iter().map(usage_json).collect::<Vec<_>>()})
                }
            }
        }
        "refs_by_name" => {
            let r = db.find_fixture_references(s(op, "name"));
            Value::Array(sorted_vals(r.iter().map(usage_json).collect()))
        }
        "available" => {
            let v = db.get_available_fixtures(Path::new(s(op, "path")));
            let full = b(op, "full");
            Value::Array(v.iter().map(|d| if full { full_def(d) } else { short_def(d) }).collect())
        }
        "resolve_for_file" => opt_def(
            db.resolve_fixture_for_file(Path::new(s(op, "path")), s(op, "name")),
            b(op, "full"),
        ),
        "imported" => {
            let mut vis = HashSet::new();
            let mut v: Vec<String> = db
                .get_imported_fixtures(Path::new(s(op, "path")), &mut vis)
                .into_iter()
                .collect();
            v.sort();
            json!(v)
        }
        "is_imported" => json!(db.is_fixture_imported_in_file(s(op, "name"), Path::new(s(op, "path")))),
        "cycles" => {
            let c = db.detect_fixture_cycles();
            Value::Array(
                c.iter()
                    .map(|c| json!({"path": c.cycle_path, "fixture": short_def(&c.fixture)}))
                    .collect(),
            )
        }
        "cycles_in_file" => {
            let c = db.detect_fixture_cycles_in_file(Path::new(s(op, "path")));
            Value::Array(
                c.iter()
                    .map(|c| json!({"path": c.cycle_path, "fixture": short_def(&c.fixture)}))
                    .collect(),
            )
        }
        "scope_mismatch" => {
            let m = db.detect_scope_mismatches_in_file(Path::new(s(op, "path")));
            Value::Array(sorted_vals(
                m.iter()
                    .map(|m| {
                        json!({"fixture": short_def(&m.fixture), "dependency": short_def(&m.dependency),
                               "fscope": m.fixture.scope.as_str(), "dscope": m.dependency.scope.as_str()})
                    })
                    .collect(),
            ))
        }
        "undeclared" => {
            let v = db.get_undeclared_fixtures(Path::new(s(op, "path")));
            Value::Array(
                v.iter()
                    .map(|x| {
                        json!({"name": x.name, "line": x.line, "sc": x.start_char, "ec": x.end_char,
                               "fn": x.function_name, "fn_line": x.function_line})
                    })
                    .collect(),
            )
        }
        "completion_ctx" => completion_ctx_json(db.get_completion_context(
            Path::new(s(op, "path")),
            u(op, "line") as u32,
            u(op, "col") as u32,
        )),
        "param_insert" => {
            match db.get_function_param_insertion_info(Path::new(s(op, "path")), u(op, "line1") as usize) {
                None => Value::Null,
                Some(i) => json!({"line": i.line, "char": i.char_pos, "comma": i.needs_comma}),
            }
        }
        "containing_fn" => json!(db.find_containing_function(Path::new(s(op, "path")), u(op, "line1") as usize)),
        "unused" => {
            let v = db.get_unused_fixtures();
            Value::Array(
                v.iter()
                    .map(|(p, n)| json!({"file": p.to_string_lossy(), "name": n}))
                    .collect(),
            )
        }
        "scan" => {
            let pats: Vec<glob::Pattern> = op
                .get("excludes")
                .and_then(|v| v.as_array())
                .map(|a| {
                    a.iter()
                        .filter_map(|x| x.as_str())
                        .filter_map(|x| glob::Pattern::new(x).ok())
                        .collect()
                })
                .unwrap_or_default();
            db.scan_workspace_with_excludes(Path::new(s(op, "root")), &pats);
            Value::Null
        }
        "word_at" => json!(db.extract_word_at_position(s(op, "text"), u(op, "col") as usize)),
        "snapshot" => snapshot_opt(db, b(op, "full"), b(op, "raw")),
        "version" => json!(db.definitions_version.load(std::sync::atomic::Ordering::SeqCst)),
        other => json!({"tool_error": format!("unknown op {other}")}),
    }
}

fn panic_msg(e: Box<dyn std::any::Any + Send>) -> String {
    if let Some(s) = e.downcast_ref::<&str>() {
        s.to_string()
    } else if let Some(s) = e.downcast_ref::<String>() {
        s.clone()
    } else {
        "<non-string panic>".to_string()
    }
}

pub fn run_case(case: &Value) -> Value {
    let mut dbs: Vec<FixtureDatabase> = vec![FixtureDatabase::new()];
    let mut cur = 0usize;
    let mut res: Vec<Value> = Vec::new();
    let empty = vec![];
    let ops = case.get("ops").and_then(|o| o.as_array()).unwrap_or(&empty);
    for op in ops {
        let opname = op.get("op").and_then(|v| v.as_str()).unwrap_or("");
        // database switching is handled here, never inside catch_unwind
        if opname == "newdb" {
            dbs.push(FixtureDatabase::new());
            cur = dbs.len() - 1;
            res.push(json!(cur));
            continue;
        }
        if opname == "usedb" {
            cur = u(op, "db") as usize;
            res.push(Value::Null);
            continue;
        }
        let db = &dbs[cur];
        let r = catch_unwind(AssertUnwindSafe(|| exec_op(db, op)));
        match r {
            Ok(v) => res.push(v),
            Err(e) => {
                let msg = panic_msg(e);
                let loc = LAST_PANIC_LOC.with(|c| c.borrow().clone());
                if msg.starts_with("TOOL:") {
                    res.push(json!({"tool_error": msg}));
                } else {
                    res.push(json!({"panic": msg, "at": loc}));
                }
            }
        }
    }
    let mut m = Map::new();
    if let Some(id) = case.get("id") {
        m.insert("id".into(), id.clone());
    }
    m.insert("res".into(), Value::Array(res));
    Value::Object(m)
}
