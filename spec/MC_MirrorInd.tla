---------------------------- MODULE MC_MirrorInd ----------------------------
\* instance for Apalache: uninterpreted sorts FILE / NAME with 4 files and 3 names
EXTENDS MirrorInd

\* @type: Bool;
ConstInit == Files = { "f1_OF_FILE", "f2_OF_FILE", "f3_OF_FILE", "f4_OF_FILE" } /\ Names = { "a_OF_NAME", "b_OF_NAME", "c_OF_NAME" }
=============================================================================
