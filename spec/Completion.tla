------------------------------ MODULE Completion ------------------------------
(***************************************************************************)
(* C18: where completion offers fixtures and which ones.                   *)
(*  Context(role): fixture names are offered iff the cursor line is inside *)
(*  the signature or body of a test or fixture function, or inside a       *)
(*  usefixtures / indirect-parametrize argument list.                      *)
(*  Offered(kind, scope, declared): fixtures visible from the file, minus  *)
(*  declared parameters, minus the fixture being edited, minus -- inside a *)
(*  fixture -- fixtures of narrower scope; each once; sorted same file <   *)
(*  conftest < plugin < third-party.                                       *)
(***************************************************************************)
EXTENDS Naturals, Sequences, FiniteSets, TLC, Json

\* the fixtures visible from the edited file: name -> [scope, origin]
Fix == [ c_fun |-> [scope |-> 0, origin |-> 1], c_cls |-> [scope |-> 1, origin |-> 1], c_mod |-> [scope |-> 2, origin |-> 1],
         c_pkg |-> [scope |-> 3, origin |-> 1], c_ses |-> [scope |-> 4, origin |-> 1],
         local_fx |-> [scope |-> 0, origin |-> 0], local_ses |-> [scope |-> 4, origin |-> 0],
         \* wp_fx: workspace plugin (editable install inside the workspace); tp_fx is provided by the workspace plugin AND by
         \* the installed third-party plugin: the workspace plugin's definition is the visible one, offered once
         wp_fx |-> [scope |-> 0, origin |-> 2], tp_fx |-> [scope |-> 0, origin |-> 2], tp_ses |-> [scope |-> 4, origin |-> 3] ]
Names == DOMAIN Fix

Roles == {"module_level", "fixture_decorator", "usefixtures_decorator", "parametrize_decorator", "pytestmark_line",
          "def_line", "sig_continuation", "sig_end", "body_stmt", "body_blank", "class_header", "method_def", "method_body",
          "nested_class_method_body", "after_body_module_level",
          "inc_open_paren", "inc_after_comma", "inc_no_colon", "inc_no_body", "inc_usefixtures_open"}
Kinds == {"test", "fixture", "helper"}         \* what kind of function the cursor line belongs to (where it belongs to one)

\* which context a role denotes
Ctx(role, kind) ==
    CASE role \in {"usefixtures_decorator", "pytestmark_line", "inc_usefixtures_open"} -> "strings"
      [] role = "parametrize_decorator" -> "strings"
      [] role \in {"module_level", "fixture_decorator", "class_header", "after_body_module_level"} -> "none"
      [] kind = "helper" -> "none"
      [] role \in {"def_line", "sig_continuation", "sig_end", "method_def", "inc_open_paren", "inc_after_comma",
                   "inc_no_colon", "inc_no_body"} -> "signature"
      [] role \in {"body_stmt", "body_blank", "method_body", "nested_class_method_body"} -> "body"

Offered(ctx, kind, sc, declared, self) ==
    IF ctx = "none" THEN {}
    ELSE IF ctx = "strings" THEN Names
    ELSE { n \in Names : /\ n \notin declared
                         /\ (kind = "fixture" => n # self)
                         /\ (kind = "fixture" => Fix[n].scope >= sc) }

\* how the already declared parameters are spelled: plain, positional-only (`a, /`), keyword-only (`*, a`), annotated, defaulted
PStyles == {"plain", "posonly", "kwonly", "annotated", "default"}
\* which document is being edited: a test module, or the workspace PLUGIN module itself (its own fixtures are then
\* same-file fixtures and rank first, although they carry the plugin flag)
Hosts == {"test", "plugin"}
VARIABLES role, kind, fscope, declared, stacked, pstyle, host
vars == <<role, kind, fscope, declared, stacked, pstyle, host>>
Init == /\ role \in Roles /\ kind \in Kinds /\ fscope \in 0..4
        /\ declared \in {{}, {"c_fun"}, {"c_mod", "local_fx"}}
        /\ (kind # "fixture" => fscope = 0)
        \* `stacked`: another decorator sits between @pytest.fixture(scope=..) and the def line
        /\ stacked \in BOOLEAN
        /\ (stacked => kind = "fixture" /\ role \in {"inc_open_paren", "inc_after_comma", "inc_no_colon", "inc_no_body", "def_line", "body_stmt"})
        /\ (role \in {"inc_open_paren", "inc_usefixtures_open"} => declared = {})      \* nothing typed after the paren yet
        /\ (role \in {"module_level", "fixture_decorator", "class_header", "after_body_module_level", "pytestmark_line"}
              => (kind = "test" /\ declared = {}))
        /\ host \in Hosts
        /\ (host = "plugin" => declared = {} /\ ~stacked /\ role \in {"def_line", "body_stmt"} /\ kind # "helper")
        /\ pstyle \in PStyles
        /\ (pstyle # "plain" => declared # {} /\ ~stacked /\ role \in {"def_line", "body_stmt", "body_blank", "sig_end", "method_body"} /\ kind # "helper")
Next == UNCHANGED vars
Spec == Init /\ [][Next]_vars

Self == "local_ses"      \* when a fixture is edited it is this one, re-scoped to `scope`
Expect == LET c == Ctx(role, kind) IN
          [ctx |-> c, offered |-> Offered(c, kind, fscope, declared, Self),
           order |-> [n \in Names |-> IF host = "plugin" /\ n \in {"wp_fx", "tp_fx"} THEN 0 ELSE Fix[n].origin]]

\* the offered set never contains a declared parameter, the edited fixture or (inside a fixture) a narrower scope
OfferedSound ==
    LET o == Expect.offered IN
    Expect.ctx \in {"signature", "body"} =>
        /\ o \cap declared = {}
        /\ (kind = "fixture" => Self \notin o /\ \A n \in o : Fix[n].scope >= fscope)
NoneOutside == Expect.ctx = "none" => Expect.offered = {}
EmitCase == PrintT("CASE " \o ToJson([role |-> role, kind |-> kind, scope |-> fscope, declared |-> declared, stacked |-> stacked,
                                     pstyle |-> pstyle, host |-> host, expect |-> Expect]))
=============================================================================
