CONSTANTS
  MaxLen = 3
  Part = "slots"
SPECIFICATION Spec
CHECK_DEADLOCK FALSE
INVARIANTS
  TypeOK
  EmitCase
