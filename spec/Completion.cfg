SPECIFICATION Spec
CHECK_DEADLOCK FALSE
INVARIANTS
  OfferedSound
  NoneOutside
  EmitCase
