------------------------------ MODULE Undeclared ------------------------------
(***************************************************************************)
(* C17: undeclared-fixture warnings and their quick fix.                   *)
(*  - a use of name N inside a test/fixture body is flagged iff N is a     *)
(*    fixture visible from the file, N is not a parameter, not a local     *)
(*    bound on an earlier line, not a module-level / imported name, and    *)
(*    the use is a plain one (call target, argument, attribute base,       *)
(*    operand, subscript, collection element) in an ordinary statement;    *)
(*  - applying the offered edit yields valid Python in which N is a        *)
(*    parameter of THAT function, every other function is unchanged, and   *)
(*    the warning is gone after re-analysis.                               *)
(* Groups: "use" (expression form x statement context), "bind" (binding    *)
(* form x visibility x order), "fix" (function shape x quick fix).         *)
(***************************************************************************)
EXTENDS Naturals, Sequences, FiniteSets, TLC, Json

CONSTANTS Group

Uses == {"call_target", "arg", "attr", "binop", "unary", "compare", "boolop", "subscript", "index", "list", "tuple",
         "dict_value", "set", "kwarg", "fstring", "ifexp", "starred", "await"}
\* forms the statement names (plain uses); the others are enumerated but NOT judged when unflagged
PlainUses == {"call_target", "arg", "attr", "binop", "unary", "compare", "boolop", "subscript", "index", "list", "tuple",
              "dict_value", "set"}
Ctxs == {"expr", "assign", "augassign", "return", "if_test", "while_test", "for_iter", "with_ctx", "assert",
         "in_if_body", "in_for_body", "in_with_body", "in_try_body", "in_else_body", "in_while_body"}
Binds == {"none", "assign_before", "assign_after", "assign_same_line", "tuple_before", "for_target", "with_as",
          "annassign_before", "augassign_before", "walrus_before", "except_as", "import_in_fn", "nested_def", "global_decl",
          \* structural pattern matching: the name is CAPTURED by the pattern of the `case` line above the use
          "match_capture", "match_as", "match_star",
          \* the name is a PARAMETER of the enclosing function, in every syntactic kind a parameter can take
          \* the function merely carries @pytest.mark.usefixtures("fx"): the fixture is activated, the NAME is not bound
          "usefixtures_mark",
          "param", "param_default", "param_annotated", "param_posonly", "param_kwonly", "param_kwonly_default", "param_vararg", "param_kwarg"}
\* same_file_late: the fixture is defined in the test's own file BELOW an earlier function whose body already uses
\* (undeclared) another visible fixture -- whatever the analysis memoises at that first use must not hide the later definition
Vis == {"same_file_late", "conftest", "same_file", "parent_conftest", "sibling_conftest", "sibling_prefix_conftest", "imported_by_conftest", "third_party", "not_a_fixture",
        "module_level_name", "imported_name", "module_function"}
Shapes == {"no_params", "one_param", "many_params", "default_param", "annotated_param", "return_annot", "return_annot_params",
           "multiline", "multiline_trailing_comma", "trailing_comma", "method", "async_fn", "decorated", "star_args", "kwargs",
           "kwonly", "comment_after_colon", "comment_with_parens", "fixture_fn", "followed_by_other_fn",
           \* the use stands in a HELPER nested in the test: whether it is flagged is left open, but an offered fix must make the
           \* fixture a parameter of the TEST and leave the helper alone
           "nested_helper",
           \* ONE code-action request carrying several warnings: two methods of the same name in different classes,
           \* two different functions, two uses in one function -- every offered fix edits the function of ITS warning
           "multi_same_named_methods", "multi_two_functions", "multi_two_uses"}

Base == [use |-> "arg", ctx |-> "expr", bind |-> "none", vis |-> "conftest", shape |-> "one_param"]
Cases ==
    CASE Group = "use"  -> { [Base EXCEPT !.use = u, !.ctx = c] : u \in Uses, c \in Ctxs }
      [] Group = "bind" -> { [Base EXCEPT !.bind = b, !.vis = v, !.use = u] : b \in Binds, v \in Vis, u \in {"arg", "attr"} }
      [] Group = "fix"  -> { [Base EXCEPT !.shape = s, !.use = u] : s \in Shapes, u \in {"arg", "call_target"} }

VARIABLE cs
Init == cs \in Cases
Next == UNCHANGED cs
Spec == Init /\ [][Next]_cs

\* is the name a fixture visible from the test file?
Visible(v) == v \in {"conftest", "same_file", "same_file_late", "parent_conftest", "imported_by_conftest", "third_party"}
\* is it hidden by a module-level / imported name of the file (those are never fixtures requests)
ModuleName(v) == v \in {"module_level_name", "imported_name", "module_function"}
\* is the use preceded by a local binding on an EARLIER line
IsParam(b) == b \in {"param", "param_default", "param_annotated", "param_posonly", "param_kwonly", "param_kwonly_default",
                     "param_vararg", "param_kwarg"}
BoundEarlier(b) == b \in {"assign_before", "tuple_before", "for_target", "with_as", "annassign_before", "augassign_before",
                          "walrus_before", "except_as", "import_in_fn", "nested_def",
                          "match_capture", "match_as", "match_star"} \/ IsParam(b)

\* verdicts: "flag" (must be flagged at its exact position), "noflag" (must not be flagged), "open" (statement silent)
Verdict(c) ==
    IF ~Visible(c.vis) \/ ModuleName(c.vis) THEN "noflag"
    ELSE IF BoundEarlier(c.bind) THEN "noflag"
    ELSE IF c.bind = "global_decl" THEN "open"
    ELSE IF c.bind = "assign_same_line" THEN "open"          \* `n = n.copy()`: bound on the SAME line
    ELSE IF c.use \in PlainUses THEN "flag"
    ELSE "open"

\* quick fix: is inserting a plain positional parameter possible by a textual edit that keeps the file valid?
FixExpected(c) == [param_of_same_function |-> TRUE, others_untouched |-> TRUE, parses |-> TRUE, warning_gone |-> TRUE]

EmitCase == PrintT("CASE " \o ToJson([cs |-> cs, verdict |-> Verdict(cs), fix |-> FixExpected(cs)]))
NeverFlagInvisible == (~Visible(cs.vis)) => Verdict(cs) = "noflag"
ParamsLocalsNeverFlagged == BoundEarlier(cs.bind) => Verdict(cs) = "noflag"
=============================================================================
