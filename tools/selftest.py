"""./check selftest -- demonstrates that the specification is BOUND to the implementation (DESIGN.md B3):
a recorded trace with one corrupted field, and the same trace with one event removed, must be rejected
by TLC; an accepted trace must be accepted.  Not a registered property check."""
import json
import os
import random

import common as C
import tracecheck as T


def main():
    C.build_harness()
    rnd = random.Random(12345)
    hs = [T.gen_history(rnd, 12) for _ in range(25)]
    lines = T.build_and_project(hs)
    d = os.path.join(C.BUILD, "tmp")
    os.makedirs(d, exist_ok=True)

    def run(ls, name):
        p = os.path.join(d, "selftest-%s.ndjson" % name)
        with open(p, "w") as fh:
            for l in ls:
                fh.write(json.dumps(l) + "\n")
        r = T.tlc_validate(p)
        os.unlink(p)
        return r

    ok = run(lines, "ok")
    print("unmodified trace accepted:", ok["ok"], "(%d events)" % len(lines))
    # corrupt one logged field: drop a definition from the projected state of one analysis
    i = next(k for k, l in enumerate(lines) if l["ev"] == "analyze" and any(l["post"]["defs"][n] for n in l["post"]["defs"]))
    bad = json.loads(json.dumps(lines))
    nm = next(n for n in bad[i]["post"]["defs"] if bad[i]["post"]["defs"][n])
    bad[i]["post"]["defs"][nm] = bad[i]["post"]["defs"][nm][1:]
    r1 = run(bad, "corrupt")
    # a version counter that does not grow on a successful analysis (stale caches) must be rejected too
    i2 = next(k for k, l in enumerate(lines) if l["ev"] == "analyze" and l["m"]["valid"] and k > 3)
    bad = json.loads(json.dumps(lines))
    prev = max([l["post"]["version"] for l in bad[:i2] if l["ev"] == "analyze"] + [0])
    bad[i2]["post"]["version"] = prev
    r1b = run(bad, "version")
    print("non-growing version rejected:", not r1b["ok"])
    print("corrupted field rejected:", not r1["ok"], "|", (r1["rejected"] or "")[:120])
    # corrupt one query answer
    j = next((k for k, l in enumerate(lines) if l["ev"] == "avail" and any(v["file"] != "NOFILE" for v in l["ans"].values())), None)
    r2 = {"ok": False}
    if j is not None:
        bad = json.loads(json.dumps(lines))
        nm = next(n for n, v in bad[j]["ans"].items() if v["file"] != "NOFILE")
        bad[j]["ans"][nm] = {"file": "NOFILE", "idx": 0}
        r2 = run(bad, "answer")
        print("corrupted answer rejected:", not r2["ok"])
    # drop one event (a successful analysis that defines something)
    k = next(k for k, l in enumerate(lines) if l["ev"] == "analyze" and l["m"]["valid"] and any(it["k"] == "def" for it in l["m"]["items"]))
    r3 = run(lines[:k] + lines[k + 1:], "dropped")
    print("dropped event rejected:", not r3["ok"])
    # ---- the repository's own test-suite, traced through the hook, against SuiteTrace.tla
    import suitetrace as S
    events, summ = S.run_suite("selftest")
    slines, _ = S.project(events, "cpython")

    def srun(ls, name):
        p = os.path.join(d, "selftest-suite-%s.ndjson" % name)
        with open(p, "w") as fh:
            for l in ls:
                fh.write(json.dumps({k: v for k, v in l.items() if k != "text"}) + "\n")
        r = S.tlc_validate(p)
        os.unlink(p)
        return r
    s_ok = srun(slines, "ok")
    print("suite trace accepted:", s_ok["ok"], "(%d events of %d tests)" % (len(slines), summ["tests_passed"]))
    i = next(k for k, l in enumerate(slines) if l["ev"] == "analyze" and l["judged"] and l["parsed"] and l["post"]["uses"])
    bad = json.loads(json.dumps(slines))
    bad[i]["post"]["ubf"] = bad[i]["post"]["ubf"][1:]
    bad[i]["post"]["ubfkeys"] = bad[i]["post"]["ubfkeys"][1:]
    s1 = srun(bad, "mirror")
    print("suite trace with one reverse-index entry removed rejected:", not s1["ok"], "|", s1["invariant"])
    bad = json.loads(json.dumps(slines))
    i = next(k for k, l in enumerate(slines) if l["ev"] == "analyze" and l["judged"] and l["parsed"] and l["post"]["defs"])
    bad[i]["post"]["defs"][0]["scope"] = "session" if bad[i]["post"]["defs"][0]["scope"] != "session" else "module"
    s2 = srun(bad, "scope")
    print("suite trace with one recorded scope changed rejected:", not s2["ok"])
    # an unparsable re-analysis that loses the file's records
    i = next((k for k, l in enumerate(slines) if l["ev"] == "analyze" and not l["parsed"] and l["post"]["defs"]), None)
    s3 = {"ok": False}
    if i is not None:
        bad = json.loads(json.dumps(slines))
        bad[i]["post"]["defs"], bad[i]["post"]["keys"], bad[i]["post"]["fdefs"] = [], [], []
        s3 = srun(bad, "parsefail")
        print("suite trace in which a parse failure clears the records rejected:", not s3["ok"])
    # ---- a session of the real binary against LspTrace.tla
    import tempfile
    import lsp
    import lsptrace as LT
    C.build_server()
    LT.start()
    wd = tempfile.mkdtemp(dir=d)
    srv = lsp.Server()
    srv.meta["cfg"] = {"kind": "absent", "codes": []}
    srv.initialize(wd)
    tp = os.path.join(wd, "test_t.py")
    srv.did_open(os.path.join(wd, "conftest.py"), "import pytest\n\n\n@pytest.fixture\ndef a():\n    return 1\n", tag=["c", 3])
    srv.did_open(tp, "def test_1():\n    a\n", tag=["t", 1])
    srv.did_change(tp, "def test_1(a):\n    pass\n", tag=["t", 2])
    srv.pos_request("textDocument/definition", tp, 0, 11)
    srv.close()
    sess = lsp.SESSIONS[-1]
    LT.start()
    evs = LT.normalise(sess)

    def lrun(es, name):
        p = os.path.join(d, "selftest-lsp-%s.ndjson" % name)
        with open(p, "w") as fh:
            for e in es:
                fh.write(json.dumps(e) + "\n")
        r = LT.tlc_validate(p)
        os.unlink(p)
        return r
    l_ok = lrun(evs, "ok")
    print("LSP session accepted:", l_ok["ok"], "(%d events)" % len(evs))
    k = next(i for i, e in enumerate(evs) if e["ev"] == "pub" and e["codes"])
    bad = json.loads(json.dumps(evs))
    bad[k]["codes"] = []
    l1 = lrun(bad, "codes")
    print("LSP session with one publication's codes emptied rejected:", not l1["ok"])
    k = next(i for i, e in enumerate(evs) if e["ev"] == "resp" and i > 3)
    l2 = lrun(evs[:k] + evs[k + 1:], "noresp")
    print("LSP session with one response removed rejected:", not l2["ok"])
    k = next(i for i, e in enumerate(evs) if e["ev"] == "pub")
    l3 = lrun(evs[:k + 1] + [evs[k]] + evs[k + 1:], "dup")
    print("LSP session with one publication duplicated rejected:", not l3["ok"])
    good = ok["ok"] and not r1["ok"] and not r1b["ok"] and not r2["ok"] and not r3["ok"] \
        and s_ok["ok"] and not s1["ok"] and not s2["ok"] and not s3["ok"] \
        and l_ok["ok"] and not l1["ok"] and not l2["ok"] and not l3["ok"]
    # ---- a scheduled concurrent execution's lock log against ConcTrace.tla
    import concchecks as CC
    sim = CC.simulate("Conc_c09_sim.cfg", 40)
    reps = list(C.tlc_cases(sim, prefix="REPLAY"))[:12]
    ccases = [CC.build_case(i, rep, False, log=True)[0] for i, rep in enumerate(reps)]
    cres = CC.run_conc(ccases)
    runs = [(reps[cid]["sc"], r["log"]) for cid, r in sorted(cres.items()) if isinstance(r, dict) and r.get("log")]

    class _V:            # a verdict stand-in: conc_trace_validate only records notes / drift / violations
        def __init__(self):
            self.notes, self.drift, self.viol = {}, 0, []

        def violation(self, a, b):
            self.viol.append(b)
    v1 = _V()
    CC.conc_trace_validate(v1, runs, "selftest")
    c_ok = v1.drift == 0 and not v1.viol and v1.notes["conc_trace_validation"]["accepted"] == len(runs)
    print("lock logs of %d scheduled executions accepted:" % len(runs), c_ok)
    bad_runs = json.loads(json.dumps(runs))
    k = next(i for i, e in enumerate(bad_runs[0][1]) if e["ph"] == "acq" and e["t"] in (1, 2) and e["map"] == "usages")
    del bad_runs[0][1][k]
    v2 = _V()
    CC.conc_trace_validate(v2, bad_runs, "selftest")
    print("lock log with one acquisition on `usages` removed rejected:", v2.drift >= 1)
    bad_runs = json.loads(json.dumps(runs))
    k = next(i for i, e in enumerate(bad_runs[0][1]) if e["ph"] == "acq" and e["t"] in (1, 2) and e["map"] == "usage_by_fixture" and e["mode"] == "W")
    bad_runs[0][1].insert(k, dict(bad_runs[0][1][k]))
    v3 = _V()
    CC.conc_trace_validate(v3, bad_runs, "selftest")
    print("lock log with one write acquisition on `usage_by_fixture` doubled rejected:", v3.drift >= 1)
    good = good and c_ok and v2.drift >= 1 and v3.drift >= 1
    # ---- Apalache: Mirror / DefKeyed inductive on MirrorInd.tla; the unguarded fresh-path step (negative control) breaks them
    import apalache
    try:
        ap = apalache.mirror_inductive()
        print("MirrorInd.tla: base and inductive step hold, unguarded fresh path refuted:", True,
              "|", {k: v["outcome"] for k, v in ap["runs"].items()})
        tp = apalache.mirror_tlaps()
        print("MirrorIndProofs.tla (TLAPS, arbitrary carrier sets): %d of %d obligations proved" % (tp["discharged"], tp["obligations"]))
    except C.ToolError as e:
        print("MirrorInd.tla:", e)
        good = False
    # ---- vacuity guard: every action of the state-machine configurations is taken, no branch of theirs is never evaluated
    import vacuity
    good = vacuity.main() and good
    print("SELFTEST", "PASS" if good else "FAIL")
    return 0 if good else 2
