"""C16 (and the cycle/scope part of C08): dependency-graph case tables of spec/DepGraphs.tla replayed
on the real library.  Oracle = layer R's per-definition dependency graph (closed chains, SCCs, scope
of the RESOLVED dependency); the transcribed compute_fixture_cycles / scope check of layer I
predicts the implementation's exact outputs (for every HashMap root order) for known-finding
matching and model fidelity."""
import json

import common as C
import render as R

UNI = R.Universe({"c0": "/vws/R/conftest.py", "c1": "/vws/R/sa/conftest.py", "cs": "/vws/R/s/conftest.py",
                  "t": "/vws/R/sa/b/test_t.py",
                  "tp": "/vws/venv/lib/python3.11/site-packages/tp/plugin.py"})
REPEATS = 3


def defid(d):
    return None if d is None or d.get("file") == "NOFILE" else (d["file"], d["idx"])


def _decode(files, d):
    slot = UNI.slot_of_path.get(d["file"])
    if slot is None:
        return ("?", d["file"], d["line"])
    return (slot, files[slot].line_item.get(d["line"], -d["line"]))


def sccs(nodes, edges):
    """strongly connected components containing a cycle (Tarjan-free: tiny graphs)"""
    reach = {n: set() for n in nodes}
    for a, b in edges:
        reach[a].add(b)
    changed = True
    while changed:
        changed = False
        for n in nodes:
            new = set()
            for m in reach[n]:
                new |= reach[m]
            if not new <= reach[n]:
                reach[n] |= new
                changed = True
    comps = []
    seen = set()
    for n in nodes:
        if n in reach[n] and n not in seen:
            comp = {m for m in nodes if m in reach[n] and n in reach[m]}
            comps.append(comp)
            seen |= comp
    return comps


def closed_chain(path, fixture, name_of, edges_set, nodes):
    """is there a closed chain D0..Dk-1 with names path[:-1], D0 == fixture, consecutive edges?"""
    names = path[:-1]
    if not names or path[-1] != path[0]:
        return None

    def rec(i, cur, chain):
        if i == len(names):
            return chain if (cur, chain[0]) in edges_set else None
        for n in nodes:
            if name_of[n] == names[i] and (cur, n) in edges_set:
                r = rec(i + 1, n, chain + [n])
                if r:
                    return r
        return None

    if fixture is None or name_of.get(fixture) != names[0]:
        return None
    return rec(1, fixture, [fixture])


def name_level_explains(case, files, reported):
    first = {}
    for slot in case["order"]:
        for i, it in enumerate(case["ws"][slot]["items"] or []):
            if it["k"] == "def" and it["name"] not in first:
                first[it["name"]] = ((slot, i + 1), [d for d in (it["deps"] or [])])
    nodes = list(first)
    edges = {(a, b) for a in nodes for b in first[a][1] if b in first}
    comps = sccs(nodes, edges)
    chains = []
    for path, fx in reported:
        names = list(path[:-1])
        if not names or path[-1] != path[0] or fx != first.get(names[0], (None,))[0]:
            return False
        if any((names[i], names[(i + 1) % len(names)]) not in edges for i in range(len(names))):
            return False
        chains.append(set(names))
    return all(any(ch <= comp for ch in chains) for comp in comps)


def run(V, universes, semantics=True):
    C.build_harness()
    total_states = total_trans = replayed = 0
    metas = []
    for uni in universes:
        meta = C.run_tlc("DepGraphs", "DepGraphs_%s.cfg" % uni, workers=12, timeout=7200)
        if not meta["ok"]:
            raise C.ToolError("TLC on DepGraphs/%s failed: %s" % (uni, meta["errors"]))
        metas.append(meta)
        total_states += meta["distinct"]
        total_trans += meta["transitions"]
        ctx = {}
        groups = {}

        def gen():
            for n, case in enumerate(C.tlc_cases(meta)):
                files = {s: R.render_checked(UNI, s, m) for s, m in case["ws"].items()}
                setup = [{"op": "analyze", "path": UNI.paths[s], "text": files[s].text} for s in case["order"]]
                ops = list(setup) + [{"op": "cycles"}]
                for s in sorted(files):
                    ops.append({"op": "scope_mismatch", "path": UNI.paths[s]})
                    ops.append({"op": "cycles_in_file", "path": UNI.paths[s]})
                for _ in range(REPEATS):
                    ops.append({"op": "newdb"})
                    ops += setup
                    ops.append({"op": "cycles"})
                # histories with an EARLIER query: the report is asked on the empty index, the files then arrive on the
                # workspace scan's path (no clean-up); and asked after the first file, the rest arriving as edits
                hist_at = []
                ops += [{"op": "newdb"}, {"op": "cycles"}] + [dict(o, fresh=True) for o in setup] + [{"op": "cycles"}]
                hist_at.append(len(ops) - 1)
                ops += [{"op": "newdb"}] + setup[:1] + [{"op": "cycles"}] + setup[1:] + [{"op": "cycles"}]
                hist_at.append(len(ops) - 1)
                ctx[n] = (case, files, len(setup), hist_at)
                yield {"id": n, "ops": ops}

        for res in C.run_harness(gen()):
            case, files, ns, hist_at = ctx.pop(res["id"])
            replayed += 1
            r = res["res"]
            texts = {UNI.paths[s]: files[s].text for s in case["order"]}
            shape_k = json.dumps(case["shape"], sort_keys=True)
            # ---- reference graph
            nodes = []
            name_of = {}
            for s, m in case["ws"].items():
                for i, it in enumerate(m["items"] or []):
                    if it["k"] == "def":
                        nodes.append((s, i + 1))
                        name_of[(s, i + 1)] = it["name"]
            edges = {(defid(e["from"]), defid(e["to"])) for e in case["edges"]}
            on_cycle = {defid(d) for d in case["onCycle"]}
            comps = sccs(nodes, edges)
            # `def n(n)` with NO outward definition: pytest reports a recursive dependency, the statement
            # leaves it open -> a reported self-cycle there is accepted but not required
            edges_allowed = set(edges)
            for s, m in case["ws"].items():
                for i, it in enumerate(m["items"] or []):
                    if it["k"] == "def" and it["name"] in (it["deps"] or []):
                        D = (s, i + 1)
                        if not any(a == D and name_of.get(b) == it["name"] for a, b in edges):
                            edges_allowed.add((D, D))
            assert set().union(*comps) == on_cycle if comps else not on_cycle, "reference SCC computation disagrees with TLC"

            def norm(ans):
                if not isinstance(ans, list):
                    return ("PANIC", json.dumps(ans))
                return frozenset((tuple(c["path"]), _decode(files, c["fixture"])) for c in ans)

            main = norm(r[ns])
            base = ns + 1 + 2 * len(files)
            reps = [norm(r[base + k * (ns + 2) + ns + 1]) for k in range(REPEATS)]
            model_outs = {frozenset((tuple(c["path"]), defid(c["fixture"])) for c in out) for out in case["cyclesImpl"]}
            ex_base = {"shape": case["shape"], "order": case["order"], "files": texts}
            if case["universe"] == "cycles":
                V.count()
                if on_cycle:
                    V.nontriv(("cyc", shape_k, tuple(case["order"])))
                # model fidelity
                in_model = main in model_outs
                if not in_model:
                    V.drift += 1
                # (a) soundness, (b) completeness w.r.t. the per-definition reference graph
                bad = None
                if not semantics:
                    pass
                elif isinstance(main, tuple):
                    bad = "cycle detection panicked"
                else:
                    chains = []
                    for path, fx in main:
                        ch = closed_chain(list(path), fx, name_of, edges_allowed, nodes)
                        if ch is None:
                            bad = "a reported circular dependency %s (on %s) is not a closed dependency chain" % (list(path), fx)
                            break
                        chains.append(set(ch))
                    if bad is None:
                        for comp in comps:
                            if not any(ch <= comp for ch in chains if ch):
                                bad = "a dependency cycle %s is not reported" % sorted(comp)
                                break
                if bad:
                    ex = dict(ex_base, reported=sorted(map(str, main)) if not isinstance(main, tuple) else main,
                              reference_cycles=[sorted(map(str, c)) for c in comps], blame=["cycle_name_level_graph"])
                    # known finding = the report is exactly what a NAME-level graph built from the first registered
                    # definition of every name yields (sound and complete w.r.t. that graph, anchored on first
                    # definitions) -- matched by this semantics, not by the DFS's exact output order
                    if in_model or (not isinstance(main, tuple) and name_level_explains(case, files, main)):
                        V.classify(["cycle_name_level_graph"], ex, bad)
                    else:
                        V.violation(ex, bad + " (not explained by the name-level graph of first definitions)")
                # (d) run-to-run stability inside one process (fresh HashMap seeds)
                key = lambda o: frozenset((frozenset(p[:-1]), fx) for p, fx in o) if not isinstance(o, tuple) else o
                outs = {key(main)} | {key(x) for x in reps}
                if len(outs) > 1:
                    ex = dict(ex_base, outputs=[sorted(map(str, o)) for o in outs])
                    if len({key(o) for o in model_outs}) > 1 and all(x in model_outs for x in [main] + reps):
                        V.classify(["cycle_hash_order_roots"], ex, "which cycle is reported / on which fixture varies between runs")
                    else:
                        V.violation(ex, "cycle reports vary between runs (not predicted by the model)")
                # (e) an earlier query must not be remembered: same files, same report
                for hk, at in zip(("asked on the empty index, files then scanned", "asked after the first file, the rest then edited in"), hist_at):
                    V.count()
                    h = norm(r[at])
                    if key(h) not in outs and not (len({key(o) for o in model_outs}) > 1 and h in model_outs):
                        V.violation(dict(ex_base, history=hk, reported_after_history=sorted(map(str, h)) if not isinstance(h, tuple) else h,
                                         reported_without=sorted(map(str, main)) if not isinstance(main, tuple) else main),
                                    "the cycle report depends on an earlier query (%s): a remembered result is served for a changed index" % hk)
                groups.setdefault(shape_k, []).append((case["order"], key(main), texts, len({key(o) for o in model_outs}) > 1 or True))
            # ---- scope mismatches per file
            j = ns + 1
            for s in sorted(files):
                ans, ans_cf = r[j], r[j + 1]
                j += 2
                if case["universe"] == "cycles" and semantics and not isinstance(main, tuple):
                    # the per-file report (what publishDiagnostics shows for the document) is the workspace report restricted to
                    # the fixtures THIS file defines: never a cycle anchored on a same-named fixture of another file
                    V.count()
                    inf = norm(ans_cf)
                    want_f = frozenset((p, fx) for p, fx in main if fx is not None and fx[0] == s)
                    if inf != want_f:
                        V.violation(dict(ex_base, file=s, reported_for_file=sorted(map(str, inf)) if not isinstance(inf, tuple) else inf,
                                         workspace_report_restricted_to_file=sorted(map(str, want_f))),
                                    "the circular-dependency report of a file is not the workspace's report restricted to the fixtures the file defines")
                if case["universe"] != "scopes" or not semantics:
                    continue
                V.count()
                py = {(defid(x["fix"]), x["dep"]) for x in case["mismPy"][s]}
                impl = {(defid(x["fix"]), x["dep"]) for x in case["mismImpl"][s]}
                real = {(_decode(files, x["fixture"]), x["dependency"]["name"]) for x in ans} if isinstance(ans, list) else ("PANIC", json.dumps(ans))
                if py or impl:
                    V.nontriv(("sc", shape_k, tuple(case["order"]), s))
                if real == py:
                    continue
                ex = dict(ex_base, file=s, reported=sorted(map(str, real)) if isinstance(real, set) else real,
                          expected=sorted(map(str, py)), model_predicts=sorted(map(str, impl)),
                          blame=["scope_check_first_def"])
                if real == impl:
                    V.classify(["scope_check_first_def"], ex, "scope-mismatch warnings differ from 'resolved dependency has a narrower scope'")
                else:
                    V.drift += 1
                    V.violation(ex, "scope-mismatch warnings differ from the reference and from the model")
            if res["id"] % 9000 == 0:
                V.sample({"universe": case["universe"], "shape": case["shape"], "order": case["order"]})
        # registration-order independence of the cycle verdict
        for sk, runs in groups.items():
            outs = {o for _, o, _, _ in runs}
            if len(outs) > 1:
                V.count()
                ex = {"shape": json.loads(sk), "orders": [r0[0] for r0 in runs][:4],
                      "outputs": [sorted(map(str, o)) if not isinstance(o, tuple) else o for o in outs], "files": runs[0][2]}
                V.classify(["cycle_name_level_graph"], ex, "cycle reports depend on the registration order of same-named definitions")
    cov = {"states": total_states, "transitions": total_trans, "traces_validated_against_impl": replayed,
           "tlc": [{"cfg": m["cfg"], "wall_s": m["wall_s"], "cached": m.get("cached", False)} for m in metas],
           "exhaustive": True}
    return cov


def disjoint_cycles(V, tier):
    """Several DISJOINT dependency cycles in one workspace, with fixture names chosen so that naive keys collide: names whose
    concatenations are ambiguous ({a, bc} vs {ab, c}), names that are prefixes / suffixes of each other, names differing in case
    or by an underscore.  'Every dependency cycle in the workspace is reported at least once': each cycle's member set must be
    covered by a reported path, and every reported path must be a closed chain of that cycle."""
    name_sets = [("a", "bc", "ab", "c"), ("app", "configdb", "appconfig", "db"), ("x", "x_", "_x", "x__"),
                 ("db", "DB", "dB", "Db"), ("s", "ss", "sss", "ssss"), ("n1", "n11", "n1_1", "n_11"),
                 ("a_b", "c", "a", "b_c"), ("ab", "cd", "abc", "d"), ("p", "q", "pq", "qp")]
    shapes = [[(0, 1), (2, 3)], [(0, 2), (1, 3)], [(0, 3), (1, 2)], [(0, 1, 2), (3,)], [(0,), (1, 2, 3)]]
    # *_unknown_first: the members of the first cycle also request names that are NOT fixtures of the workspace (a plugin that
    # is not installed, a typo), written BEFORE the parameter that continues the cycle; such names are on no dependency chain
    layouts = ["one_file", "two_files", "one_file_unknown_first", "two_files_unknown_first"]
    cases, ctx = [], {}
    for names in name_sets:
        for shape in shapes:
            if any(len(c) == 1 for c in shape):
                continue            # a self-requesting fixture with no outer definition is not judged (DESIGN A.3)
            for lay0 in layouts:
                lay = lay0.replace("_unknown_first", "")
                deps = {}
                for ci, cyc in enumerate(shape):
                    for k, i in enumerate(cyc):
                        deps[names[i]] = names[cyc[(k + 1) % len(cyc)]]
                        if lay0.endswith("_unknown_first") and ci == 0:
                            deps[names[i]] = ("mocker, " if k == 0 else "not_installed_fx, tmp_missing, ") + deps[names[i]]
                files = {}
                for j, nm in enumerate(names):
                    path = "/vwsd/conftest.py" if lay == "one_file" or j % 2 == 0 else "/vwsd/sub/conftest.py"
                    files.setdefault(path, "import pytest\n")
                    files[path] += "\n\n@pytest.fixture\ndef %s(%s):\n    return 1\n" % (nm, deps[nm])
                if lay == "two_files":
                    # both conftests must see every name: the sub-directory conftest sits below the root one, and the cycles
                    # whose members live in different files run root -> sub only if the root names are visible from sub (they
                    # are) and sub names from root (they are not): keep cycles inside one file each
                    ok = all(len({("root" if names.index(m) % 2 == 0 else "sub") for m in [names[i] for i in cyc]}) == 1 for cyc in shape)
                    if not ok:
                        continue
                ops = [{"op": "analyze", "path": p, "text": t} for p, t in sorted(files.items())] + [{"op": "cycles"}]
                ops += [{"op": "cycles_in_file", "path": p} for p in sorted(files)]
                cid = len(cases)
                ctx[cid] = (names, shape, lay0, files)
                cases.append({"id": cid, "ops": ops})
    for res in C.run_harness(cases):
        names, shape, lay, files = ctx[res["id"]]
        V.count()
        V.nontriv(("disjoint", names, str(shape), lay))
        ans = res["res"][len(files)]
        want = [frozenset(names[i] for i in cyc) for cyc in shape]
        ex = {"fixture_names": names, "cycles": [sorted(w) for w in want], "layout": lay, "files": files, "reported": ans}
        if not isinstance(ans, list):
            V.violation(ex, "cycle detection panicked on disjoint cycles")
            continue
        got = [frozenset(c["path"][:-1]) for c in ans]
        for w in want:
            if not any(g == w for g in got):
                V.violation(ex, "a dependency cycle %s is not reported" % sorted(w))
                break
        else:
            if any(g not in want for g in got):
                V.violation(ex, "a reported circular dependency is not one of the workspace's cycles")
            else:
                # per file: the cycles whose fixtures the file defines, and only those
                for k, p in enumerate(sorted(files)):
                    inf = res["res"][len(files) + 1 + k]
                    gotf = {frozenset(c["path"][:-1]) for c in inf} if isinstance(inf, list) else None
                    wantf = {w for w in want if any(("def %s(" % m) in files[p] for m in w)}
                    if gotf is None or not gotf <= wantf or (wantf and not gotf):
                        V.violation(dict(ex, file=p, reported_for_file=inf), "the circular-dependency report of a file is not about the cycles its fixtures lie on")
                        break
    return len(cases)


def check_c16(tier):
    V = C.Verdict("C16", tier, "model_checking")
    cov = run(V, ["cycles", "scopes"])
    V.notes["disjoint_cycle_cases"] = disjoint_cycles(V, tier)
    return V.finish(
        coverage_extra=cov,
        rule="cycles: fixtures a,b,c in one conftest with every parameter list over {a,b,c} (self loops, 2-/3-cycles, "
             "several SCCs), optional parameterless parents one level up, optional unrelated same-named definitions in a "
             "sibling conftest; scopes: a(b) with each of 5 scopes, b defined at up to 4 places with different scopes; "
             "every registration order of the defining files; each case replayed on the real library (+3 fresh "
             "databases for HashMap-seed variation); non-trivial = reference graph has a cycle / some mismatch expected or predicted",
        assumptions=["`def n(n)` with no outward definition is not judged as a cycle or non-cycle beyond the reference graph (no self edge there)",
                     "the reference graph resolves each parameter with layer R from the depending fixture's file"])
