-------------------------------- MODULE Lsp --------------------------------
(***************************************************************************)
(* The LSP layer (src/main.rs, src/providers/diagnostics.rs, src/config):  *)
(* documents, open/change notifications, the configuration loaded once in  *)
(* initialize, and the diagnostics last published per document.            *)
(*                                                                         *)
(* Property C19: after every open or change of d, lastPublished[d] is      *)
(* exactly Findings(d, latest contents of all documents) minus the codes   *)
(* the effective configuration disables; unknown codes / invalid globs /   *)
(* an unparsable pyproject.toml are dropped individually.                  *)
(*                                                                         *)
(* Documents are abstract versions with known causes (which findings a     *)
(* version produces given the other document's version); the concrete      *)
(* texts live in tools/lspchecks.py and are cross-checked against the      *)
(* library on every run (a disagreement is a tool error, not a verdict).   *)
(***************************************************************************)
EXTENDS Naturals, Sequences, FiniteSets, TLC, Json

CONSTANTS MaxLen, CfgVariants, DeepCfg

Docs == {"c", "t"}                \* c = conftest.py, t = test_t.py next to it
Versions == [d \in Docs |-> IF d = "c" THEN 1..6 ELSE 1..4]
Codes == {"undeclared-fixture", "circular-dependency", "scope-mismatch"}

(* c1: a(); s(a) session-scoped      -> scope-mismatch in c
   c2: a(b); b(a)                     -> circular-dependency in c
   c3: a()                            -> clean
   c4: (no fixtures)                  -> clean, and `a` is no fixture any more
   c5: a(b); b()                      -> clean: the SAME fixture names as c2, only the dependency edge b -> a is gone
   c6: a(); b(); s(a, b) session      -> TWO scope-mismatch findings on ONE fixture (same code, same range, two dependencies)
   t1: test_1() uses a in its body    -> undeclared-fixture in t iff a is a visible fixture
   t2: test_1(a)                      -> clean
   t3: f(a) session-scoped fixture    -> scope-mismatch in t iff a (function-scoped) is visible
   t4: unparsable text                -> the findings of t's last valid version stay        *)
ADefined(ver) == ver["c"] \in {1, 2, 3, 5, 6}

\* the version whose records are in effect for a document (last valid one)
Effective(d, v, lastValid) == IF d = "t" /\ v = 4 THEN lastValid ELSE v

\* `frozenUndecl`: undeclared-fixture findings are computed when t is ANALYSED; while t's current
\* text is unparsable the findings of its last successful analysis are re-published as they were
Findings(d, ver, tValid, frozenUndecl) ==
    IF d = "c"
    THEN (IF ver["c"] \in {1, 6} THEN {"scope-mismatch"} ELSE {})
         \cup (IF ver["c"] = 2 THEN {"circular-dependency"} ELSE {})
    ELSE LET v == Effective("t", ver["t"], tValid) IN
         (IF v = 1 /\ (IF ver["t"] = 4 THEN frozenUndecl ELSE ADefined(ver)) THEN {"undeclared-fixture"} ELSE {})
         \cup (IF v = 3 /\ ADefined(ver) THEN {"scope-mismatch"} ELSE {})

\* how many findings of a code the latest content of d has (every finding is published, none twice)
Multiplicity(d, ver, code) == IF d = "c" /\ ver["c"] = 6 /\ code = "scope-mismatch" THEN 2 ELSE 1

(* Configuration variants: what pyproject.toml contains -> which codes are disabled. *)
(* A variant is [kind, codes]: kind in                                              *)
(*   "absent" | "nosection" | "valid" | "unknown" (an unknown code among codes) |   *)
(*   "badglob" (an invalid exclude pattern next to codes) | "malformed" | "nonutf8" *)
EffectiveDisabled(cfg) ==
    \* "quoted" / "dotted" / "spaced": other legal TOML spellings of the same table
    IF cfg.kind \in {"valid", "unknown", "badglob", "quoted", "dotted", "spaced"} THEN cfg.codes ELSE {}

AllCfg == [kind : {"absent", "nosection", "malformed", "nonutf8"}, codes : {{}}]
          \cup [kind : {"valid", "unknown", "badglob", "quoted", "dotted", "spaced"}, codes : SUBSET Codes]

VARIABLES hist, ver, tValid, cfg, published, undeclAt
vars == <<hist, ver, tValid, cfg, published, undeclAt>>

\* undeclared findings are computed when t is ANALYSED (against the index as it is then) and
\* re-published unchanged until t's next open/change: `undeclAt` remembers ADefined at that time
Init == /\ hist = <<>> /\ ver = [d \in Docs |-> 0] /\ tValid = 0
        /\ cfg \in CfgVariants
        /\ published = [d \in Docs |-> {}] /\ undeclAt = FALSE

Notify(d, v) ==
    /\ Len(hist) < (IF cfg \in DeepCfg THEN MaxLen ELSE MaxLen - 1)
    /\ ~(d = "t" /\ v = 4 /\ ver["t"] = 0)        \* first version of a document parses
    /\ hist' = Append(hist, [d |-> d, v |-> v])
    /\ ver' = [ver EXCEPT ![d] = v]
    /\ tValid' = IF d = "t" /\ v # 4 THEN v ELSE tValid
    /\ undeclAt' = IF d = "t" /\ v # 4 THEN ADefined(ver') ELSE undeclAt
    /\ published' = [published EXCEPT ![d] = Findings(d, ver', tValid', undeclAt') \ EffectiveDisabled(cfg)]
    /\ UNCHANGED cfg
\* didClose(d) changes none of these variables (the index keeps the document's records, nothing is published): it is a
\* STUTTERING step of this specification.  The replayer therefore also runs every history with a didClose inserted after
\* each notification that is followed by a notification for the other document; the next Notify(d, v) is then a didOpen
\* again and must publish exactly what a didChange would.
Close(d) == UNCHANGED vars
Next == \E d \in Docs : (\E v \in Versions[d] : Notify(d, v)) \/ Close(d)
Spec == Init /\ [][Next]_vars

----------------------------------------------------------------------------
Last == hist[Len(hist)]

\* C19: what the client last received for the document just opened/changed is the findings of
\* the latest contents minus the disabled codes (by construction of Notify -- this is the
\* specification the implementation's notifications are validated against)
TracksLatest ==
    hist # <<>> => published[Last.d] = Findings(Last.d, ver, tValid, undeclAt) \ EffectiveDisabled(cfg)

\* removing the cause clears the diagnostic on the next change of the document
RemovingCauseClears ==
    hist # <<>> =>
        /\ (Last.d = "c" /\ Last.v \in {3, 4, 5} => published["c"] = {})
        /\ (Last.d = "t" /\ Last.v = 2 => published["t"] = {})
        /\ (Last.d = "t" /\ ~ADefined(ver) /\ Last.v # 4 => published["t"] = {})

\* a disabled code is never published; an undisabled finding is never suppressed
ConfigExact ==
    \A d \in Docs : published[d] \cap EffectiveDisabled(cfg) = {}

\* partially invalid configuration keeps the valid rest
PartialConfigKeepsRest ==
    cfg.kind \in {"unknown", "badglob"} => EffectiveDisabled(cfg) = cfg.codes

EmitCase ==
    hist # <<>> => PrintT("CASE " \o ToJson([hist |-> hist, cfg |-> cfg,
                                             expect |-> published[Last.d],
                                             disabled |-> EffectiveDisabled(cfg)]))

MCDeep == { [kind |-> "absent", codes |-> {}], [kind |-> "valid", codes |-> {"scope-mismatch"}] }
MCCfgQuick == [kind : {"absent"}, codes : {{}}]
              \cup [kind : {"valid"}, codes : SUBSET Codes]
              \cup [kind : {"unknown", "badglob"}, codes : {{}, {"scope-mismatch"}, {"undeclared-fixture", "circular-dependency"}}]
              \cup [kind : {"quoted", "dotted", "spaced"}, codes : {{"scope-mismatch"}, {"undeclared-fixture", "circular-dependency"}}]
              \cup [kind : {"nosection", "malformed", "nonutf8"}, codes : {{}}]
=============================================================================
