"""Prints the per-property table of DESIGN.md section 10.3 from the evidence files of the last run (quick tier)."""
import json
import os

VERIF = os.path.dirname(os.path.dirname(os.path.abspath(__file__)))
WHAT = {
 "C01": "Layouts table (≤ 3 definers, all orders, 12 conftest kinds, two installed plugins, signature style varied) replayed, every column of every usage token; LSP tier: textDocument/definition on 120 materialised layouts",
 "C02": "override-chain table (3 conftest levels × same file × plugin / third-party, both flags), every column of overriding def lines for goto + references; LSP tier: definition / references of the real binary on override names and self-named parameters",
 "C03": "Extract.tla product (decorators incl. marks on fixtures, parameter kinds, bodies incl. several yields, docstrings) + CPython extraction + real analyzer, three-way; tests/test_project corpus",
 "C04": "refs(D) = {u : goto(u) = D} on layout + chain tables, again after an in-place re-index (cleanup / fresh path); mirror; CLI unused; LSP tier: code lens = incoming calls = usages navigating to D (exact)",
 "C05": "four resolvers asked about the same (file, name) / (fixture, dependency); workspace-root variation; LSP tier: definition / implementation / prepare / hover / outgoing calls / inlay-hint type agree",
 "C06": "every history (L ≤ 3) on long-lived vs fresh twin; B2 traces validated by TLC; LSP tier: 150 histories sent to the real binary (warm / burst / plain) vs a fresh server, all handlers",
 "C07": "three History.tla configurations (main, scan-as-event, conftest chain): every interleaving of edits / cached queries (incl. cycle detection) / close / evict, warm vs cold twin on disk; real pressure eviction; LSP tier; B2 traces",
 "C08": "snapshot under every registration order (layout table) + cycle reports over orders and fresh processes' hash seeds (dep-graph table)",
 "C09": "Conc.tla exhaustive + 1 500 simulated behaviours × {natural, one-shard} + random schedules on real threads",
 "C10": "scan worker ∥ editor on the same file: simulated behaviours + both coarse orders, then every text as one further change; real binary racing the scan (also with the document being a symlink)",
 "C11": "hostile (slot, string) documents × ≈ 500 library calls each; stale-position sessions (handlers warmed first; conftest above goes unparsable); config / metadata sessions",
 "C12": "lock traces of all entry points (natural + one-shard; unparsable round; import graphs in memory and on disk incl. real scan, plugin propagation, never-analysed modules), Locks.tla on the extracted nesting templates, ImportWalk liveness, scheduled notification ∥ requests",
 "C13": "product tree (12 directory names × 11 file names, ≤ 2 levels, plus a pulled-in module) × 8 root locations × 5 exclude sets × 3 fault modes, real scan",
 "C14": "import cases (spellings, packages, cycles, aliases, one package referenced twice) + venv layouts materialised and scanned",
 "C15": "token layouts × LF/CRLF with same-length decoy re-analysis; LSP structural rules incl. no-final-newline documents and go-to-implementation",
 "C16": "dependency graphs × orders (+3 fresh databases each) and scope cases (incl. third-party provider, self-requesting override next to a dependent)",
 "C17": "library cases with exact positions; quick-fix / completion-edit round trips through the binary validated with CPython",
 "C18": "completion requests to the real binary (20 line roles × kinds × scopes × declared sets × stacked decorators; workspace plugin, doubly provided name, sibling asked first)",
 "C19": "sessions of the real binary: histories × 27 configuration variants, three-way with Lsp.tla and a library twin",
 "C20": "library `unused` on the layout table + 500 materialised trees (with case-differing decoys) × CLI (unused text/json, list, two filters, 1/4/16 workers)",
}


def main():
    print("| id | what runs | evaluations | non-trivial | TLC states | wall | known findings met |")
    print("|---|---|---|---|---|---|---|")
    for i in range(1, 21):
        pid = "C%02d" % i
        p = os.path.join(VERIF, "evidence", pid + ".json")
        if not os.path.exists(p):
            continue
        e = json.load(open(p))
        c = e["coverage"]
        kf = ", ".join(sorted(c.get("known_findings", {}))) or "–"
        print("| %s | %s | %s | %s | %s | %.0f s | %s |" % (pid, WHAT[pid], f"{c.get('evaluations', 0):,}".replace(",", " "),
              f"{c.get('distinct_nontrivial', 0):,}".replace(",", " "), f"{c.get('states', 0):,}".replace(",", " "), e["wall_s"], kf))


if __name__ == "__main__":
    main()
