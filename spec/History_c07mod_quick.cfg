CONSTANTS
  Files <- HFiles
  Dirs <- HDirs
  DirOf <- HDirOf
  ParentOf <- HParentOf
  RoleOf <- HRoleOf
  HNames <- HNamesMC
  VersionsOf <- HVersions7
  DiskOf <- HDisk7
  EventKinds <- HKinds7Mod
  MaxLen = 4
  MaxQueries = 3
SPECIFICATION Spec
CHECK_DEADLOCK FALSE
PROPERTIES
  RefinesMirrorInd
INVARIANTS
  AbsInv
  MirrorAlways
  NoDangling
  WarmEqualsColdRepaired
  EmitHist
  EmitTables
