import layouts

CHECKS = {
    "C01": layouts.check_c01,
}
