------------------------------- MODULE Index -------------------------------
(***************************************************************************)
(* LAYER I: what pytest-language-server's FixtureDatabase does, structured *)
(* like the code (src/fixtures/{mod,analyzer,resolver,imports,cli}.rs).    *)
(* The index is one record `ix`; every critical section of the code is a   *)
(* pure function ix -> ix' here, and an action in the state machine at the *)
(* bottom.  Where the code differs from layer R (Workspace.tla) the        *)
(* difference is a NAMED DEVIATION: the branch is taken only when its name *)
(* is in the set `D` of enabled deviations.  `AllDevs` = the code as it    *)
(* is; `{}` = the repaired design, which IndexProps proves equal to        *)
(* layer R on the judged universe.                                         *)
(***************************************************************************)
EXTENDS Workspace

\* deviations that were genuine defects and have been repaired in /repo by a "fix:" commit;
\* their branches stay in the model (a change that re-introduces one is then recognised), but
\* they are no longer part of "the code as it is"
FixedDevs == {
    "conftest_first_def",       \* resolver.rs:218  conftest defining n twice: first, not last      (fixed 79c0252)
    "avail_samefile_first",     \* resolver.rs:500  completion view: first same-file def, not last  (fixed fe369e3)
    "avail_conftest_first",     \* resolver.rs:516  completion view: first conftest def, not last   (fixed fe369e3)
    "rff_samefile_first",       \* resolver.rs:1702 outgoing-calls resolver: first same-file def    (fixed d5a9bd4)
    "avail_requires_cache",     \* resolver.rs:529  completion view consulted imports only if conftest is in file_cache (fixed a7d180e)
    "scope_check_first_def",    \* resolver.rs:1673 scope check compared with definitions[dep].first() (fixed 18e3410)
    "cycle_hash_order_roots",   \* resolver.rs:1533 DFS roots iterated a randomly seeded HashMap (fixed f0d21d2)
    "version_only_on_add",      \* mod.rs:155 / analyzer.rs:273 version bumped only when a def is recorded (fixed e7e7c04)
    "close_keeps_version",      \* mod.rs:283 cleanup_file_cache (did_close) left definitions_version alone although readers now see the disk text (fixed, see KNOWN_FINDINGS)
    "unused_autouse_per_def"    \* cli.rs:466 autouse read from every definition of a (file, name) entry, not from its last one (fixed, see KNOWN_FINDINGS)
}

AllDevs == {
    "imp_first_registered",     \* resolver.rs:241  imported name -> first registered def anywhere
    "explicit_any_fixture_name",\* imports.rs:522   `from m import n` counts if ANY fixture is called n
    "avail_imported_first",     \* resolver.rs:537  completion view: imported name -> defs[n].first()
    "rff_ignores_imports",      \* resolver.rs:1706 outgoing-calls resolver never consults conftest imports
    "rff_fallback_any",         \* resolver.rs:1750 outgoing-calls resolver falls back to any definition
    "rff_no_self_exclusion",    \* call_hierarchy.rs:189 `def n(n)`: outgoing call of n resolves to n itself
    "cycle_name_level_graph",   \* resolver.rs:1515 cycle graph is built per NAME from definitions[name].first()
    "test_module_imports_ignored", \* resolver.rs:194-204 imports made by the using (test) module are never consulted
    "alias_import_lost",        \* imports.rs:178,522 `from m import a as b`: b is looked up as a fixture NAME, the alias is lost
    "memo_truncated",           \* imports.rs:421-458 visited-truncated import set is memoised
    "reexport_from_current_text",\* imports.rs:429-481 re-exports recomputed from current (maybe invalid) text
    "tier_first_registered"     \* resolver.rs:263-292, 574-600, 1781-1790 several plugins / installed plugins providing one name: first REGISTERED wins
}

NoMod == [present |-> FALSE, valid |-> FALSE, items |-> <<>>]   \* "no entry" in file_cache / on disk

DefRec(f, i, it, plug) ==
    [file |-> f, idx |-> i, name |-> it.name, deps |-> it.deps, scope |-> it.scope,
     autouse |-> it.autouse, plugin |-> plug, third |-> (RoleOf[f] = "third")]
NoRec == [file |-> NoFile, idx |-> 0, name |-> "-", deps |-> <<>>, scope |-> 0,
          autouse |-> FALSE, plugin |-> FALSE, third |-> FALSE]
IdOf(r) == IF r.file = NoFile THEN NoDef ELSE DefId(r.file, r.idx)

UseRec(f, i, uk, ui, n) == [file |-> f, idx |-> i, uk |-> uk, ui |-> ui, name |-> n]

EmptyIndex(names, disk) ==
    [ defs    |-> [n \in names |-> <<>>],        \* definitions: name -> Vec<Def> (registration order)
      fdefs   |-> [f \in Files |-> {}],          \* file_definitions
      usages  |-> [f \in Files |-> <<>>],        \* usages: file -> Vec<Usage>
      undecl  |-> [f \in Files |-> <<>>],        \* undeclared_fixtures: file -> findings computed AT ANALYSIS TIME
      ubf     |-> [n \in names |-> <<>>],        \* usage_by_fixture
      cached  |-> [f \in Files |-> NoMod],       \* file_cache (text last handed to analysis)
      lastOk  |-> [f \in Files |-> NoMod],       \* ghost: text of the last SUCCESSFUL analysis (repaired branches only)
      disk    |-> disk,                          \* what std::fs would read (constant in a behaviour)
      plugins |-> {},                            \* plugin_fixture_files
      version |-> 0,                             \* definitions_version
      availC  |-> [f \in Files |-> [ver |-> 0 - 1, val |-> <<>>]],  \* available_fixtures_cache (ver -1 = none)
      impC    |-> [f \in Files |-> [ver |-> 0 - 1, mod |-> NoMod, val |-> {}]], \* imported_fixtures_cache
      cycC    |-> [ver |-> 0 - 1, val |-> {}] ]  \* cycle_cache

IndexNames(ix) == DOMAIN ix.defs

SelectFile(seq, f) == SelectSeq(seq, LAMBDA r : r.file # f)

(***************************************************************************)
(* analyze_file_internal (analyzer.rs:30-106)                              *)
(***************************************************************************)
ItemUsages(f, i, it) ==
    \* order of record_fixture_usage calls in visit_stmt for one statement
    CASE it.k = "def"  -> [j \in 1..Len(it.deps) |-> UseRec(f, i, "p", j, it.deps[j])]
      [] it.k = "test" -> [j \in 1..Len(it.cmarks) |-> UseRec(f, i, "c", j, it.cmarks[j])]
                          \o [j \in 1..Len(it.marks) |-> UseRec(f, i, "m", j, it.marks[j])]
                          \o [j \in 1..Len(it.ind) |-> UseRec(f, i, "i", j, it.ind[j])]
                          \o [j \in 1..Len(it.deps) |-> UseRec(f, i, "p", j, it.deps[j])]
      [] it.k = "testb" -> [j \in 1..Len(it.deps) |-> UseRec(f, i, "p", j, it.deps[j])]
      [] it.k = "pmark" -> [j \in 1..Len(it.marks) |-> UseRec(f, i, "pm", j, it.marks[j])]
      [] OTHER -> <<>>

(* undeclared-fixture scan (undeclared.rs:28-60, 300-345, 408-435): while the module is walked, every name a test *)
(* body uses that is neither a declared parameter nor a module-level name of the file is looked up in the index AS *)
(* IT IS AT THAT MOMENT: a definition in the same file, in a conftest.py of an ancestor directory, third-party or  *)
(* plugin makes it a finding.  (Imports of conftest files are not consulted: KF-C17-ignores-conftest-imports.)     *)
\* analyzer.rs collect_module_level_names: imports, classes, assignments and functions that are NOT fixtures
ModuleLevelNames(its) ==
    { its[i].name : i \in { j \in 1..Len(its) : its[j].k \in {"helper", "test", "testb", "imp", "impas"} } }
ImplIsAvailable(ix, f, b) ==
    /\ b \in DOMAIN ix.defs
    /\ \E j \in 1..Len(ix.defs[b]) :
          LET d == ix.defs[b][j] IN
          \/ d.file = f
          \/ (RoleOf[d.file] = "conftest" /\ DirOf[d.file] \in { Chain(DirOf[f])[k] : k \in 1..Len(Chain(DirOf[f])) })
          \/ d.third \/ d.plugin
UndeclOf(ix, f, its, i) ==
    LET it == its[i]
        flagged == { j \in 1..Len(it.ind) :
                       /\ \A k \in 1..Len(it.deps) : it.deps[k] # it.ind[j]
                       /\ it.ind[j] \notin ModuleLevelNames(its)
                       /\ ImplIsAvailable(ix, f, it.ind[j]) }
    IN  IF it.k # "testb" THEN <<>>
        ELSE SelectSeq([j \in 1..Len(it.ind) |-> [idx |-> i, j |-> j, name |-> it.ind[j]]], LAMBDA r : r.j \in flagged)

RECURSIVE AppendUsages(_, _)
AppendUsages(ubf, us) ==
    IF us = <<>> THEN ubf
    ELSE AppendUsages([ubf EXCEPT ![Head(us).name] = Append(@, Head(us))], Tail(us))

RECURSIVE WalkItems(_, _, _, _)
WalkItems(ix, f, its, i) ==
    IF i > Len(its) THEN ix
    ELSE LET it == its[i]
             us == ItemUsages(f, i, it)
             ix1 == IF it.k = "def"
                    THEN [ix EXCEPT !.defs[it.name] = Append(@, DefRec(f, i, it, f \in ix.plugins)),
                                    !.fdefs[f] = @ \cup {it.name},
                                    !.version = @ + 1]
                    ELSE ix
             ix2 == [ix1 EXCEPT !.usages[f] = @ \o us, !.ubf = AppendUsages(@, us),
                                !.undecl[f] = @ \o UndeclOf(ix1, f, its, i)]
         IN  WalkItems(ix2, f, its, i + 1)

AnalyzeFnD(ix, D, f, m, cleanup) ==
    LET ix0 == [ix EXCEPT !.cached[f] = m]
    IN  IF ~m.valid THEN ix0                                  \* parse failure: keep everything else
        ELSE LET ix1 == [ix0 EXCEPT !.lastOk[f] = m, !.usages[f] = <<>>, !.undecl[f] = <<>>,
                                    !.ubf = [n \in DOMAIN @ |-> SelectFile(@[n], f)]]
                 ix2 == IF cleanup
                        THEN [ix1 EXCEPT !.defs = [n \in DOMAIN @ |->
                                                     IF n \in ix1.fdefs[f] THEN SelectFile(@[n], f) ELSE @[n]],
                                         !.fdefs[f] = {}]
                        ELSE ix1
                 \* analyzer.rs: since e7e7c04 the version is bumped on every successful analysis
                 ix3 == IF "version_only_on_add" \in D THEN ix2 ELSE [ix2 EXCEPT !.version = @ + 1]
             IN  WalkItems(ix3, f, m.items, 1)
AnalyzeFn(ix, f, m, cleanup) == AnalyzeFnD(ix, AllDevs, f, m, cleanup)

(* cleanup_file_cache (mod.rs:281) and the per-victim body of evict_cache_if_needed (mod.rs:336) *)
DropCaches(ix, f) ==
    [ix EXCEPT !.cached[f] = NoMod,
               !.availC[f] = [ver |-> 0 - 1, val |-> <<>>],
               !.impC[f] = [ver |-> 0 - 1, mod |-> NoMod, val |-> {}]]
\* did_close -> cleanup_file_cache (mod.rs:283): the document's cached text is dropped, so every reader falls back to the file ON
\* DISK -- which differs from the buffer when the edits were never saved.  Deviation close_keeps_version: the version stamp that
\* validates OTHER files' memoised answers (available fixtures, imported fixtures, cycles) does not move.
\* (the ghost lastOk is reset as well: once the buffer is discarded, the file's latest valid content is what is on disk)
CloseFn(ix, D, f) ==
    LET d == [DropCaches(ix, f) EXCEPT !.lastOk[f] = NoMod]
    IN  IF "close_keeps_version" \in D THEN d ELSE [d EXCEPT !.version = @ + 1]
RECURSIVE DropAll(_, _)
DropAll(ix, S) == IF S = {} THEN ix ELSE LET f == CHOOSE x \in S : TRUE IN DropAll(DropCaches(ix, f), S \ {f})

(***************************************************************************)
(* scan_workspace (scanner.rs:78-240): phase 1 hands every conftest / test *)
(* file found on disk to analyze_file_fresh (no definitions cleanup);      *)
(* scan_imported_fixture_modules (scanner.rs:241-430) then follows the     *)
(* imports and pytest_plugins of the analysed files to a fixpoint and      *)
(* analyses every imported module that is NOT in file_cache yet.           *)
(***************************************************************************)
RECURSIVE SetToSeqIx(_)
SetToSeqIx(S) == IF S = {} THEN <<>> ELSE LET x == CHOOSE y \in S : TRUE IN <<x>> \o SetToSeqIx(S \ {x})
RECURSIVE AnalyzeDiskSeq(_, _, _)
AnalyzeDiskSeq(ix, D, o) ==
    IF o = <<>> THEN ix ELSE AnalyzeDiskSeq(AnalyzeFnD(ix, D, Head(o), ix.disk[Head(o)], FALSE), D, Tail(o))
ModTargets(m) ==
    IF m = NoMod \/ ~m.valid THEN {}
    ELSE { m.items[i].mod : i \in { j \in 1..Len(m.items) : m.items[j].k \in {"star", "imp", "impas", "plugins"} } } \cap Files
RECURSIVE ScanImports(_, _, _, _)
ScanImports(ix, D, todo, done) ==
    IF todo = {} THEN ix
    ELSE LET f == CHOOSE x \in todo : TRUE
             c == IF ix.cached[f] # NoMod THEN ix.cached[f] ELSE ix.disk[f]
             new == { g \in ModTargets(c) : g \notin done /\ g # f /\ ix.cached[g] = NoMod /\ ix.disk[g] # NoMod }
         IN  ScanImports(AnalyzeDiskSeq(ix, D, SetToSeqIx(new)), D, (todo \ {f}) \cup new, done \cup {f})
ScanFn(ix, D) ==
    LET p1 == { f \in Files : ix.disk[f] # NoMod /\ RoleOf[f] \in {"conftest", "test"} }
        ix1 == AnalyzeDiskSeq(ix, D, SetToSeqIx(p1))
    IN  ScanImports(ix1, D, { f \in Files : ix1.cached[f] # NoMod /\ RoleOf[f] \in {"conftest", "test"} }, {})

(* detect_fixture_cycles as far as caching is concerned: the NAMES that lie on a cycle of the name-level   *)
(* dependency graph (first registered definition of every name; the step-by-step DFS with its reported    *)
(* paths is DepGraphs.tla).  The value is cached in cycle_cache under the definitions version.            *)
NameEdges(ix) ==
    [n \in IndexNames(ix) |->
        IF ix.defs[n] = <<>> THEN {}
        ELSE { ix.defs[n][1].deps[j] : j \in 1..Len(ix.defs[n][1].deps) } \cap { m \in IndexNames(ix) : ix.defs[m] # <<>> }]
RECURSIVE ReachNames(_, _, _)
ReachNames(E, frontier, seen) ==
    IF frontier = {} THEN seen
    ELSE LET nxt == UNION { E[n] : n \in frontier } IN ReachNames(E, nxt \ seen, seen \cup nxt)
ImplCycleNames(ix) == LET E == NameEdges(ix) IN { n \in IndexNames(ix) : n \in ReachNames(E, {n}, {}) }

(* get_file_content: cache, else disk *)
ContentOf(ix, f) == IF ix.cached[f] # NoMod THEN ix.cached[f] ELSE ix.disk[f]
Known(ix, f) == f # NoFile /\ (ix.cached[f] # NoMod \/ ix.disk[f] # NoMod)

(* "the latest syntactically valid content" of f: the current text if it parses, else the text of the last successful    *)
(* analysis, else -- a document whose FIRST version in this server is unparsable -- what is on disk if that parses          *)
LastValidOr(ix, f, c) ==
    IF c.valid THEN c
    ELSE IF ix.lastOk[f] # NoMod THEN ix.lastOk[f]
    ELSE IF ix.disk[f] # NoMod /\ ix.disk[f].valid THEN ix.disk[f] ELSE c

(* the workspace as the index currently sees it (for the repaired branches) *)
SeenWs(ix) == [f \in Files |-> LET c == ContentOf(ix, f) IN
                                IF c = NoMod THEN Absent
                                ELSE LastValidOr(ix, f, c)]
\* the text whose imports get_imported_fixtures reads: the code re-parses the CURRENT text, which
\* yields nothing while it is unparsable (deviation); the repaired design keeps the last valid one
EffContent(ix, D, f) ==
    LET c == ContentOf(ix, f) IN
    IF "reexport_from_current_text" \in D \/ c = NoMod THEN c
    ELSE LastValidOr(ix, f, c)

(***************************************************************************)
(* get_imported_fixtures (imports.rs:414-560).  `visited` is ONE mutable   *)
(* set shared by the whole recursion, and every call memoises its result   *)
(* under (content, version) -- also a result cut short by `visited`        *)
(* (deviation memo_truncated).  Returns [set, visited, memo, cut].         *)
(***************************************************************************)
NoMemo == [g \in Files |-> [ver |-> 0 - 1, mod |-> NoMod, val |-> {}]]

RECURSIVE ImpRec(_, _, _, _, _), ImpItems(_, _, _, _, _, _, _)
ImpRec(ix, D, memo, visited, f) ==
    IF f \in visited THEN [set |-> {}, visited |-> visited, memo |-> memo, cut |-> TRUE]
    ELSE LET vis1 == visited \cup {f}
             content == EffContent(ix, D, f)
         IN  IF content = NoMod THEN [set |-> {}, visited |-> vis1, memo |-> memo, cut |-> FALSE]
             ELSE IF memo[f].ver = ix.version /\ memo[f].mod = content
                  THEN [set |-> memo[f].val, visited |-> vis1, memo |-> memo, cut |-> FALSE]
             ELSE LET r == IF ~content.valid
                           THEN [set |-> {}, visited |-> vis1, memo |-> memo, cut |-> FALSE]
                           ELSE ImpItems(ix, D, memo, vis1, f, content.items, 1)
                      store == "memo_truncated" \in D \/ ~r.cut
                  IN  [set |-> r.set, visited |-> r.visited, cut |-> r.cut,
                       memo |-> IF store
                                THEN [r.memo EXCEPT ![f] = [ver |-> ix.version, mod |-> content, val |-> r.set]]
                                ELSE r.memo]
ImpItems(ix, D, memo, visited, f, its, i) ==
    \* star / explicit imports in statement order, then the last pytest_plugins assignment
    IF i > Len(its) + 1 THEN [set |-> {}, visited |-> visited, memo |-> memo, cut |-> FALSE]
    ELSE LET isPlug == (i = Len(its) + 1)
             lastPl == LET S == { j \in 1..Len(its) : its[j].k = "plugins" } IN IF S = {} THEN 0 ELSE Max(S)
             it == IF isPlug THEN (IF lastPl = 0 THEN Helper("-") ELSE its[lastPl]) ELSE its[i]
             follow == (isPlug /\ lastPl # 0) \/ (~isPlug /\ it.k = "star")
             here ==
                IF follow /\ Known(ix, it.mod)
                THEN LET sub == ImpRec(ix, D, memo, visited, it.mod)
                     IN  [set |-> ix.fdefs[it.mod] \cup sub.set, visited |-> sub.visited,
                          memo |-> sub.memo, cut |-> sub.cut]
                ELSE IF ~isPlug /\ it.k \in {"imp", "impas"} /\ Known(ix, it.mod)
                THEN [set |-> IF "explicit_any_fixture_name" \in D
                              THEN (IF it.name \in DOMAIN ix.defs /\ ix.defs[it.name] # <<>> THEN {it.name} ELSE {})
                              ELSE (IF PyProvides(SeenWs(ix), it.mod, IF it.k = "impas" THEN it.marks[1] ELSE it.name, {f}) # NoDef
                                    THEN {it.name} ELSE {}),
                      visited |-> visited, memo |-> memo, cut |-> FALSE]
                ELSE [set |-> {}, visited |-> visited, memo |-> memo, cut |-> FALSE]
             rest == ImpItems(ix, D, here.memo, here.visited, f, its, i + 1)
         IN  [set |-> here.set \cup rest.set, visited |-> rest.visited, memo |-> rest.memo,
              cut |-> here.cut \/ rest.cut]

ImplImportedM(ix, D, memo, f) == ImpRec(ix, D, memo, {}, f)       \* a top-level call: fresh visited
ImplImportedCold(ix, D, f) == ImpRec(ix, D, NoMemo, {}, f).set

(***************************************************************************)
(* find_closest_definition_with_filter (resolver.rs:177-293).  Returns     *)
(* [rec, memo]: a DefRec (NoRec if none) and the import memo after the     *)
(* call.  `excl` is a DefId or NoDef.                                      *)
(***************************************************************************)
Pass(r, excl) == ~(r.file = excl.file /\ r.idx = excl.idx)
FirstWhere(seq, P(_)) ==
    LET S == { j \in 1..Len(seq) : P(seq[j]) } IN IF S = {} THEN NoRec ELSE seq[Min(S)]
LastByLine(seq, P(_)) ==
    LET S == { j \in 1..Len(seq) : P(seq[j]) }
    IN  IF S = {} THEN NoRec
        ELSE seq[CHOOSE j \in S : \A k \in S : seq[k].idx < seq[j].idx \/ (seq[k].idx = seq[j].idx /\ k <= j)]
\* Several workspace plugins (or several installed plugins) providing one name: the code takes the first REGISTERED one
\* (deviation tier_first_registered: the answer then depends on the scan order); the repaired design takes a
\* registration-independent one (any fixed choice among the candidates; the statement names no winner)
TierPick(D, seq, P(_)) ==
    IF "tier_first_registered" \in D THEN FirstWhere(seq, P)
    ELSE LET S == { seq[j] : j \in { k \in 1..Len(seq) : P(seq[k]) } }
         IN  IF S = {} THEN NoRec ELSE CHOOSE r \in S : TRUE

\* what the (repaired) import branch should return: the definition the import chain provides
ProvidedRec(ix, c, n, excl) ==
    LET d == PyViaImports(SeenWs(ix), c, n, {})
    IN  IF d = NoDef THEN NoRec
        ELSE FirstWhere(ix.defs[DefItem(SeenWs(ix), d).name], LAMBDA r : r.file = d.file /\ r.idx = d.idx /\ Pass(r, excl))

RECURSIVE WalkChain(_, _, _, _, _, _, _)
WalkChain(ix, D, memo, chain, j, n, excl) ==
    IF j > Len(chain) THEN [rec |-> NoRec, memo |-> memo]
    ELSE LET c == ConftestAt(chain[j])
             defs == ix.defs[n]
             direct == IF c = NoFile THEN NoRec
                       ELSE IF "conftest_first_def" \in D
                       THEN FirstWhere(defs, LAMBDA r : r.file = c /\ Pass(r, excl))
                       ELSE LastByLine(defs, LAMBDA r : r.file = c /\ Pass(r, excl))
         IN  IF c = NoFile THEN WalkChain(ix, D, memo, chain, j + 1, n, excl)
             ELSE IF direct # NoRec THEN [rec |-> direct, memo |-> memo]
             ELSE IF ~Known(ix, c) THEN WalkChain(ix, D, memo, chain, j + 1, n, excl)
             ELSE LET r == ImplImportedM(ix, D, memo, c)
                      pick == IF n \notin r.set THEN NoRec
                              ELSE IF "imp_first_registered" \in D
                              THEN FirstWhere(defs, LAMBDA x : Pass(x, excl))
                              ELSE ProvidedRec(ix, c, n, excl)
                  IN  IF pick # NoRec THEN [rec |-> pick, memo |-> r.memo]
                      ELSE WalkChain(ix, D, r.memo, chain, j + 1, n, excl)

ImplClosestM(ix, D, memo, f, n, excl) ==
    LET defs == ix.defs[n]
        own  == LastByLine(defs, LAMBDA r : r.file = f /\ Pass(r, excl))
        \* repaired design: the using module's own imports are part of its namespace
        same == IF own # NoRec \/ "test_module_imports_ignored" \in D \/ RoleOf[f] = "conftest" THEN own
                ELSE ProvidedRec(ix, f, n, excl)
        walk == WalkChain(ix, D, memo, Chain(DirOf[f]), 1, n, excl)
        plug  == TierPick(D, defs, LAMBDA r : r.plugin /\ ~r.third /\ Pass(r, excl))
        third == TierPick(D, defs, LAMBDA r : r.third /\ Pass(r, excl))
    IN  \* `self.definitions.get(fixture_name)?` : no fixture of that NAME anywhere -> None at once
        IF defs = <<>> /\ "alias_import_lost" \in D THEN [rec |-> NoRec, memo |-> memo]
        ELSE IF same # NoRec THEN [rec |-> same, memo |-> memo]
        ELSE IF walk.rec # NoRec THEN walk
        ELSE [rec |-> IF plug # NoRec THEN plug ELSE third, memo |-> walk.memo]

ImplClosest(ix, D, f, n, excl) == ImplClosestM(ix, D, NoMemo, f, n, excl).rec

(* get_fixture_definition_at_line restricted to "is this usage a parameter  *)
(* of a same-named fixture on its own def line" (resolver.rs:40, 409)      *)
DefAtItem(ix, f, i) ==
    LET S == { n \in IndexNames(ix) : \E j \in 1..Len(ix.defs[n]) : ix.defs[n][j].file = f /\ ix.defs[n][j].idx = i }
    IN  IF S = {} THEN NoRec
        ELSE LET n == CHOOSE x \in S : TRUE IN FirstWhere(ix.defs[n], LAMBDA r : r.file = f /\ r.idx = i)

(* find_fixture_definition at a position inside the token of usage u *)
ImplExcl(ix, u) ==
    LET cur == DefAtItem(ix, u.file, u.idx)
    IN  IF cur # NoRec /\ cur.name = u.name THEN IdOf(cur) ELSE NoDef
ImplGotoM(ix, D, memo, u) == ImplClosestM(ix, D, memo, u.file, u.name, ImplExcl(ix, u))
ImplGoto(ix, D, u) == ImplGotoM(ix, D, NoMemo, u).rec
\* find_fixture_definition starts with `get_file_content(file_path)?`: no cached text and nothing on
\* disk (a closed in-memory document) -> no answer
ImplGotoAtM(ix, D, memo, u) ==
    IF ContentOf(ix, u.file) = NoMod THEN [rec |-> NoRec, memo |-> memo] ELSE ImplGotoM(ix, D, memo, u)

IndexUsages(ix) == UNION { { ix.usages[f][j] : j \in 1..Len(ix.usages[f]) } : f \in Files }

(* find_references_for_definition (resolver.rs:391-450): candidates from the reverse index *)
ImplRefsSeq(ix, D, r) ==
    SelectSeq(ix.ubf[r.name], LAMBDA u : ImplGoto(ix, D, u) = r)
ImplRefs(ix, D, r) == { ImplRefsSeq(ix, D, r)[j] : j \in 1..Len(ImplRefsSeq(ix, D, r)) }

(***************************************************************************)
(* compute_available_fixtures (resolver.rs:495-580): name -> DefRec, and   *)
(* the import memo after the call (it asks every ancestor conftest).       *)
(***************************************************************************)
RECURSIVE ChainImports(_, _, _, _, _)
ChainImports(ix, D, memo, chain, j) ==     \* <<sets per chain position>>, memo
    IF j > Len(chain) THEN [sets |-> <<>>, memo |-> memo]
    ELSE LET c == ConftestAt(chain[j])
             consult == c # NoFile /\ (IF "avail_requires_cache" \in D THEN ix.cached[c] # NoMod ELSE Known(ix, c))
             r == IF consult THEN ImplImportedM(ix, D, memo, c)
                  ELSE [set |-> {}, visited |-> {}, memo |-> memo, cut |-> FALSE]
             rest == ChainImports(ix, D, r.memo, chain, j + 1)
         IN  [sets |-> <<r.set>> \o rest.sets, memo |-> rest.memo]

ImplAvailableM(ix, D, memo, f) ==
    LET chain == Chain(DirOf[f])
        ci == ChainImports(ix, D, memo, chain, 1)
        one(n) ==
            LET defs == ix.defs[n]
                same == IF "avail_samefile_first" \in D
                        THEN FirstWhere(defs, LAMBDA r : r.file = f)
                        ELSE LastByLine(defs, LAMBDA r : r.file = f)
                direct(c) == IF "avail_conftest_first" \in D
                             THEN FirstWhere(defs, LAMBDA r : r.file = c)
                             ELSE LastByLine(defs, LAMBDA r : r.file = c)
                viaImp(j, c) == IF n \in ci.sets[j] /\ defs # <<>>
                                THEN IF "avail_imported_first" \in D THEN defs[1] ELSE ProvidedRec(ix, c, n, NoDef)
                                ELSE NoRec
                lvl(j) == LET c == ConftestAt(chain[j]) IN
                          IF c = NoFile THEN NoRec
                          ELSE IF direct(c) # NoRec THEN direct(c) ELSE viaImp(j, c)
                hits == { j \in 1..Len(chain) : lvl(j) # NoRec }
                plug  == TierPick(D, defs, LAMBDA r : r.plugin /\ ~r.third)
                third == TierPick(D, defs, LAMBDA r : r.third)
            IN  IF same # NoRec THEN same
                ELSE IF hits # {} THEN lvl(Min(hits))
                ELSE IF plug # NoRec THEN plug
                ELSE third
    IN  [val |-> [n \in IndexNames(ix) |-> one(n)], memo |-> ci.memo]
ImplAvailable(ix, D, f) == ImplAvailableM(ix, D, NoMemo, f).val

(***************************************************************************)
(* resolve_fixture_for_file (resolver.rs:1694-1751) -- outgoing calls      *)
(***************************************************************************)
ImplResolveForFileX(ix, D, f, n, exclIn) ==
    \* exclIn: the requesting definition when it asks for its own name (NoDef otherwise); the code
    \* passes no exclusion at all (deviation rff_no_self_exclusion)
    LET defs == ix.defs[n]
        excl == IF "rff_no_self_exclusion" \in D THEN NoDef ELSE exclIn
        same == IF "rff_samefile_first" \in D
                THEN FirstWhere(defs, LAMBDA r : r.file = f /\ Pass(r, excl))
                ELSE LastByLine(defs, LAMBDA r : r.file = f /\ Pass(r, excl))
        chain == Chain(DirOf[f])
        \* deepest ancestor conftest that defines n itself
        direct(c) == IF "rff_samefile_first" \in D
                     THEN FirstWhere(defs, LAMBDA r : r.file = c /\ ~r.third /\ Pass(r, excl))
                     ELSE LastByLine(defs, LAMBDA r : r.file = c /\ ~r.third /\ Pass(r, excl))
        viaImp(c) == IF "rff_ignores_imports" \in D THEN NoRec
                     ELSE IF Known(ix, c) /\ n \in ImplImportedCold(ix, D, c) THEN ProvidedRec(ix, c, n, excl)
                     ELSE NoRec
        lvl(j) == LET c == ConftestAt(chain[j]) IN
                  IF c = NoFile THEN NoRec
                  ELSE IF direct(c) # NoRec THEN direct(c) ELSE viaImp(c)
        hits == { j \in 1..Len(chain) : lvl(j) # NoRec }
        plug  == TierPick(D, defs, LAMBDA r : r.plugin /\ ~r.third /\ Pass(r, excl))
        third == TierPick(D, defs, LAMBDA r : r.third /\ Pass(r, excl))
    IN  IF defs = <<>> THEN NoRec
        ELSE IF same # NoRec THEN same
        ELSE IF hits # {} THEN lvl(Min(hits))
        ELSE IF plug # NoRec THEN plug
        ELSE IF third # NoRec THEN third
        ELSE IF "rff_fallback_any" \in D THEN defs[1] ELSE NoRec
ImplResolveForFile(ix, D, f, n) == ImplResolveForFileX(ix, D, f, n, NoDef)

(***************************************************************************)
(* compute_definition_usage_counts (cli.rs:10-81): counts keyed by         *)
(* (defining file, name); get_unused_fixtures (cli.rs:470)                 *)
(***************************************************************************)
ImplCliCount(ix, D, f, n) ==
    Cardinality({ u \in IndexUsages(ix) : u.name = n /\ ImplGoto(ix, D, u).file = f })
\* NB: IndexUsages is a set, so identical duplicate usage records (C10) collapse; CountSeq below is exact
ImplCliCountSeq(ix, D, f, n) ==
    LET all == [g \in Files |-> SelectSeq(ix.usages[g], LAMBDA u : u.name = n /\ ImplGoto(ix, D, u).file = f)]
        RECURSIVE Sum(_)
        Sum(S) == IF S = {} THEN 0 ELSE LET g == CHOOSE x \in S : TRUE IN Len(all[g]) + Sum(S \ {g})
    IN  Sum(Files)
\* cli.rs get_unused_fixtures: autouse fixtures are skipped.  Deviation unused_autouse_per_def: the flag was read from EVERY
\* definition of a (file, name) entry, so an entry whose last (effective) definition is autouse was still listed when an
\* earlier, shadowed definition of the same name in the same file was not.
AllRecsOf(ix) == UNION { { ix.defs[n][j] : j \in 1..Len(ix.defs[n]) } : n \in IndexNames(ix) }
LastOfEntry(ix, x) ==
    LET S == { y \in AllRecsOf(ix) : y.file = x.file /\ y.name = x.name }
    IN  CHOOSE y \in S : \A z \in S : z.idx <= y.idx
ImplUnused(ix, D) ==
    { [file |-> r.file, name |-> r.name] :
        r \in { x \in AllRecsOf(ix) :
                /\ ~x.third
                /\ (IF "unused_autouse_per_def" \in D THEN ~x.autouse ELSE ~LastOfEntry(ix, x).autouse)
                /\ ImplCliCountSeq(ix, D, x.file, x.name) = 0 } }

(***************************************************************************)
(* Building an index from a workspace in a given analysis order            *)
(***************************************************************************)
RECURSIVE BuildFrom(_, _, _, _)
BuildFrom(ix, ws, order, cleanup) ==
    IF order = <<>> THEN ix
    ELSE BuildFrom(AnalyzeFn(ix, Head(order), ws[Head(order)], cleanup), ws, Tail(order), cleanup)

Build(ws, names, order, plugins, disk) ==
    BuildFrom([EmptyIndex(names, disk) EXCEPT !.plugins = plugins], ws, order, TRUE)

=============================================================================
