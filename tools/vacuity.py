"""Vacuity guard (DESIGN 2.2): TLC -coverage 1 on the state-machine configurations; every action must have been taken and
no sub-expression of the module itself may have count 0 (an action / branch never taken means the invariants were never
exercised there).  Used by ./check selftest; results are cached like every TLC run."""
import gzip
import os
import re
import subprocess

import common as C

CONFIGS = [("Conc", "Conc_c10.cfg"), ("ImportWalk", "ImportWalk.cfg"), ("Lsp", "Lsp_quick.cfg")]
# stuttering by design: didClose changes no variable of Lsp.tla (0 distinct successor states, but the action is evaluated)
ALLOW_NO_NEW_STATES = {("Lsp", "Close")}


def run(module, cfg, timeout=1800):
    metadir = os.path.join(C.BUILD, "tmp", "cov-%s-%d" % (module, os.getpid()))
    p = subprocess.run(["timeout", str(timeout), "tlc", "-workers", "8", "-coverage", "1", "-metadir", metadir, "-cleanup",
                        "-noGenerateSpecTE", "-config", cfg, module + ".tla"], cwd=C.SPEC, env=C.scrubbed_env(),
                       stdout=subprocess.PIPE, stderr=subprocess.STDOUT, text=True)
    subprocess.run(["rm", "-rf", metadir])
    actions, zero = {}, []
    for line in p.stdout.splitlines():
        if line.startswith('"'):
            continue
        m = re.match(r"<(\w+) line \d+, col \d+ to line \d+, col \d+ of module (\w+)[^>]*>: (\d+):(\d+)", line)
        if m and m.group(2) == module:
            actions[m.group(1)] = (int(m.group(3)), int(m.group(4)))
            continue
        m = re.match(r"\s*\|*line (\d+), col (\d+) to line \d+, col \d+ of module (\w+): (\d+)(:\d+)?$", line)
        if m and m.group(3) == module and int(m.group(4)) == 0:
            zero.append("line %s col %s" % (m.group(1), m.group(2)))
    ok = "Model checking completed. No error has been found" in p.stdout
    return {"module": module, "cfg": cfg, "ok": ok, "actions": actions, "never_evaluated": zero}


def main():
    good = True
    for module, cfg in CONFIGS:
        r = run(module, cfg)
        never = [a for a, (d, t) in r["actions"].items() if t == 0 or (d == 0 and (module, a) not in ALLOW_NO_NEW_STATES)]
        print("coverage %-10s %-18s actions %s%s%s" % (module, cfg, {a: "%d:%d" % v for a, v in r["actions"].items()},
                                                    " NEVER TAKEN: %s" % never if never else "",
                                                    " NEVER EVALUATED: %s" % r["never_evaluated"][:8] if r["never_evaluated"] else ""))
        good = good and r["ok"] and not never and not r["never_evaluated"] and bool(r["actions"])
    return good


if __name__ == "__main__":
    import sys
    sys.exit(0 if main() else 2)
