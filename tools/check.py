"""./check <ID|setup|selftest> [--tier quick|thorough] [--replay file]"""
import os
import sys
import traceback

sys.path.insert(0, os.path.dirname(os.path.abspath(__file__)))
import common as C  # noqa: E402


def main():
    args = sys.argv[1:]
    if not args:
        print(__doc__)
        return 2
    what = args[0]
    tier = os.environ.get("VERIF_TIER", "quick")
    replay = None
    i = 1
    while i < len(args):
        if args[i] == "--tier":
            tier = args[i + 1]
            i += 2
        elif args[i] == "--replay":
            replay = args[i + 1]
            i += 2
        else:
            i += 1
    if tier not in ("quick", "thorough"):
        tier = "quick"
    try:
        if what == "setup":
            import setup
            return setup.main()
        if what == "selftest":
            import selftest
            return selftest.main()
        import registry
        fn = registry.CHECKS.get(what)
        if fn is None:
            print("unknown check %s" % what, file=sys.stderr)
            return 2
        if replay:
            os.environ["VERIF_REPLAY"] = replay
        return fn(tier)
    except C.CodeCrashed as e:
        # a crash / hang of the code under test on an identified case is a verdict
        import hashlib
        import json
        d = os.path.join(C.REPLAYS, what)
        os.makedirs(d, exist_ok=True)
        h = hashlib.sha256(json.dumps(e.case, sort_keys=True, default=str).encode()).hexdigest()[:16]
        path = os.path.join(d, "crash-" + h + ".json")
        json.dump({"property": what, "what": e.reason, "case": e.case,
                   "rerun": "%s run <file holding the case on one line>" % C.HARNESS_BIN}, open(path, "w"), indent=1, default=str)
        print("VIOLATION property=%s replay=%s" % (what, path))
        print("   %s" % e.reason, file=sys.stderr)
        C.write_crash_evidence(what, tier, e, path)
        return 1
    except C.ToolError as e:
        print("TOOL-ERROR: %s" % e, file=sys.stderr)
        return 2
    except Exception:
        traceback.print_exc()
        print("TOOL-ERROR: unexpected exception", file=sys.stderr)
        return 2


if __name__ == "__main__":
    sys.exit(main())
