"""MANIFEST.setup_cmd: build everything from files on disk, parse every specification module, warm the TLC table caches."""
import glob
import os
import subprocess

import common as C


def sany_all():
    """every module of /verif/spec must parse (SANY) -- a broken module is a tool error at setup time"""
    for f in sorted(glob.glob(os.path.join(C.SPEC, "*.tla"))):
        if os.path.basename(f).startswith("MC_Locks_gen"):
            continue
        p = subprocess.run(["tla-sany", os.path.basename(f)], cwd=C.SPEC, stdout=subprocess.PIPE, stderr=subprocess.STDOUT, text=True,
                           env=C.scrubbed_env())
        if "Multiple declarations" in p.stdout or "*** Errors" in p.stdout or "Fatal errors" in p.stdout or p.returncode != 0:
            raise C.ToolError("SANY rejects %s:\n%s" % (f, p.stdout[-1500:]))


def main():
    sany_all()
    C.build_harness()
    C.build_server()
    import suitetrace
    suitetrace.run_suite("setup")          # builds the repository's tests with the trace hook on (warm target directory)
    import registry
    for fn in getattr(registry, "WARM", []):
        fn()
    return 0
