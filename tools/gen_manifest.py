"""Regenerates /verif/MANIFEST.json from the table below (kept valid at all times)."""
import json
import os
import subprocess

VERIF = os.path.dirname(os.path.dirname(os.path.abspath(__file__)))

MC = "model_checking"
TB = ["TLC 1.8 (tla2tools)", "CPython ast (renderer cross-check)", "layer R operators in spec/Workspace.tla as a reading of the property statement"]

CLAIMED = {
 "C01": dict(level=MC, ref="DESIGN.md section 4 C01",
   text="TLC enumerates every (layout, registration order) of the Layouts table, checks the promised resolution (layer R) against the repaired implementation model on all of them, and every case is replayed on the real library at every column of every usage token; the real answer must equal layer R or match a listed known finding exactly as the implementation model predicts it. The same two layers are evaluated by TLC on seeded random workspaces (RandomLayouts.tla) and replayed the same way.",
   note="Bounded to the layout universe of spec/Layouts.tla (3 conftest levels x 11 conftest kinds, same-file kinds, 5 extra definers, 6 usage kinds, <=3 (quick) / <=4 (thorough) definers, all orders). Layer R is not cross-validated against pytest (not installed). Random workspaces: 1 200 x 2 orders (quick), 20 000 x 3 (thorough), inside the judged universe of DESIGN Appendix A.3.",
   technique="TLA+ case table (TLC) + spec-to-implementation replay with layer-R oracle"),
 "C02": dict(level=MC, ref="DESIGN.md section 4 C02",
   text="TLC enumerates override chains over three conftest levels, same file, plugin and third-party (Layouts_chain.cfg); each is replayed on the real library, every column of every overriding def line is probed for go-to-definition and references, every test at depth 0..2 must bind to the innermost override.",
   note="Chains of length <= 5 over the fixed directory skeleton; two registration orders per chain.",
   technique="TLA+ case table (TLC) + replay, per-column probes of def lines"),
 "C03": dict(level=MC, ref="DESIGN.md section 4 C03",
   text="Extract.tla states the documented extraction rules over an abstract function record and TLC enumerates the feature product group by group (decorator spelling/form/placement, parameter kinds, body x return annotation, docstring layouts); every record is rendered, re-extracted by an independent CPython-based implementation of the rules (must equal the specification, else tool error) and analysed by the real library; definitions are compared field by field (name, line span, docstring, return type, dependencies, scope, yield line, autouse) and usages as bags; the repository's tests/test_project corpus is compared CPython-vs-analyzer as well; and every text the repository's own 710 tests hand to the analyzer (suite run with the cfg-guarded trace hook) is projected by CPython and the recorded index slices are validated by TLC against SuiteTrace.tla.",
   note="~1500 function records + 22 corpus files; presence inside conditional blocks (documented limitation) and `request` parameters are not judged.",
   technique="TLA+ rule operators + feature-product table (TLC) + three-way comparison with CPython extraction and the real analyzer + TLC trace validation of the repository's own test-suite (SuiteTrace.tla)"),
 "C04": dict(level=MC, ref="DESIGN.md section 4 C04",
   text="TLC checks Mirror and RefsInverse on the implementation model for every (layout, order); on the real library references(D) is compared with {u : goto(u) = D} for every definition, duplicates and unresolved usages are checked, the reverse index is compared with the per-file usages, CLI-unused equals 'no incoming usage'. Thorough tier: Mirror / DefKeyed are INDUCTIVE invariants of the index's set abstraction MirrorInd.tla (Apalache for fixed carrier sets, TLAPS for arbitrary ones), which History.tla refines (action property RefinesMirrorInd checked by TLC on every transition).",
   note="Internal-consistency oracle (no reference model needed); LSP-level counts are compared in the binary tier when built.",
   technique="TLA+ invariants (Mirror, RefsInverse; inductive by Apalache / TLAPS on the set abstraction, refinement checked by TLC) + replay with inverse-relation oracle"),
 "C05": dict(level=MC, ref="DESIGN.md section 4 C05",
   text="For every (layout, order) the four resolvers of the library are asked about the same (file, name) / (fixture, dependency) and must denote the definition layer R selects; TLC checks RepairedViewsAgree on the model; disagreements must match listed findings exactly as predicted.",
   note="Library-level resolvers; the LSP handlers are thin projections of them.",
   technique="TLA+ case table (TLC) + replay with cross-resolver agreement oracle"),
 "C06": dict(level=MC, ref="DESIGN.md section 4 C06",
   text="TLC visits every history of full-text versions (incl. unparsable, moved, renamed, removed, re-sent) up to the bound and checks HistoryIndependent / MirrorAlways / NoDangling on the model and RepairedHistoryIndependent on the repaired design; every history is executed on a long-lived real database and on a fresh twin built from the latest valid contents and all answers plus projected maps are compared; seeded random histories and every analysis of the repository's own test-suite (trace hook) are validated by TLC against HistoryTrace.tla / SuiteTrace.tla.",
   note="3 files x 5-6 versions, histories of length <= 3 (quick) / 4 (thorough); positional queries inside a currently unparsable document are not compared.",
   technique="TLA+ state machine over histories (TLC exhaustive) + replay on long-lived vs fresh twin + TLC trace validation (random histories; the repository's own test-suite through the trace hook)"),
 "C07": dict(level=MC, ref="DESIGN.md section 4 C07",
   text="TLC visits every interleaving of edits, cached queries, closes, evictions and (chain universe) didOpen of unmodified documents up to the bound, proves WarmEqualsColdRepaired on the repaired design; each history ending in a query runs on a real long-lived database and on a cold twin that received only the edits (files on disk); a fourth configuration closes MODIFIED documents (the cold twin performs the same close, only earlier queries are dropped) and the main universe contains an unparsable version of the importing conftest. 192 further histories (go-to-definition, available fixtures, imported names) close a conftest WITHOUT saving after an edit of its import lines only and are judged against a twin that never opened the document.",
   note="3 files on disk, 4 versions each incl. mutually importing modules; <= 4/5 events with <= 3 non-edit events; eviction emulated per victim through the pub maps.",
   technique="TLA+ state machine with cache variables (TLC exhaustive) + warm/cold twin replay"),
 "C08": dict(level=MC, ref="DESIGN.md section 4 C08",
   text="For every layout the observable snapshot is computed on the real library under every registration order of the defining files and compared; TLC proves order independence of the repaired model (RepairedEqualsR under all orders).",
   note="Schedule effect = per-file analysis order (atomicity is C09's subject); <= 3/4 definers, all permutations.",
   technique="TLA+ case table over all permutations + replay, snapshot comparison"),
 "C09": dict(level=MC, ref="DESIGN.md section 4 C09, Appendix C",
   text="Conc.tla refines the atomic AnalyzeFn of Index.tla to individual DashMap operations; TLC checks Serializable / NoDanglingC / MirrorC over ALL interleavings of two analyses of different files, all key->shard placements and 1800 scenarios (1.2M states); TLC-simulated behaviours (thread-id sequences) are replayed on real threads through the instrumented DashMap's cooperative scheduler and the quiescent real index is compared with both sequential orders executed on the real library and with the model's final state.",
   note="2 threads, 2 names, 2 shards; schedule points = acquisitions on the four shared maps; instrumented copy of dashmap 6.1.0 (hooks off = upstream behaviour).",
   technique="TLA+ refinement at DashMap-operation grain (TLC exhaustive) + scheduled real-thread replay of TLC behaviours + TLC trace validation of the real lock logs (ConcTrace.tla)"),
 "C10": dict(level=MC, ref="DESIGN.md section 4 C10",
   text="Conc.tla with scan worker (no cleanup) and editor (cleanup) on the SAME file: TLC checks RestoreAfterChange over all interleavings; simulated behaviours and both coarse orders are replayed on real threads under the scheduler, then every text is sent as one further change; the final state is compared with the single analysis of the buffer; the known scan-after-notification defect is matched only when the model predicts the exact observed state.",
   note="5 disk texts x 5 buffer texts; the scan's visit is the guarded verif_analyze_file_fresh hook.",
   technique="TLA+ interleaving model (TLC exhaustive) + scheduled real-thread replay"),
 "C11": dict(level="exploration", ref="DESIGN.md section 4 C11",
   text="Hostile.tla enumerates every string of <= 2 (quick) / 3 (thorough) character classes out of 27 in each of 20 sensitive slots and every (valid version, unparsable successor) stale-position history, and states the protocol obligations (every request answered, process alive, no library panic, scan indexes the other files); the library is probed at ~100 positions per document under catch_unwind; the real binary is driven over stdio with all 13 request kinds at the positions recorded for the valid version, past the end and at u32 extremes; hostile pyproject.toml / entry_points.txt / .pth contents must not stop the server, the scan or the CLI nor disable healthy files.",
   note="Exploration-level: the specification cannot predict a panic; it supplies the systematic input and history space and the obligations. 'Very large' inputs only by a handful of sizes.",
   technique="TLA+ enumerated input/history space + catch_unwind library probes + real binary with watchdog"),
 "C12": dict(level=MC, ref="DESIGN.md section 4 C12, Appendix C",
   text="Lock events of every public library entry point are traced through the instrumented DashMap under natural placement and all-keys-in-one-shard; a held-lock re-entrancy involving a writer on the same map is a violation; the observed nesting templates are model-checked (Locks.tla, reader-preferring RwLock, all schedules and placements) for deadlock; ImportWalk.tla proves termination (<>Done under weak fairness) of the memoised import recursion and scanner fixpoint on all graphs over 3 modules, and all 1024 graphs are run on the real code under a watchdog with the result compared to reachability; seeded random schedules of a notification against two request streams on real threads.",
   note="Handlers of the binary crate are covered through the library entry points they call; watchdog 600 s; a crash (stack overflow) of the harness is reported as a violation with the culprit case.",
   technique="lock-trace template extraction + TLA+ lock model (TLC) + TLA+ liveness (ImportWalk) + scheduled real threads"),
 "C13": dict(level=MC, ref="DESIGN.md section 4 C13",
   text="Discovery.tla defines PyIndexed (root-relative rules) and the implementation model with its named deviations; TLC checks RepairedRelocationInvariant, FaultIsolation, RepairedEqualsR; one tree holding the full product of directory components x file names (1330 uniquely tagged files) is materialised under 7 root locations x 4 exclude sets x 3 fault modes and scanned by the real library; the indexed set and the third-party classification must equal the specification.",
   note="<= 2 directory components over 11 representatives, 10 file names; exclude shapes `dir/**`, `**/name.py`; faults: invalid UTF-8, dangling symlinks (no permission faults as root).",
   technique="TLA+ case table (TLC) + materialised trees scanned by the real library"),
 "C14": dict(level=MC, ref="DESIGN.md section 4 C14",
   text="Imports.tla enumerates importer x first edge (star / explicit / aliased / pytest_plugins with last-assignment-wins) x spelling (relative 1/2, absolute) x target (module, package __init__, module in package) x onward chains (self import, 2-cycle, re-exports); TLC checks RepairedEqualsRI; every case is materialised on disk and scanned by the real library, every name is resolved from the using file and compared with PyProvides, and the scan must have discovered the import closure. Plugins.tla enumerates venv layouts (dist-info/egg-info, module/package/missing target, regular/editable inside/outside, .pth naming, _pytest built-ins); the real scan's classification and resolution are compared with the specification.",
   note="364 import cases, 156 venv layouts; absolute imports judged only next to the importer; library-level is_third_party/is_plugin flags stand for symbol visibility.",
   technique="TLA+ case tables (TLC) + materialised trees scanned by the real library"),
 "C15": dict(level=MC, ref="DESIGN.md section 4 C15",
   text="Positions.tla gives the column algebra: a line is a sequence of pieces with declared UTF-8 / UTF-16 widths, the promised range of a token is the sum of UTF-16 widths before it (string usages: the literal's content); TLC checks RepairedExact / WellFormed and enumerates construct x preceding material x string form x name kind; every layout is rendered (declared widths re-checked against the text and against CPython's tokenisation), analysed by the real library under LF and CRLF, and the recorded range compared; the implementation model (byte sums, +-1 quote stripping, whole-string indirect names) must predict every deviation exactly. Structural rules of documentSymbol / definition / references responses are checked through the real binary on the C03 function corpus.",
   note="163 layouts x 2 line endings + ~60 LSP sessions (quick); library-level fields are what handlers put into ranges.",
   technique="TLA+ column algebra (TLC) + rendered layouts on the real analyzer + LSP structural checks"),
 "C16": dict(level=MC, ref="DESIGN.md section 4 C16",
   text="compute_fixture_cycles is transcribed step by step into TLA+ (explicit-stack DFS, root order) and TLC evaluates it on every dependency graph of the table; the per-definition reference graph (layer R) decides soundness and completeness of every reported cycle and the scope rule; every (graph, registration order) is replayed on the real library with 3 additional fresh databases for run-to-run stability; the model must predict the implementation's exact output.",
   note="<= 3 fixture names over 4 files, all parameter lists, all registration orders of defining files; scope universe: 5 scopes x dependency defined at up to 4 places.",
   technique="TLA+ transcription of the DFS + case table (TLC) + replay with SCC / scope oracle"),
 "C17": dict(level=MC, ref="DESIGN.md section 4 C17",
   text="Undeclared.tla gives the verdict (flag / must not flag / open) per (expression form, statement context, binding form, visibility of the name) and the quick-fix postconditions; TLC enumerates the three groups; warnings are checked on the real library with their exact position; for 19 function shapes the real binary is driven publishDiagnostics -> codeAction -> edit applied -> CPython parse, parameter of the same function, every other function ast-equal, didChange -> warning gone, and the same postconditions are checked for the completion item's additionalTextEdits.",
   note="270 + 280 library cases, 38 LSP sessions; uses the statement does not list (f-strings, keyword arguments, ...) are only judged when flagged wrongly; known findings are matched by (symptom, input class).",
   technique="TLA+ verdict table (TLC) + library replay + real-binary quick-fix round trip validated with CPython"),
 "C18": dict(level=MC, ref="DESIGN.md section 4 C18",
   text="Completion.tla defines Ctx(role, kind) and Offered(kind, scope, declared) and TLC checks OfferedSound / NoneOutside over cursor-line role x function kind x fixture scope x declared set; every case is one textDocument/completion request to the real binary in a workspace with conftest fixtures of all five scopes, same-file fixtures and third-party fixtures from a venv entry point; labels, uniqueness, sortText rank and the parameter edit of body items are compared; incomplete forms are reached by didChange from a valid version.",
   note="20 line roles (15 valid, 5 incomplete) x {test, fixture x 5 scopes, helper} x 3 declared sets = 292 sessions; blank lines after a body are not judged.",
   technique="TLA+ context / offered-set algebra (TLC) + completion requests to the real binary"),
 "C19": dict(level=MC, ref="DESIGN.md section 4 C19",
   text="Lsp.tla specifies lastPublished per document under open/change notifications and the effective configuration; TLC enumerates every history x configuration variant and checks TracksLatest, RemovingCauseClears, ConfigExact, PartialConfigKeepsRest; every maximal history is one stdio session of the real server binary; after each notification the published diagnostics are compared with the specification's codes and with a library-level twin analysis of the same contents.",
   note="2 documents x 4 versions (each cause introduced/removed, unparsable text), histories <= 3 (quick) / 4 (thorough), 21+ pyproject.toml variants incl. alternative TOML spellings; wrong value types are not judged.",
   technique="TLA+ LSP-layer state machine (TLC) + sessions of the real binary validated step by step"),
 "C20": dict(level=MC, ref="DESIGN.md section 4 C20",
   text="Library level: get_unused_fixtures on every (layout, order) of the Layouts table vs PyUnusedNames (layer R). Binary level: layouts materialised on disk (with a venv entry-point plugin), `fixtures unused` (text/json/exit status) and `fixtures list` (plain and both filters) run under RAYON_NUM_THREADS 1/4/16 and compared with layer R, across formats, filters and runs.",
   note="CLI identifies fixtures by (file, name); quick tier samples 500 layouts by VERIF_SEED; workspace plugins (editable installs) not materialised here.",
   technique="TLA+ case table (TLC) + CLI runs of the real binary on materialised trees"),
}

UNDER_CONSTRUCTION = "check under construction in this round (DESIGN.md section 8); not yet claimed"
NOT_APPLICABLE = {}


def main():
    props = [json.loads(l)["id"] for l in open(os.path.join(VERIF, "properties.jsonl"))]
    commits = subprocess.run(["git", "-C", "/repo", "log", "--format=%h %s"], stdout=subprocess.PIPE, text=True).stdout.splitlines()
    hooks = [c.split()[0] for c in commits if c.split(" ", 1)[1].startswith("verif hook")]
    checks = []
    for pid in props:
        if pid not in CLAIMED:
            continue
        c = CLAIMED[pid]
        checks.append({
            "property_id": pid,
            "quick_cmd": "./check %s --tier quick" % pid,
            "thorough_cmd": "./check %s --tier thorough" % pid,
            "evidence_file": "/verif/evidence/%s.json" % pid,
            "replay_cmd_template": "./check %s --replay {path}" % pid,
            "engine": "tlc+plsverif",
            "level_claimed": {"category": c["level"], "text": c["text"], "design_ref": c["ref"]},
            "level_note": c["note"],
            "technique": c["technique"],
        })
    m = {
        "version": 1,
        "setup_cmd": "./check setup",
        "hooks": {
            "guard": "pytest_language_server_verif",
            "enable": "RUSTFLAGS='--cfg pytest_language_server_verif --check-cfg cfg(pytest_language_server_verif)' (harness/.cargo/config.toml; tools/common.py build_server)",
            "baseline_off_cmd": "cd /repo && cargo test --workspace --no-fail-fast --offline",
            "source_commits": hooks,
            "add_only": True,
        },
        "engines": [
            {"name": "tlc", "path": "/verif/spec", "serves_properties": sorted(CLAIMED), "kind_free_text": "explicit TLA+ specification (layer R + layer I), TLC case tables / behaviours"},
            {"name": "plsverif", "path": "/verif/harness", "serves_properties": sorted(CLAIMED), "kind_free_text": "Rust op interpreter over the real library built from /repo's working tree (spec->impl replay, traces)"},
        ],
        "checks": checks,
        "not_applicable": [{"property_id": p, "reason": NOT_APPLICABLE.get(p, UNDER_CONSTRUCTION)} for p in props if p not in CLAIMED],
        "notes": "Model-based verification with an explicit TLA+ specification; see DESIGN.md. Exit codes: 0 held (KNOWN-FINDING lines allowed), 1 VIOLATION, 2 tool error.",
    }
    json.dump(m, open(os.path.join(VERIF, "MANIFEST.json"), "w"), indent=1)


if __name__ == "__main__":
    main()
