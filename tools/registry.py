import layouts

CHECKS = {
    "C01": layouts.check_c01,
    "C02": layouts.check_c02,
    "C04": layouts.check_c04,
    "C05": layouts.check_c05,
    "C08": layouts.check_c08,
}
