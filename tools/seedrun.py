"""Seeded-fault self-test (DESIGN.md B3): apply a seeded change to a scratch worktree of /repo
(outside /repo and /verif), run the named checks against it, record what they report, undo.
  usage: python3 tools/seedrun.py <seed-id> <check> [<check> ...]
Result is appended to /verif/seeded/<seed-id>/runs.json ."""
import json
import os
import subprocess
import sys
import time

VERIF = os.path.dirname(os.path.dirname(os.path.abspath(__file__)))
WT = os.environ.get("SEEDRUN_WT", "/tmp/seedrepo")
TAG = os.environ.get("SEEDRUN_TAG", "seed")


def sh(cmd, **kw):
    return subprocess.run(cmd, shell=True, stdout=subprocess.PIPE, stderr=subprocess.STDOUT, text=True, **kw)


def main():
    import fcntl
    lock = open(WT + ".lock", "w")
    fcntl.flock(lock, fcntl.LOCK_EX)          # one seeded run at a time per scratch worktree
    sid, checks = sys.argv[1], sys.argv[2:]
    sd = os.path.join(VERIF, "seeded", sid)
    head = sh("git -C /repo rev-parse HEAD").stdout.strip()
    if not os.path.isdir(WT):
        r = sh("git -C /repo worktree add -q --detach %s HEAD" % WT)
        if r.returncode:
            print(r.stdout)
            return 2
    sh("git -C %s reset -q --hard && git -C %s checkout -q --detach %s && git -C %s reset -q --hard %s && git -C %s clean -qfd -e target"
       % (WT, WT, head, WT, head, WT))
    patch = os.path.join(sd, "patch_rebased.diff")
    if not os.path.exists(patch):
        patch = os.path.join(sd, "patch.diff")
    r = sh("git -C %s apply %s" % (WT, patch))
    if r.returncode:
        r = sh("git -C %s apply --3way %s" % (WT, patch))      # /repo moved on (hook / fix commits) since the patch was made
    if r.returncode:
        print("patch does not apply:", r.stdout)
        return 2
    env = dict(os.environ, VERIF_ALT_REPO=WT, VERIF_ALT_TAG=TAG)
    out = []
    for c in checks:
        t = time.time()
        p = subprocess.run(["./check", c, "--tier", "quick"], cwd=VERIF, env=env, stdout=subprocess.PIPE,
                           stderr=subprocess.PIPE, text=True)
        viol = [l for l in p.stdout.splitlines() if l.startswith("VIOLATION")]
        rec = {"seed": sid, "check": c, "repo_head": head[:7], "exit": p.returncode, "violations": len(viol),
               "detected": p.returncode == 1 and bool(viol), "first": viol[:1], "wall_s": round(time.time() - t, 1),
               "stderr_tail": p.stderr.splitlines()[-3:]}
        out.append(rec)
        print(json.dumps(rec))
    sh("git -C %s reset -q --hard" % WT)
    runs_p = os.path.join(sd, "runs.json")
    runs = json.load(open(runs_p)) if os.path.exists(runs_p) else []
    runs = [r for r in runs if not any(r["check"] == o["check"] for o in out)] + out
    json.dump(runs, open(runs_p, "w"), indent=1)
    return 0


if __name__ == "__main__":
    sys.exit(main())
