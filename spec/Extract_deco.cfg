CONSTANTS
  Group = "deco"
SPECIFICATION Spec
CHECK_DEADLOCK FALSE
INVARIANTS
  RulesConsistent
  EmitCase
