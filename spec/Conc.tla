-------------------------------- MODULE Conc --------------------------------
(***************************************************************************)
(* analyze_file_internal (src/fixtures/analyzer.rs:30-274) at the grain of *)
(* individual DashMap operations, N threads, key->shard placement chosen   *)
(* nondeterministically.  One action = one shard-lock acquisition on one   *)
(* of the four shared maps (definitions, file_definitions, usages,         *)
(* usage_by_fixture); operations on per-file maps are not interleaving     *)
(* points for DIFFERENT files (and are covered by the same-file scenario   *)
(* of C10 through file_cache).                                             *)
(*                                                                         *)
(* C09: at quiescence the index equals (per-key bags) the result of SOME   *)
(* sequential order of the same analyses -- the atomic AnalyzeFn of        *)
(* Index.tla is the sequential specification this module refines.          *)
(* C10: scan worker (no cleanup) and editor notification (cleanup) on the  *)
(* SAME file.                                                              *)
(***************************************************************************)
EXTENDS Index, Json

CONSTANTS Threads,        \* e.g. {1, 2}
          Scenarios,      \* set of [prev : [Files -> Module], job : [Threads -> [f, m, cleanup]]]
          CNames,
          Shards          \* {0, 1}

VARIABLES ix,             \* the shared maps (Index.tla record)
          th,             \* per-thread local state
          sc,             \* the scenario
          pu, pd,         \* key -> shard placement of usage_by_fixture / definitions
          pk,             \* keys PRESENT in usage_by_fixture / definitions (a key whose vector was emptied by retain() stays
                          \* in the map until remove_if takes it out: the abstract index does not distinguish the two, the lock
                          \* sequence of a concurrent thread does)
          sched           \* history: thread ids in step order (hidden by VIEW in exhaustive runs)
vars == <<ix, th, sc, pu, pd, pk, sched>>
view == <<ix, th, sc, pu, pd, pk>>

(* Model constants *)
CFiles == {"fa", "fb"}
CDirs == {"D"}
CDirOf == [f \in CFiles |-> "D"]
CParentOf == [d \in CDirs |-> "NODIR"]
CRoleOf == [f \in CFiles |-> "test"]
CNamesMC == {"n", "x"}
Menu == { Module(<<PlainDef("n", <<>>)>>),
          Module(<<Test("test_1", <<"n">>)>>),
          Module(<<PlainDef("n", <<>>), Test("test_1", <<"n">>)>>),
          Module(<<PlainDef("x", <<"n">>)>>),
          Module(<<>>) }
PrevMenu == { Absent, Module(<<PlainDef("n", <<>>)>>), Module(<<PlainDef("n", <<>>), Test("test_1", <<"n", "x">>)>>) }

\* C09: two threads re-analysing DIFFERENT files that share names
Scen09 == { [prev |-> [f \in CFiles |-> IF f = "fa" THEN pa ELSE pb],
             job |-> [t \in {1, 2} |-> IF t = 1 THEN [f |-> "fa", m |-> ma, cleanup |-> TRUE]
                                        ELSE [f |-> "fb", m |-> mb, cleanup |-> cb]]]
            : pa \in PrevMenu, pb \in PrevMenu, ma \in Menu, mb \in Menu, cb \in BOOLEAN }

\* simulation only: files that request the same name TWICE (their pushes to one reverse-index vector interleave)
MenuSim == Menu \cup { Module(<<Test("test_1", <<"n">>), Test("test_2", <<"n">>)>>),
                       Module(<<PlainDef("x", <<"n">>), Test("test_1", <<"n", "x">>), Test("test_2", <<"x", "n">>)>>) }
Scen09Sim == { [prev |-> [f \in CFiles |-> IF f = "fa" THEN pa ELSE pb],
                job |-> [t \in {1, 2} |-> IF t = 1 THEN [f |-> "fa", m |-> ma, cleanup |-> TRUE]
                                           ELSE [f |-> "fb", m |-> mb, cleanup |-> cb]]]
               : pa \in PrevMenu, pb \in PrevMenu, ma \in MenuSim, mb \in MenuSim, cb \in BOOLEAN }

\* C10: the scan worker (disk text, no cleanup) and the editor (buffer text, cleanup) on the SAME file
Scen10 == { [prev |-> [f \in CFiles |-> Absent],
             job |-> [t \in {1, 2} |-> IF t = 1 THEN [f |-> "fa", m |-> disk, cleanup |-> FALSE]
                                        ELSE [f |-> "fa", m |-> buf, cleanup |-> TRUE]]]
            : disk \in Menu, buf \in Menu }

\* ---- the micro-ops of the module walk (visit_stmt): per item, in code order
WalkOps(f, m) ==
    LET RECURSIVE W(_)
        W(i) == IF i > Len(m.items) THEN <<>>
                ELSE LET it == m.items[i]
                         us == ItemUsages(f, i, it)
                         useops == [k \in 1..(2 * Len(us)) |->
                                      IF k % 2 = 1 THEN [o |-> "use", u |-> us[(k + 1) \div 2]]
                                      ELSE [o |-> "ubf", u |-> us[k \div 2]]]
                         defops == IF it.k = "def"
                                   THEN << [o |-> "def", i |-> i], [o |-> "fdef", i |-> i] >>
                                   ELSE <<>>
                     IN  defops \o useops \o W(i + 1)
    IN  W(1)

Local(pc) == [pc |-> pc, keys |-> <<>>, names |-> <<>>, i |-> 1, rm |-> FALSE, held |-> {}]

RECURSIVE SetToSeqC(_)
SetToSeqC(S) == IF S = {} THEN <<>> ELSE LET x == CHOOSE y \in S : TRUE IN <<x>> \o SetToSeqC(S \ {x})

\* every order in which a shard's keys may come out of DashMap's iterator (hash order: arbitrary)
OrdersOf(S) == { s \in [1..Cardinality(S) -> S] : \A i, j \in 1..Cardinality(S) : i # j => s[i] # s[j] }

Job(t) == sc.job[t]
KeysInShard(s) == { n \in pk.ubf : pu[n] = s }
PresentKeys(x) == [ubf |-> { n \in CNames : x.ubf[n] # <<>> }, defs |-> { n \in CNames : x.defs[n] # <<>> }]

\* a W request on (map, shard) is enabled iff no OTHER thread holds that shard (reader-preferring
\* lock: only holders matter); R requests are enabled iff no writer holds -- no thread ever parks
\* while holding a W lock in this program, so R is always enabled
HeldByOther(t, lock) == \E o \in Threads \ {t} : lock \in th[o].held

Init ==
    /\ sc \in Scenarios
    /\ pu \in [CNames -> Shards] /\ pd \in [CNames -> Shards]
    /\ ix = BuildFrom([EmptyIndex(CNames, [f \in Files |-> NoMod]) EXCEPT !.plugins = {}],
                      sc.prev, SetToSeqC({ f \in Files : sc.prev[f].present }), TRUE)
    /\ th = [t \in Threads |-> Local("cache")]
    /\ pk = PresentKeys(ix)
    /\ sched = <<>>

\* transitions that take no lock happen inside the step that precedes them
Norm(t, l) ==
    LET ops == WalkOps(Job(t).f, Job(t).m)
        l1 == IF l.pc = "dkey" /\ l.i > Len(l.names) THEN [l EXCEPT !.pc = "walk", !.i = 1] ELSE l
    IN  IF l1.pc = "walk" /\ l1.i > Len(ops) THEN [l1 EXCEPT !.pc = "done"] ELSE l1
Goto(t, l) == th' = [th EXCEPT ![t] = Norm(t, l)]

Step(t) ==
    LET l == th[t]
        f == Job(t).f
        m == Job(t).m
    IN
    \/ /\ l.pc = "cache"            \* first turn: file_cache.insert, parse (no shared-map lock yet)
       /\ ix' = [ix EXCEPT !.cached[f] = m]
       /\ Goto(t, [l EXCEPT !.pc = IF m.valid THEN "iter0" ELSE "done"])
       /\ UNCHANGED pk
    \/ /\ l.pc = "iter0"            \* usage_by_fixture.iter(): shard 0 (guard kept until shard 1 is locked)
       /\ \E o \in OrdersOf(KeysInShard(0)) :
             Goto(t, [l EXCEPT !.pc = "iter1", !.keys = o, !.held = {<<"ubf", 0>>}])
       /\ UNCHANGED <<ix, pk>>
    \/ /\ l.pc = "iter1"            \* shard 1
       /\ \E o \in OrdersOf(KeysInShard(1)) :
             Goto(t, [l EXCEPT !.pc = "ukey", !.keys = l.keys \o o, !.i = 1, !.held = {}])
       /\ UNCHANGED <<ix, pk>>
    \/ /\ l.pc = "ukey" /\ l.i <= Len(l.keys)     \* get_mut(key): retain, is_empty
       /\ LET k == l.keys[l.i]
              after == SelectFile(ix.ubf[k], f)
          IN  /\ ~HeldByOther(t, <<"ubf", pu[k]>>)
              /\ ix' = [ix EXCEPT !.ubf[k] = after]
              /\ UNCHANGED pk
              \* `usages.is_empty()` after the retain: true also when ANOTHER thread emptied the vector and has not
              \* removed the key yet; an absent key (get_mut -> None) is skipped
              /\ Goto(t, IF k \in pk.ubf /\ after = <<>>
                         THEN [l EXCEPT !.pc = "urm"]
                         ELSE [l EXCEPT !.i = l.i + 1])
    \/ /\ l.pc = "urm"              \* remove_if(key, is_empty)
       /\ ~HeldByOther(t, <<"ubf", pu[l.keys[l.i]]>>)
       /\ UNCHANGED ix              \* an empty vector and an absent key are the same abstract index state
       /\ pk' = IF ix.ubf[l.keys[l.i]] = <<>> THEN [pk EXCEPT !.ubf = @ \ {l.keys[l.i]}] ELSE pk   \* remove_if(.., is_empty)
       /\ Goto(t, [l EXCEPT !.pc = "ukey", !.i = l.i + 1])
    \/ /\ l.pc = "ukey" /\ l.i > Len(l.keys)      \* usages.remove(f)
       /\ ix' = [ix EXCEPT !.usages[f] = <<>>]
       /\ UNCHANGED pk
       /\ Goto(t, [l EXCEPT !.pc = IF Job(t).cleanup THEN "fdrm" ELSE "walk", !.i = 1])
    \/ /\ l.pc = "fdrm"             \* file_definitions.remove(f)
       /\ ix' = [ix EXCEPT !.fdefs[f] = {}]
       /\ UNCHANGED pk
       /\ Goto(t, [l EXCEPT !.pc = "dkey", !.names = SetToSeqC(ix.fdefs[f]), !.i = 1])
    \/ /\ l.pc = "dkey" /\ l.i <= Len(l.names)    \* definitions.get_mut(name): retain, is_empty
       /\ LET n == l.names[l.i]
              after == SelectFile(ix.defs[n], f)
          IN  /\ ix' = [ix EXCEPT !.defs[n] = after]
              /\ UNCHANGED pk
              /\ Goto(t, IF n \in pk.defs /\ after = <<>>
                         THEN [l EXCEPT !.pc = "drm"] ELSE [l EXCEPT !.i = l.i + 1])
    \/ /\ l.pc = "drm"              \* definitions.remove_if(name, is_empty)
       /\ UNCHANGED ix
       /\ pk' = IF ix.defs[l.names[l.i]] = <<>> THEN [pk EXCEPT !.defs = @ \ {l.names[l.i]}] ELSE pk
       /\ Goto(t, [l EXCEPT !.pc = "dkey", !.i = l.i + 1])
    \/ /\ l.pc = "walk"             \* one record_* map operation of the module walk
       /\ LET ops == WalkOps(f, m)
              op == ops[l.i]
          IN  /\ (op.o = "ubf" => ~HeldByOther(t, <<"ubf", pu[op.u.name]>>))
              /\ ix' = CASE op.o = "use"  -> [ix EXCEPT !.usages[f] = Append(@, op.u)]
                         [] op.o = "ubf"  -> [ix EXCEPT !.ubf[op.u.name] = Append(@, op.u)]
                         [] op.o = "def"  -> [ix EXCEPT !.defs[m.items[op.i].name] =
                                                 Append(@, DefRec(f, op.i, m.items[op.i], FALSE)),
                                                       !.version = @ + 1]
                         [] op.o = "fdef" -> [ix EXCEPT !.fdefs[f] = @ \cup {m.items[op.i].name}]
              \* entry(key).or_default().push(..): the key is (again) present
              /\ pk' = CASE op.o = "ubf" -> [pk EXCEPT !.ubf = @ \cup {op.u.name}]
                          [] op.o = "def" -> [pk EXCEPT !.defs = @ \cup {m.items[op.i].name}]
                          [] OTHER -> pk
              /\ Goto(t, [l EXCEPT !.i = l.i + 1])

Next == \E t \in Threads : Step(t) /\ sched' = Append(sched, t) /\ UNCHANGED <<sc, pu, pd>>
Spec == Init /\ [][Next]_vars

Quiescent == \A t \in Threads : th[t].pc = "done"

----------------------------------------------------------------------------
(* The sequential specification: some order of the atomic analyses *)
PermsC(S) == { s \in [1..Cardinality(S) -> S] : \A i, j \in 1..Cardinality(S) : i # j => s[i] # s[j] }
StartIx == BuildFrom([EmptyIndex(CNames, [f \in Files |-> NoMod]) EXCEPT !.plugins = {}],
                     sc.prev, SetToSeqC({ f \in Files : sc.prev[f].present }), TRUE)
RECURSIVE SeqRun(_, _)
SeqRun(x, o) == IF o = <<>> THEN x
                ELSE SeqRun(AnalyzeFn(x, Job(Head(o)).f, Job(Head(o)).m, Job(Head(o)).cleanup), Tail(o))

Bag(seq) == [x \in { seq[i] : i \in 1..Len(seq) } |-> Cardinality({ i \in 1..Len(seq) : seq[i] = x })]
Proj(x) == [defs |-> [n \in CNames |-> Bag(x.defs[n])],
            fdefs |-> x.fdefs,
            usages |-> [f \in Files |-> Bag(x.usages[f])],
            ubf |-> [n \in CNames |-> Bag(x.ubf[n])]]

\* JSON-friendly projection: sequences of identities (the replayer compares them as bags)
ProjJ(x) == [defs |-> [n \in CNames |-> [j \in 1..Len(x.defs[n]) |-> IdOf(x.defs[n][j])]],
             fdefs |-> x.fdefs,
             usages |-> [f \in Files |-> [j \in 1..Len(x.usages[f]) |-> UseId(x.usages[f][j].file, x.usages[f][j].idx, x.usages[f][j].uk, x.usages[f][j].ui)]],
             ubf |-> [n \in CNames |-> [j \in 1..Len(x.ubf[n]) |-> UseId(x.ubf[n][j].file, x.ubf[n][j].idx, x.ubf[n][j].uk, x.ubf[n][j].ui)]]]

\* C09 / C10
Serializable ==
    Quiescent => \E o \in PermsC(Threads) : Proj(ix) = Proj(SeqRun(StartIx, o))

\* no dangling reverse-index entries and the usage mirror, at quiescence
NoDanglingC ==
    Quiescent => \A f \in Files : ix.fdefs[f] = { n \in CNames : \E j \in 1..Len(ix.defs[n]) : ix.defs[n][j].file = f }
MirrorC ==
    Quiescent => \A n \in CNames : \A f \in Files :
        Bag(SelectSeq(ix.ubf[n], LAMBDA x : x.file = f)) = Bag(SelectSeq(ix.usages[f], LAMBDA x : x.name = n))

\* C10, second half: ONE further change notification restores the exact single-analysis state,
\* whatever the interleaving of scan worker and editor left behind
RestoreAfterChange ==
    Quiescent => \A m2 \in Menu : \A f \in { Job(t).f : t \in Threads } :
        Proj(AnalyzeFn(ix, f, m2, TRUE)) = Proj(AnalyzeFn(SeqRun(StartIx, <<>>), f, m2, TRUE))
        \/ \E g \in Files : g # f /\ sc.prev[g].present     \* (only stated for single-file scenarios)

\* C10, first half (EXPECTED TO FAIL for the code as it is when the scan visits the file after the
\* notification -- not configured as an invariant; evaluated per emitted schedule instead)
EditorOnly == AnalyzeFn(StartIx, Job(2).f, Job(2).m, TRUE)
EditorWins == Quiescent => Proj(ix) = Proj(EditorOnly)

\* every thread finishes (no deadlock among the modelled lock requests)
Terminates == <>Quiescent

EmitSchedule ==
    Quiescent => PrintT("REPLAY " \o ToJson([sc |-> sc, pu |-> pu, pd |-> pd, sched |-> sched,
                                              final |-> ProjJ(ix), editorOnly |-> ProjJ(EditorOnly),
                                              editorWins |-> (Proj(ix) = Proj(EditorOnly)),
                                              mirror |-> MirrorC, nodangling |-> NoDanglingC]))

=============================================================================
