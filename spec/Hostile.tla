------------------------------- MODULE Hostile -------------------------------
(***************************************************************************)
(* C11: no input or request sequence crashes or wedges the server.         *)
(* The specification cannot predict a panic; it contributes (a) the        *)
(* protocol-level safety/liveness shape -- every request is answered       *)
(* (possibly empty), the server never enters Dead, the scan completes      *)
(* whatever one file contains -- and (b) the SYSTEMATIC enumeration of     *)
(* boundary-sensitive inputs: abstract character-class strings placed in   *)
(* every sensitive slot of a document skeleton, and stale-position         *)
(* histories (valid version V, then an unparsable version B whose lines    *)
(* have other byte lengths / character boundaries, then every request kind *)
(* at the positions recorded for V, past the end and at u32 extremes).     *)
(***************************************************************************)
EXTENDS Naturals, Sequences, FiniteSets, TLC, Json

CONSTANTS MaxLen, Part        \* Part: "slots" | "stale"

Classes == {"a", "dq", "sq", "lp", "rp", "colon", "comma", "sp", "tab", "lf", "cr", "crlf", "e2", "c3", "m4",
            "ideosp", "nbsp", "bom", "nul", "bslash", "hash", "eq", "star", "at", "dot", "lb", "rb"}
Slots == {"doc_line_prefix", "after_param", "before_name", "after_name", "fixture_deco_arg", "usefixtures_str",
          "parametrize_names", "body_line", "plugins_value", "import_module", "return_annot", "after_colon",
          "default_value", "scope_value", "name_value", "pyproject_codes", "pyproject_exclude", "entry_point_name",
          "entry_point_target", "pth_line"}
Strings == UNION { [1..n -> Classes] : n \in 1..MaxLen }

\* stale-position histories
ValidKinds == {"ascii_long", "params_many", "usefix_string", "class_method", "undeclared_use"}
BrokenKinds == {"shorter_lines", "multibyte_at_offsets", "empty", "only_newlines", "one_long_line", "bom_first", "crlf_mixed",
                "fewer_lines", "tabs"}
Requests == {"definition", "hover", "references", "implementation", "completion", "codeAction", "documentSymbol",
             "workspaceSymbol", "codeLens", "inlayHint", "prepareCallHierarchy", "incomingCalls", "outgoingCalls"}
PosKinds == {"recorded", "recorded_end", "past_line_end", "past_last_line", "u32_max", "zero"}

VARIABLES kind, slot, str, v, b
vars == <<kind, slot, str, v, b>>
Init == IF Part = "slots"
        THEN kind = "slot" /\ slot \in Slots /\ str \in Strings /\ v = "-" /\ b = "-"
        ELSE kind = "stale" /\ slot = "-" /\ str = <<>> /\ v \in ValidKinds /\ b \in BrokenKinds
Next == UNCHANGED vars
Spec == Init /\ [][Next]_vars

\* protocol obligations of every explored case (checked on the real binary / library by the replayer)
Obligations == [every_request_answered |-> TRUE, process_alive |-> TRUE, no_panic_in_library |-> TRUE,
                scan_indexes_other_files |-> TRUE]
EmitCase == PrintT("CASE " \o ToJson([kind |-> kind, slot |-> slot, str |-> str, v |-> v, b |-> b,
                                     requests |-> Requests, positions |-> PosKinds, must |-> Obligations]))
TypeOK == kind \in {"slot", "stale"}
=============================================================================
