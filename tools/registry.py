import histories
import layouts


def warm_layouts():
    layouts.load_cases("Layouts_quick.cfg")
    layouts.load_cases("Layouts_chain.cfg")


CHECKS = {
    "C01": layouts.check_c01,
    "C02": layouts.check_c02,
    "C04": layouts.check_c04,
    "C05": layouts.check_c05,
    "C06": histories.check_c06,
    "C07": histories.check_c07,
    "C08": layouts.check_c08,
}
WARM = [warm_layouts]
