CONSTANTS
  MaxLen = 4
  CfgVariants <- AllCfg
  DeepCfg <- AllCfg
SPECIFICATION Spec
CHECK_DEADLOCK FALSE
INVARIANTS
  TracksLatest
  RemovingCauseClears
  ConfigExact
  PartialConfigKeepsRest
  EmitCase
