"""LSP-level tier of C06 / C07: histories enumerated by TLC from spec/History.tla are sent to the REAL server
binary as didOpen / didChange / didClose notifications and requests; afterwards every handler of
src/providers is asked about every opened document and the answers are compared with those of a twin server
(C06: started fresh and given only the latest contents; C07: given only the edits).  This binds the part of the
state the library-level replays cannot see: whatever the handlers in src/main.rs and src/providers keep or
cache between notifications (documents, URI cache, per-document results)."""
import json
import os
import random
import shutil

import common as C
import histories as H
import lsp
import render as R


def _norm(x, root):
    s = json.dumps(x, sort_keys=True)
    s = s.replace(lsp.path_to_uri(root), "$ROOT").replace(root, "$ROOT")
    return json.loads(s)


def _sorted_list(x):
    if isinstance(x, list):
        return sorted(x, key=lambda v: json.dumps(v, sort_keys=True))
    return x


def ask_everything(srv, root, uni, cur, reverse=False):
    """cur: slot -> Rendered of the text the server has for that (opened) document.
    reverse: the same requests in the opposite order (documents, positions, request kinds): an answer must not depend on
    which request was answered before it"""
    out = {}
    order = (lambda xs: list(reversed(list(xs)))) if reverse else (lambda xs: list(xs))

    def doc_level(slot, p, r):
        for kind in order(["symbols", "lens", "inlay", "diag"]):
            if kind == "symbols":
                out[slot + ":symbols"] = _sorted_list(_norm(srv.doc_request("textDocument/documentSymbol", p), root))
            elif kind == "lens":
                out[slot + ":lens"] = _sorted_list(_norm(srv.doc_request("textDocument/codeLens", p), root))
            elif kind == "inlay":
                nl = r.text.count("\n") + 1
                out[slot + ":inlay"] = _sorted_list(_norm(srv.doc_request("textDocument/inlayHint", p, {
                    "range": {"start": {"line": 0, "character": 0}, "end": {"line": nl, "character": 0}}}), root))
            else:
                out[slot + ":diag"] = _sorted_list(_norm((srv.diagnostics.get(lsp.path_to_uri(p)) or [[]])[-1], root))

    def pos_level(slot, p, r):
        for key, (ln, cs, ce) in order(sorted(r.use_pos.items())):
            tag = "%s:%s" % (slot, "/".join(map(str, key)))
            for kind in order(["def", "refs", "hover", "completion"]):
                if kind == "def":
                    out[tag + ":def"] = _norm(srv.pos_request("textDocument/definition", p, ln - 1, cs), root)
                elif kind == "refs":
                    out[tag + ":refs"] = _sorted_list(_norm(srv.pos_request("textDocument/references", p, ln - 1, cs,
                                                                            {"context": {"includeDeclaration": True}}), root))
                elif kind == "hover":
                    out[tag + ":hover"] = _norm(srv.pos_request("textDocument/hover", p, ln - 1, cs), root)
                else:
                    comp = srv.pos_request("textDocument/completion", p, ln - 1, cs)
                    items = comp.get("items") if isinstance(comp, dict) else comp
                    out[tag + ":completion"] = sorted((i.get("label"), i.get("detail")) for i in (items or [])) if isinstance(items, list) else _norm(comp, root)

    for slot in order(sorted(cur)):
        p = uni.paths[slot]
        r = cur[slot]
        for part in order([doc_level, pos_level]):
            part(slot, p, r)
    out["ws:symbols"] = _sorted_list(_norm(srv.request("workspace/symbol", {"query": ""}), root))
    return out


def _write_disk(root, uni_paths, disk_text):
    for slot, text in disk_text.items():
        os.makedirs(os.path.dirname(uni_paths[slot]), exist_ok=True)
        with open(uni_paths[slot], "w") as fh:
            fh.write(text)


def c06_sessions(V, tier):
    cfg = "History_c06_quick.cfg" if tier == "quick" else "History_c06_thorough.cfg"
    meta = C.run_tlc("History", cfg, workers=12, timeout=7200)
    if not meta["ok"]:
        raise C.ToolError("TLC on History/%s failed" % cfg)
    table = H.versions_table(meta)
    C.build_server()
    cases = []
    for case in C.tlc_cases(meta):
        if case["kind"] != "edits":
            continue
        last = {}
        for ev in case["hist"]:
            last[ev["f"]] = ev["v"]
        # the LSP tier takes histories whose final buffers all parse (the library tier covers the others):
        # then "latest valid content" is simply the final text and both servers are asked at the same positions
        if all(table[f][v - 1]["valid"] for f, v in last.items()) and len(case["hist"]) >= 2:
            cases.append(case)
    rnd = random.Random(C.seed() + 606)
    rnd.shuffle(cases)
    # histories touching several documents first (what one document's notification does to ANOTHER document's answers)
    cases.sort(key=lambda c: -len({ev["f"] for ev in c["hist"]}))
    multi = [c for c in cases if len({ev["f"] for ev in c["hist"]}) >= 2]
    rest = [c for c in cases if len({ev["f"] for ev in c["hist"]}) < 2]
    k = 150 if tier == "quick" else 1500
    cases = multi[:k * 4 // 5] + rest[:k - min(len(multi), k * 4 // 5)]
    # beyond TLC's length bound: seeded random histories of 5..9 notifications over the same version table (final buffers
    # parse; okOrder = order of each file's last successful analysis, as History.tla defines it)
    slots = sorted(table)
    for _ in range(40 if tier == "quick" else 600):
        L = rnd.randint(5, 9)
        hist = [{"t": "edit", "f": (f := rnd.choice(slots)), "v": rnd.randint(1, len(table[f])), "n": "-"} for _ in range(L)]
        last, ok_at = {}, {}
        for i, ev in enumerate(hist):
            last[ev["f"]] = ev["v"]
            if table[ev["f"]][ev["v"] - 1]["valid"]:
                ok_at[ev["f"]] = i
        if not all(table[f][v - 1]["valid"] for f, v in last.items()):
            continue
        cases.append({"kind": "edits", "hist": hist, "okOrder": [f for f, _ in sorted(ok_at.items(), key=lambda kv: kv[1])]})
    base = os.path.join(C.BUILD, "ws", "lsphist6-%d" % os.getpid())
    shutil.rmtree(base, ignore_errors=True)

    PAD = "\n" + "# padding: a large generated module\n" * 9000       # ~ 330 KB of comments after the last statement

    def run_one(root, script, final, warm=False, burst=False, reopen=False, reverse=False, prologue=False):
        """script: list of (slot, version); final: slot -> version; warm: every handler is asked about every opened document
        after EVERY notification (answers discarded), so that whatever a handler keeps between requests is populated"""
        uni = H.mk_universe(root)
        vt = H.Versions(uni, table)
        _write_disk(root, uni.paths, {s: vt.text(s, 1) for s in table})     # what is on disk: version 1 of every file
        srv = lsp.Server(timeout=40)
        try:
            srv.initialize(root + "/R")
            if reopen and prologue:
                # an EARLIER editing session on every document of the script: opened with what is on disk, edited three times
                # (document versions 2..4), the last edit restoring the disk text, then closed.  The script then re-opens the
                # documents with the version counter restarted, as clients do.
                for slot in sorted({sl for sl, _ in script}):
                    t0 = vt.text(slot, 1)
                    srv.did_open(uni.paths[slot], t0, version=1)
                    srv.did_change(uni.paths[slot], t0 + "# note\n", version=2)
                    srv.did_change(uni.paths[slot], t0 + "# another note\n", version=3)
                    srv.did_change(uni.paths[slot], t0, version=4)
                    srv.did_close(uni.paths[slot])
            ver = {}
            now = {}
            last_of = {}
            for i, (slot, v) in enumerate(script):
                last_of[slot] = i
            for i, (slot, v) in enumerate(script):
                text = vt.text(slot, v)
                if burst and last_of[slot] != i:
                    text += PAD            # every superseded version is LARGE, the final one small
                if slot not in ver:
                    ver[slot] = 1
                    srv.did_open(uni.paths[slot], text, wait_diag=not burst)
                else:
                    ver[slot] += 1
                    srv.did_change(uni.paths[slot], text, version=ver[slot], wait_diag=not burst)
                now[slot] = vt.r[(slot, v)]
                if warm:
                    ask_everything(srv, root, uni, now)
                if reopen and i + 1 < len(script) and script[i + 1][0] != slot:
                    # the document is closed whenever the next notification is for another one; coming back to it is a didOpen
                    # (saved first: closing a document whose buffer differs from disk is outside C06 / C07)
                    with open(uni.paths[slot], "w") as fh:
                        fh.write(text)
                    srv.did_close(uni.paths[slot])
                    del ver[slot]
            if burst:
                # the notifications went out back to back; wait until one publication per notification arrived, then a beat more
                import time
                deadline = time.time() + 20
                want_n = {}
                for slot, v in script:
                    want_n[slot] = want_n.get(slot, 0) + 1
                while time.time() < deadline and any(len(srv.diagnostics.get(lsp.path_to_uri(uni.paths[sl]), [])) < k for sl, k in want_n.items()):
                    time.sleep(0.05)
                srv.request("workspace/symbol", {"query": "zz"})
                time.sleep(0.4)
            cur = {s: vt.r[(s, v)] for s, v in final.items()}
            return ask_everything(srv, root, uni, cur, reverse=reverse)
        finally:
            srv.close()
            shutil.rmtree(root, ignore_errors=True)

    def session(job):
        n, case = job
        hist = [(ev["f"], ev["v"]) for ev in case["hist"]]
        final = {}
        for f, v in hist:
            final[f] = v
        try:
            long_lived = run_one(os.path.join(base, "L%d" % n), hist, final, warm=(n % 4 in (0, 2)), burst=(n % 4 == 1), reopen=(n % 4 in (2, 3)),
                                 prologue=(n % 8 in (2, 7)))
            fresh = run_one(os.path.join(base, "F%d" % n), [(f, final[f]) for f in case["okOrder"] if f in final], final, reverse=True)
        except (lsp.ServerDied, lsp.Timeout) as e:
            return {"error": str(e)}
        return {"long": long_lived, "fresh": fresh}

    jobs = list(enumerate(cases))
    for (n, case), r in zip(jobs, lsp.run_parallel(jobs, session, workers=6)):
        V.count()
        V.nontriv("lsp" + json.dumps(case["hist"]))
        if r is None or "__exception__" in (r or {}):
            raise C.ToolError("LSP history session failed: %r" % (r,))
        ex = {"hist": case["hist"], "tier": "real binary"}
        if "error" in r:
            V.violation(dict(ex, error=r["error"]), "server died or stopped answering during an edit history")
            continue
        # published diagnostics are a snapshot taken when the document was notified: C06 / C19 speak about the document changed
        # LAST only (the others' last publication legitimately reflects the index as it was then)
        last_slot = case["hist"][-1]["f"]
        diff = sorted(k for k in set(r["long"]) | set(r["fresh"]) if r["long"].get(k) != r["fresh"].get(k)
                      and not (k.endswith(":diag") and k != last_slot + ":diag"))
        if diff:
            k = diff[0]
            V.violation(dict(ex, differing_answers=diff[:12], first={"key": k, "long_lived": r["long"].get(k), "fresh": r["fresh"].get(k)}),
                        "after an edit history the real server answers differently from a server started fresh on the latest contents")
    shutil.rmtree(base, ignore_errors=True)
    return len(jobs)


def c07_sessions(V, tier, family="main"):
    """family "main": conftest / helper / test (History_c07_*); "chain": two conftests sharing a re-exporting module, two test
    files (History_c07chain_*) -- there a name is defined in several files, so anything that re-registers a file's definitions
    (for instance a hidden re-analysis when a document is closed) changes order-dependent answers for OTHER documents"""
    cfg = {"main": "History_c07_%s.cfg", "chain": "History_c07chain_%s.cfg"}[family] % tier
    mk_uni = {"main": H.mk_universe, "chain": H.mk_universe2}[family]
    test_files = {"main": ("t",), "chain": ("t0", "t1")}[family]
    meta = C.run_tlc("History", cfg, workers=12, timeout=7200)
    if not meta["ok"]:
        raise C.ToolError("TLC on History/%s failed" % cfg)
    table = H.versions_table(meta)
    disk = {}
    for payload in C.tlc_cases(meta, prefix="DISK"):
        disk = payload
    C.build_server()
    cases = []
    for case in C.tlc_cases(meta):
        if case["kind"] != "query":
            continue
        hist = case["hist"]
        if any(e["t"] not in ("edit", "avail", "goto", "close", "open") for e in hist) or not any(e["t"] in ("close", "avail", "goto", "open") for e in hist[:-1]):
            continue
        if any(e["t"] == "avail" and e["f"] not in test_files for e in hist):
            continue
        if any(e["t"] == "edit" and not table[e["f"]][e["v"] - 1]["valid"] for e in hist):
            continue
        cases.append(case)
    rnd = random.Random(C.seed() + 707)
    rnd.shuffle(cases)
    if family == "chain":
        # histories in which an UNMODIFIED document is closed between an edit and the final query come first
        # (closed: a conftest / module, not the edited file; the final query is a go-to-definition): ALL of those run
        def is_pri(c):
            # a conftest / module is opened, ANOTHER file is edited while it is open, then it is closed, then go-to-definition:
            # whatever closing does to the closed file's place in the index shows in the other documents' answers
            h = c["hist"]
            if h[-1]["t"] != "goto":
                return False
            for i, a in enumerate(h[:-1]):
                if a["t"] == "open" and a["f"] not in test_files:
                    for j in range(i + 1, len(h) - 1):
                        if h[j]["t"] == "edit" and h[j]["f"] != a["f"]:
                            if any(b["t"] == "close" and b["f"] == a["f"] for b in h[j + 1:-1]):
                                return True
            return False
        pri = [c for c in cases if is_pri(c)]
        rest = [c for c in cases if not is_pri(c)]
        cases = pri[:400 if tier == "quick" else 4000] + rest[:40 if tier == "quick" else 400]
    else:
        cases = cases[:90 if tier == "quick" else 1200]
    base = os.path.join(C.BUILD, "ws", "lsphist7%s-%d" % (family, os.getpid()))
    shutil.rmtree(base, ignore_errors=True)

    def run_one(root, hist, cold, prologue=False):
        uni = mk_uni(root)
        vt = H.Versions(uni, table)
        disk_r = {s: R.render_checked(uni, s, m) for s, m in disk.items()}
        _write_disk(root, uni.paths, {s: r.text for s, r in disk_r.items()})
        srv = lsp.Server(timeout=40)
        try:
            srv.initialize(root + "/R")
            cur = dict(disk_r)
            if prologue and not cold:
                # an earlier editing session on every document the history edits (see c06_sessions): net effect nothing
                for f in sorted({ev["f"] for ev in hist if ev["t"] == "edit"}):
                    t0 = disk_r[f].text if f in disk_r else ""
                    srv.did_open(uni.paths[f], t0, version=1)
                    srv.did_change(uni.paths[f], t0 + "# note\n", version=2)
                    srv.did_change(uni.paths[f], t0 + "# another note\n", version=3)
                    srv.did_change(uni.paths[f], t0, version=4)
                    srv.did_close(uni.paths[f])
            opened, ver = set(), {}
            ans = None
            for i, ev in enumerate(hist):
                fin = i == len(hist) - 1
                t, f = ev["t"], ev["f"]
                p = uni.paths[f]
                if t == "close":
                    # a document must be open to be closed: the (implicit) didOpen of the unmodified document is a state-changing
                    # event both twins perform (what it may do to order-dependent answers is judged at library level through the
                    # model's "open" event); only the didClose itself is what the cold twin never sees
                    if f not in opened:
                        srv.did_open(p, cur[f].text)
                    if not cold:
                        srv.did_close(p)
                    else:
                        opened.add(f)
                        ver.setdefault(f, 1)
                    if not cold:
                        opened.discard(f)
                # the cold twin performs the state-changing events: edits and didOpen of unmodified documents (a re-analysis; what
                # THAT does to order-dependent answers is judged at library level through the model's "open" event)
                if cold and not fin and t not in ("edit", "open"):
                    continue
                if t == "edit":
                    cur[f] = vt.r[(f, ev["v"])]
                    if f in opened:
                        ver[f] += 1
                        srv.did_change(p, cur[f].text, version=ver[f])
                    else:
                        opened.add(f)
                        ver[f] = 1
                        srv.did_open(p, cur[f].text)
                elif t == "open":
                    # didOpen of an unmodified document (History.tla models it as the re-analysis it is; warm twin only)
                    if f not in opened:
                        opened.add(f)
                        ver[f] = 1
                        srv.did_open(p, cur[f].text)
                elif t == "close":
                    ans = None
                elif t in ("avail", "goto"):
                    r = cur[f]
                    pos = None
                    for key, (ln, cs, ce) in sorted(r.use_pos.items()):
                        if key[1] == "p" and (t == "avail" or r.text.split("\n")[ln - 1][cs:ce] == ev["n"]):
                            pos = (ln - 1, cs)
                            break
                    if pos is None:
                        ans = "no-position"
                        continue
                    if t == "goto":
                        ans = _norm(srv.pos_request("textDocument/definition", p, pos[0], pos[1]), root)
                    else:
                        comp = srv.pos_request("textDocument/completion", p, pos[0], pos[1])
                        items = comp.get("items") if isinstance(comp, dict) else comp
                        ans = sorted((i.get("label"), i.get("detail")) for i in (items or [])) if isinstance(items, list) else _norm(comp, root)
            return ans
        finally:
            srv.close()
            shutil.rmtree(root, ignore_errors=True)

    def session(job):
        n, case = job
        try:
            return {"warm": run_one(os.path.join(base, "W%d" % n), case["hist"], False, prologue=(n % 2 == 1)),
                    "cold": run_one(os.path.join(base, "K%d" % n), case["hist"], True)}
        except (lsp.ServerDied, lsp.Timeout) as e:
            return {"error": str(e)}

    jobs = list(enumerate(cases))
    for (n, case), r in zip(jobs, lsp.run_parallel(jobs, session, workers=6)):
        V.count()
        V.nontriv("lsp" + json.dumps(case["hist"]))
        if r is None or "__exception__" in (r or {}):
            raise C.ToolError("LSP history session failed: %r" % (r,))
        ex = {"hist": case["hist"], "tier": "real binary"}
        if "error" in r:
            V.violation(dict(ex, error=r["error"]), "server died or stopped answering during a history of edits, queries and closes")
        elif r["warm"] != r["cold"]:
            V.violation(dict(ex, warm=r["warm"], cold=r["cold"]),
                        "the real server, after earlier queries / closing documents, answers differently from a twin that saw only the edits")
    shutil.rmtree(base, ignore_errors=True)
    return len(jobs)
