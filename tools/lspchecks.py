"""Checks that drive the REAL server binary over stdio: C19 (diagnostics track latest content and
configuration).  Histories x configuration variants are enumerated by TLC from spec/Lsp.tla; the
published notifications are compared with the specification's expectation (codes) and with a
library-level twin analysis of the same contents (positions and counts)."""
import hashlib
import json
import re
import os
import random
import shutil

import common as C
import lsp

C_TEXT = {
    1: 'import pytest\n\n\n@pytest.fixture\ndef a():\n    return 1\n\n\n@pytest.fixture(scope="session")\ndef s(a):\n    return a\n',
    2: 'import pytest\n\n\n@pytest.fixture\ndef a(b):\n    return b\n\n\n@pytest.fixture\ndef b(a):\n    return a\n',
    3: 'import pytest\n\n\n@pytest.fixture\ndef a():\n    return 1\n',
    4: 'import pytest\n',
    5: 'import pytest\n\n\n@pytest.fixture\ndef a(b):\n    return b\n\n\n@pytest.fixture\ndef b():\n    return 1\n',
    6: 'import pytest\n\n\n@pytest.fixture\ndef a():\n    return 1\n\n\n@pytest.fixture\ndef b():\n    return 2\n\n\n'
       '@pytest.fixture(scope="session")\ndef s(a, b):\n    return a\n',
}
T_TEXT = {
    1: 'def test_1():\n    result = a.value\n    assert result\n',
    2: 'def test_1(a):\n    assert a\n',
    3: 'import pytest\n\n\n@pytest.fixture(scope="session")\ndef f(a):\n    return a\n\n\ndef test_1(f):\n    assert f\n',
    4: 'def test_1(:\n    result = a.value\n',
}
TEXT = {"c": C_TEXT, "t": T_TEXT}
FNAME = {"c": "conftest.py", "t": "test_t.py"}
CODES = ["undeclared-fixture", "circular-dependency", "scope-mismatch"]


def pyproject(cfg):
    k = cfg["kind"]
    codes = list(cfg["codes"] or [])
    lst = ", ".join('"%s"' % c for c in codes)
    if k == "absent":
        return None
    if k == "nosection":
        return b'[tool.other]\nx = 1\n'
    if k == "valid":
        return ('[tool.pytest-language-server]\ndisabled_diagnostics = [%s]\n' % lst).encode()
    if k == "quoted":
        return ('[tool."pytest-language-server"]\ndisabled_diagnostics = [%s]\n' % lst).encode()
    if k == "spaced":
        return ('[ tool . pytest-language-server ]\ndisabled_diagnostics = [%s]\n' % lst).encode()
    if k == "dotted":
        return ('[tool]\npytest-language-server.disabled_diagnostics = [%s]\n' % lst).encode()
    if k == "unknown":
        lst2 = ", ".join(['"bogus-code"'] + ['"%s"' % c for c in codes] + ['"Scope-Mismatch"'])
        return ('[tool.pytest-language-server]\ndisabled_diagnostics = [%s]\n' % lst2).encode()
    if k == "badglob":
        return ('[tool.pytest-language-server]\nexclude = ["[invalid", "build_out/**"]\ndisabled_diagnostics = [%s]\n' % lst).encode()
    if k == "malformed":
        return b'[tool.pytest-language-server\ndisabled_diagnostics = ["scope-mismatch"\n'
    if k == "nonutf8":
        return b'\xff\xfe[tool.pytest-language-server]\ndisabled_diagnostics = ["scope-mismatch"]\n'
    raise C.ToolError("unknown cfg kind %r" % k)


def diag_key(d):
    r = d["range"]
    return (d.get("code"), r["start"]["line"], r["start"]["character"], r["end"]["character"])


def check_c19(tier):
    V = C.Verdict("C19", tier, "model_checking")
    cfgf = "Lsp_quick.cfg" if tier == "quick" else "Lsp_thorough.cfg"
    meta = C.run_tlc("Lsp", cfgf, workers=8, timeout=3600)
    if not meta["ok"]:
        raise C.ToolError("TLC on Lsp/%s failed: %s" % (cfgf, meta["errors"]))
    C.build_harness()
    C.build_server()
    cases = list(C.tlc_cases(meta))
    expect = {}
    for c in cases:
        expect[(json.dumps(c["cfg"], sort_keys=True), json.dumps(c["hist"]))] = (set(c["expect"] or []), set(c["disabled"] or []))
    # only maximal histories are replayed; every prefix is checked on the way
    keys = set(expect)
    maximal = []
    for c in cases:
        ck = json.dumps(c["cfg"], sort_keys=True)
        ext = False
        for d in ("c", "t"):
            for v in (1, 2, 3, 4, 5, 6):
                if (ck, json.dumps(c["hist"] + [{"d": d, "v": v}])) in keys:
                    ext = True
                    break
            if ext:
                break
        if not ext:
            maximal.append(c)
    base = os.path.join(C.BUILD, "ws", "c19-%d" % os.getpid())
    shutil.rmtree(base, ignore_errors=True)

    # ---- library twin: expected (code, line, cols) per (history prefix), independent of config
    twin_cases = []
    twin_index = {}
    for c in maximal:
        hist = c["hist"]
        for k in range(1, len(hist) + 1):
            hk = json.dumps(hist[:k])
            if hk in twin_index:
                continue
            pre = hist[:k]
            last = pre[-1]
            order = []
            for ev in pre:
                if ev["d"] in order:
                    order.remove(ev["d"])
                order.append(ev["d"])
            # the document changed last is analysed last; others keep the order of their last notification
            ops = []
            if last["d"] == "t" and last["v"] == 4:
                # unparsable latest text: undeclared findings are those of the last successful analysis,
                # i.e. the fresh server receives the same notifications in the same order
                order = []
                for ev in pre:
                    ops.append({"op": "analyze", "path": "/vws19/%s" % FNAME[ev["d"]], "text": TEXT[ev["d"]][ev["v"]]})
            for d in order:
                vs = [ev["v"] for ev in pre if ev["d"] == d]
                valid = [v for v in vs if not (d == "t" and v == 4)]
                path = "/vws19/%s" % FNAME[d]
                if valid:
                    ops.append({"op": "analyze", "path": path, "text": TEXT[d][valid[-1]]})
                if vs[-1] != (valid[-1] if valid else None):
                    ops.append({"op": "analyze", "path": path, "text": TEXT[d][vs[-1]]})
            path = "/vws19/%s" % FNAME[last["d"]]
            n0 = len(ops)
            ops += [{"op": "undeclared", "path": path}, {"op": "cycles_in_file", "path": path},
                    {"op": "scope_mismatch", "path": path}, {"op": "snapshot", "full": True}]
            twin_index[hk] = (len(twin_cases), n0, path)
            twin_cases.append({"id": len(twin_cases), "ops": ops})
    twin_res = list(C.run_harness(twin_cases))

    def twin_expected(hist_prefix):
        i, n0, path = twin_index[json.dumps(hist_prefix)]
        r = twin_res[i]["res"]
        und, cyc, mis, snap = r[n0], r[n0 + 1], r[n0 + 2], r[n0 + 3]
        out = []            # a MULTISET: one entry per finding (two findings may share code and range)
        for u in und:
            out.append(("undeclared-fixture", u["line"] - 1, u["sc"], u["ec"]))
        defs = {(d["file"], d["line"], d["name"]): d for lst in snap["defs"].values() for d in lst}
        for cy in cyc:
            d = defs[(cy["fixture"]["file"], cy["fixture"]["line"], cy["fixture"]["name"])]
            out.append(("circular-dependency", d["line"] - 1, d["sc"], d["ec"]))
        for m in mis:
            d = defs[(m["fixture"]["file"], m["fixture"]["line"], m["fixture"]["name"])]
            out.append(("scope-mismatch", d["line"] - 1, d["sc"], d["ec"]))
        return sorted(out)

    def session(job):
        n, c = job
        reopen = n >= len(maximal)       # second pass: close a document whenever the next notification is for the other one
        root = os.path.join(base, "s%d" % n)
        # how the client NAMES the workspace: one session in five reaches it through a symbolic link (root and document URIs
        # carry the link's name); the notifications must come back for exactly the URIs the client opened
        hk = int(hashlib.md5(json.dumps([c["cfg"], c["hist"], reopen], sort_keys=True, default=sorted).encode()).hexdigest(), 16) % 5
        if hk == 0:
            os.makedirs(root + "-real", exist_ok=True)
            os.symlink(root + "-real", root)
            # the documents EXIST on disk there (empty of fixtures and tests), so that the server can resolve their real location
            for fn in FNAME.values():
                with open(os.path.join(root + "-real", fn), "w") as fh:
                    fh.write("# saved empty\n")
        elif hk == 1:
            # another session in five: a folder name that URIs can spell in several legal ways (space, parentheses, a non-ASCII
            # letter, `+`, `'`); this client percent-encodes everything but unreserved characters; documents exist on disk
            root = os.path.join(root, "proj (copy) caf\u00e9 a+b 'x'")
            os.makedirs(root, exist_ok=True)
            for fn in FNAME.values():
                with open(os.path.join(root, fn), "w") as fh:
                    fh.write("# saved empty\n")
        else:
            os.makedirs(root, exist_ok=True)
        pp = pyproject(c["cfg"])
        if pp is not None:
            with open(os.path.join(root, "pyproject.toml"), "wb") as fh:
                fh.write(pp)
        trace = []
        srv = lsp.Server(trace=trace)
        srv.meta["cfg"] = {"kind": c["cfg"]["kind"], "codes": sorted(c["cfg"]["codes"])}
        out = []
        try:
            srv.initialize(root)
            opened = set()
            ver = 0
            for i, ev in enumerate(c["hist"]):
                path = os.path.join(root, FNAME[ev["d"]])
                ver += 1
                if ev["d"] in opened:
                    diags = srv.did_change(path, TEXT[ev["d"]][ev["v"]], version=ver, tag=[ev["d"], ev["v"]])
                else:
                    diags = srv.did_open(path, TEXT[ev["d"]][ev["v"]], version=ver, tag=[ev["d"], ev["v"]])
                    opened.add(ev["d"])
                out.append([diag_key(d) for d in diags])
                if reopen and i + 1 < len(c["hist"]) and c["hist"][i + 1]["d"] != ev["d"]:
                    srv.did_close(path)
                    opened.discard(ev["d"])
            alive = srv.alive()
        except (lsp.ServerDied, lsp.Timeout) as e:
            return {"error": str(e), "published": out}
        finally:
            srv.close()
            if os.path.islink(root):
                os.unlink(root)
                shutil.rmtree(root + "-real", ignore_errors=True)
            shutil.rmtree(os.path.join(base, "s%d" % n), ignore_errors=True)
        return {"published": out, "alive": alive}

    # second pass (close / reopen): histories that come back to a document after the other one was notified
    back = [c for c in maximal if len(c["hist"]) >= 3 and c["hist"][-1]["d"] == c["hist"][0]["d"] and
            any(e["d"] != c["hist"][0]["d"] for e in c["hist"][1:-1])]
    rnd2 = random.Random(C.seed() + 19)
    rnd2.shuffle(back)
    back = back[:200 if tier == "quick" else 3000]
    jobs = list(enumerate(maximal + back))
    import lsptrace
    lsptrace.start()
    results = lsp.run_parallel(jobs, session, workers=8)
    # B2: every session's message log is a behaviour of LspTrace.tla (protocol obligations + Lsp.tla's Notify per notification)
    n_trace_events = lsptrace.validate_collected(V, what="C19 sessions: histories x configuration variants, incl. the close / reopen pass")
    sessions = 0
    for (jn, c), res in zip(jobs, results):
        sessions += 1
        ck = json.dumps(c["cfg"], sort_keys=True)
        if res is None or "__exception__" in res:
            raise C.ToolError("LSP session failed: %r" % (res,))
        if "error" in res:
            V.violation({"cfg": c["cfg"], "hist": c["hist"], "error": res["error"]},
                        "server died or did not publish diagnostics after a notification")
            continue
        for k in range(1, len(c["hist"]) + 1):
            pre = c["hist"][:k]
            V.count()
            exp_codes, disabled = expect[(ck, json.dumps(pre))]
            pub = res["published"][k - 1]
            pub_set = sorted(map(tuple, pub))
            twin = [x for x in twin_expected(pre) if x[0] not in disabled]
            if len(pre) >= 2 or c["cfg"]["kind"] != "absent":
                V.nontriv((ck, json.dumps(pre)))
            ex = {"cfg": c["cfg"], "pyproject": (pyproject(c["cfg"]) or b"").decode("latin-1"), "hist": pre,
                  "documents_closed_between_notifications": jn >= len(maximal),
                  "published": [list(x) for x in pub_set], "expected_codes": sorted(exp_codes),
                  "library_twin": [list(x) for x in twin],
                  "texts": [[e["d"], TEXT[e["d"]][e["v"]]] for e in pre]}
            if {x[0] for x in twin} != exp_codes:
                # the concrete texts do not have the causes the specification attributes to them
                raise C.ToolError("Lsp.tla expectation %r and library twin %r disagree for %r"
                                  % (sorted(exp_codes), sorted(twin), pre))
            if pub_set != twin:
                V.violation(ex, "published diagnostics differ from the findings of the latest content minus disabled codes "
                                "(every finding once: compared as multisets of (code, range))")
    shutil.rmtree(base, ignore_errors=True)
    V.sample({"cfg": maximal[0]["cfg"], "hist": maximal[0]["hist"], "published": results[0].get("published")})
    V.sample({"cfg": maximal[-1]["cfg"], "hist": maximal[-1]["hist"], "published": results[-1].get("published")})
    cov = {"states": meta["distinct"], "transitions": meta["transitions"], "traces_validated_against_impl": sessions,
           "tlc": {"module": "Lsp", "cfg": cfgf, "wall_s": meta["wall_s"], "cached": meta.get("cached", False)},
           "exhaustive": True}
    return V.finish(
        coverage_extra=cov,
        rule="TLC enumerates every history of didOpen/didChange over {conftest.py, test_t.py} x 4 versions each "
             "(introducing and removing each cause: undeclared use, cycle, scope mismatch; unparsable text) up to the "
             "length bound, for every configuration variant (absent, no section, every subset of disabled codes, unknown "
             "code among valid ones, invalid glob among valid ones, malformed TOML, non-UTF-8); every maximal history "
             "is one session of the real binary over stdio; after each notification the published set is compared with "
             "the specification's codes and a library-level twin analysis; non-trivial = history of length >= 2 or a "
             "configuration file present",
        assumptions=["a configuration value of the wrong TYPE is not judged (statement lists unknown codes, invalid globs, unparsable file)",
                     "documents are sent by didOpen/didChange only (nothing on disk besides pyproject.toml)"])


# ------------------------------------------------------------------------------------------- C17
import ast as _ast  # noqa: E402

USE_EXPR = {"call_target": "fx()", "arg": "print(fx)", "attr": "fx.value", "binop": "fx + 1", "unary": "-fx", "compare": "fx == 1",
            "boolop": "fx and 1", "subscript": "fx[0]", "index": "data[fx]", "list": "[fx]", "tuple": "(fx, 1)",
            "dict_value": "{1: fx}", "set": "{fx}", "kwarg": "print(sep=fx)", "fstring": 'f"{fx}"', "ifexp": "1 if fx else 2",
            "starred": "print(*fx)", "await": "await fx"}
FIX_TXT = "import pytest\n\n\n@pytest.fixture\ndef fx():\n    return 1\n"


def ctx_lines(ctx, e):
    return {"expr": [e], "assign": ["v = " + e], "augassign": ["total = 0", "total += " + e], "return": ["return " + e],
            "if_test": ["if %s:" % e, "    pass"], "while_test": ["while %s:" % e, "    break"],
            "for_iter": ["for _ in %s:" % e, "    pass"], "with_ctx": ["with %s:" % e, "    pass"], "assert": ["assert " + e],
            "in_if_body": ["if True:", "    " + e], "in_for_body": ["for _ in range(1):", "    " + e],
            "in_with_body": ["with open('f'):", "    " + e], "in_try_body": ["try:", "    " + e, "finally:", "    pass"],
            "in_else_body": ["if False:", "    pass", "else:", "    " + e], "in_while_body": ["while True:", "    " + e, "    break"]}[ctx]


def c17_files(cs):
    """-> (files dict path->text in analysis order, test path, expected (line0, col) of the use or None)"""
    vis, bind, use = cs["vis"], cs["bind"], cs["use"]
    files = {}
    root = "/vws17/R"
    tpath = root + "/t/test_c.py"
    if vis in ("conftest", "module_level_name", "imported_name", "module_function"):
        files[root + "/t/conftest.py"] = FIX_TXT
    elif vis == "parent_conftest":
        files[root + "/conftest.py"] = FIX_TXT
    elif vis == "sibling_conftest":
        files[root + "/s/conftest.py"] = FIX_TXT
    elif vis == "sibling_prefix_conftest":
        # the conftest's directory name is a textual prefix of the test's directory name (t vs t_e2e)
        files[root + "/t/conftest.py"] = FIX_TXT
        tpath = root + "/t_e2e/test_c.py"
    elif vis == "imported_by_conftest":
        files[root + "/t/helperx.py"] = FIX_TXT
        files[root + "/t/conftest.py"] = "import pytest\nfrom .helperx import *\n"
    elif vis == "third_party":
        files["/vws17/venv/lib/python3.11/site-packages/tp/plugin.py"] = FIX_TXT
    head = ["import pytest", "data = {}"]
    if vis == "same_file_late":
        files[root + "/t/conftest.py"] = "import pytest\n\n\n@pytest.fixture\ndef zz_other():\n    return 0\n"
        head += ["", "", "def test_early(a):", "    zz_other.value", "", "", "@pytest.fixture", "def fx():", "    return 1"]
    if vis == "same_file":
        head += ["", "", "@pytest.fixture", "def fx():", "    return 1"]
    if vis == "module_level_name":
        head += ["fx = 3"]
    if vis == "imported_name":
        head += ["from os import path as fx"]
    if vis == "module_function":
        head += ["", "", "def fx():", "    return 0"]
    head += ["", ""]
    e = USE_EXPR[use]
    is_async = use == "await"
    body = []
    use_stmt = ctx_lines(cs["ctx"], e)
    if bind == "none":
        body = use_stmt
    elif bind == "assign_before":
        body = ["fx = 1"] + use_stmt
    elif bind == "assign_after":
        body = use_stmt + ["fx = 1"]
    elif bind == "assign_same_line":
        body = ["fx = " + e]
    elif bind == "tuple_before":
        body = ["fx, other = 1, 2"] + use_stmt
    elif bind == "for_target":
        body = ["for fx in range(2):"] + ["    " + l for l in use_stmt]
    elif bind == "with_as":
        body = ["with open('f') as fx:"] + ["    " + l for l in use_stmt]
    elif bind == "annassign_before":
        body = ["fx: int = 1"] + use_stmt
    elif bind == "augassign_before":
        body = ["fx += 1"] + use_stmt
    elif bind == "walrus_before":
        body = ["print(fx := 1)"] + use_stmt
    elif bind == "except_as":
        body = ["try:", "    pass", "except Exception as fx:"] + ["    " + l for l in use_stmt]
    elif bind == "import_in_fn":
        body = ["import os as fx"] + use_stmt
    elif bind == "nested_def":
        body = ["def fx():", "    return 1"] + use_stmt
    elif bind == "global_decl":
        body = ["global fx"] + use_stmt
    elif bind in ("match_capture", "match_as", "match_star"):
        pat = {"match_capture": 'case {"status": fx, **rest}:', "match_as": "case [_, *_] as fx:", "match_star": "case [first, *fx]:"}[bind]
        body = ["match data:", "    " + pat] + ["        " + l for l in use_stmt] + ["    case _:", "        pass"]
    sig = {"param": "a, fx", "param_default": "a, fx=3", "param_annotated": "a, fx: int", "param_posonly": "fx, /, a",
           "param_kwonly": "a, *, fx", "param_kwonly_default": "a, *, fx=\"x\"", "param_vararg": "a, *fx", "param_kwarg": "a, **fx"}.get(bind, "a")
    if bind in ("param", "param_default", "param_annotated", "param_posonly", "param_kwonly", "param_kwonly_default", "param_vararg", "param_kwarg"):
        body = use_stmt
    deco = ['@pytest.mark.usefixtures("fx")'] if bind == "usefixtures_mark" else []
    if bind == "usefixtures_mark":
        body = use_stmt
    lines = head + deco + [("async " if is_async else "") + "def test_t(%s):" % sig] + ["    " + l for l in body] + ["", ""]
    text = "\n".join(lines) + "\n"
    # position of the use: the occurrence of `fx` inside the use expression
    pos = None
    for i, l in enumerate(lines):
        if e in l and i > len(head):
            col = l.index(e) + e.index("fx")
            pos = (i, col)
            break
    files[tpath] = text
    return files, tpath, pos


SHAPES = {
    "no_params": (["def test_t():"], None), "one_param": (["def test_t(a):"], None), "many_params": (["def test_t(a, b, c):"], None),
    "default_param": (["def test_t(a=1):"], None), "annotated_param": (["def test_t(a: int):"], None),
    "return_annot": (["def test_t() -> None:"], None), "return_annot_params": (["def test_t(a) -> None:"], None),
    "multiline": (["def test_t(", "    a,", "    b", "):"], None),
    "multiline_trailing_comma": (["def test_t(", "    a,", "    b,", "):"], None),
    "trailing_comma": (["def test_t(a, ):"], None),
    "method": (["class TestK:", "    def test_t(self):"], "    "),
    "async_fn": (["async def test_t(a):"], None), "decorated": (["@pytest.mark.skip", "def test_t(a):"], None),
    "star_args": (["def test_t(*args):"], None), "kwargs": (["def test_t(**kw):"], None), "kwonly": (["def test_t(*, a):"], None),
    "comment_after_colon": (["def test_t(a):  # note"], None),
    "comment_with_parens": (["def test_t(a):  # slow (network, client) :)"], None),
    "nested_helper": (["def test_t(a):", "    def attempt(n):"], "    "),
    "fixture_fn": (["@pytest.fixture", "def test_t(a):"], None),
    "followed_by_other_fn": (["def test_t() -> None:"], None),
}


MULTI = {
    "multi_same_named_methods": ["class TestA:", "    def test_t(self):", "        %s", "", "", "class TestB:", "    def test_t(self, a):", "        %s", ""],
    "multi_two_functions": ["def test_t():", "    %s", "", "", "def test_u(a):", "    %s", ""],
    "multi_two_uses": ["def test_t(a):", "    %s", "    y = 2", "    %s", ""],
}


def c17_fix_text(cs):
    if cs["shape"] in MULTI:
        e = USE_EXPR[cs["use"]]
        return "\n".join(["import pytest", "", ""] + [l % e if "%s" in l else l for l in MULTI[cs["shape"]]]) + "\n"
    sig, ind = SHAPES[cs["shape"]]
    ind = ind or ""
    e = USE_EXPR[cs["use"]]
    lines = ["import pytest", "", ""] + sig + [ind + "    " + e, ind + "    ", ind + "    x = 1", "", "",
                                               "def test_other(z):", "    pass", ""]
    return "\n".join(lines) + "\n"


def apply_edits(text, edits):
    lines = text.split("\n")
    for ed in sorted(edits, key=lambda e: (e["range"]["start"]["line"], e["range"]["start"]["character"]), reverse=True):
        s, en = ed["range"]["start"], ed["range"]["end"]
        if s["line"] >= len(lines) or en["line"] >= len(lines):
            return None
        before = lines[s["line"]][:s["character"]]
        after = lines[en["line"]][en["character"]:]
        new = (before + ed["newText"] + after).split("\n")
        lines[s["line"]:en["line"] + 1] = new
    return "\n".join(lines)


def fn_params(tree, name):
    for n in _ast.walk(tree):
        if isinstance(n, (_ast.FunctionDef, _ast.AsyncFunctionDef)) and n.name == name:
            a = n.args
            return [x.arg for x in a.posonlyargs + a.args + a.kwonlyargs]
    return None


def others_dump(tree, name):
    out = []
    for n in _ast.walk(tree):
        if isinstance(n, (_ast.FunctionDef, _ast.AsyncFunctionDef)) and n.name != name:
            out.append(_ast.dump(n))
    return out


def check_c17(tier):
    V = C.Verdict("C17", tier, "model_checking")
    C.build_harness()
    C.build_server()
    metas = {}
    for g in ("use", "bind", "fix"):
        m = C.run_tlc("Undeclared", "Undeclared_%s.cfg" % g, workers=4, timeout=3600)
        if not m["ok"]:
            raise C.ToolError("TLC on Undeclared/%s failed: %s" % (g, m["errors"]))
        metas[g] = m
    # ---- precision and recall of the warning (library level: analysis of the test file LAST)
    lib_cases = [c for g in ("use", "bind") for c in C.tlc_cases(metas[g])]
    hcases, info = [], []
    for c in lib_cases:
        files, tpath, pos = c17_files(c["cs"])
        try:
            _ast.parse(files[tpath])
        except SyntaxError as e:
            raise C.ToolError("C17 renderer produced invalid Python (%s):\n%s" % (e, files[tpath]))
        ops = [{"op": "analyze", "path": p, "text": t} for p, t in files.items()]
        ops.append({"op": "undeclared", "path": tpath})
        hcases.append({"id": len(hcases), "ops": ops})
        info.append((c, files, tpath, pos))
    for (c, files, tpath, pos), res in zip(info, C.run_harness(hcases)):
        cs = c["cs"]
        V.count()
        V.nontriv(json.dumps(cs, sort_keys=True))
        und = res["res"][-1]
        ex = {"case": cs, "verdict": c["verdict"], "reported": und, "text": files[tpath]}
        if not isinstance(und, list):
            V.violation(ex, "analysis panicked")
            continue
        hits = [u for u in und if u["name"] == "fx"]
        if c["verdict"] == "noflag" and hits:
            V.classify(c17_dev(cs, "false_positive"), ex, "an undeclared-fixture warning is issued for a name that must not be flagged")
        elif c["verdict"] == "flag":
            want = (pos[0] + 1, pos[1], pos[1] + 2)
            got = [(u["line"], u["sc"], u["ec"]) for u in hits]
            if got != [want]:
                V.classify(c17_dev(cs, "missed" if not got else "position"), dict(ex, expected_position=want),
                           "a plain use of a visible undeclared fixture is not flagged exactly once at its position")
    # ---- the quick fix and the completion parameter edit (real binary)
    fix_cases = list(C.tlc_cases(metas["fix"]))
    base = os.path.join(C.BUILD, "ws", "c17-%d" % os.getpid())
    shutil.rmtree(base, ignore_errors=True)

    def session(job):
        n, c = job
        root = os.path.join(base, "s%d" % n)
        os.makedirs(root, exist_ok=True)
        text = c17_fix_text(c["cs"])
        cpath, tpath = os.path.join(root, "conftest.py"), os.path.join(root, "test_c.py")
        srv = lsp.Server()
        out = {"text": text}
        try:
            srv.initialize(root)
            srv.did_open(cpath, FIX_TXT + "\n\n@pytest.fixture\ndef z():\n    return 2\n")
            diags = srv.did_open(tpath, text)
            if c["cs"]["shape"] in MULTI:
                und = [d for d in diags if d.get("code") == "undeclared-fixture"]
                nl = text.count("\n")
                acts = srv.request("textDocument/codeAction", {"textDocument": {"uri": lsp.path_to_uri(tpath)},
                                                               "range": {"start": {"line": 0, "character": 0}, "end": {"line": nl, "character": 0}},
                                                               "context": {"diagnostics": und}}) or []
                out["multi"] = {"diags": und, "actions": acts}
                allt = text
                edits = []
                for a in acts:
                    for k, v in ((a.get("edit") or {}).get("changes") or {}).items():
                        edits += v
                # identical edits (two warnings of one function) are applied once
                uniq = []
                for e in edits:
                    if e not in uniq:
                        uniq.append(e)
                new = apply_edits(allt, uniq)
                out["multi"]["fixed_text"] = new
                if new is not None:
                    out["multi"]["diags_after"] = srv.did_change(tpath, new)
                out["alive"] = srv.alive()
                return out
            use_line = next(i for i, l in enumerate(text.split("\n")) if USE_EXPR[c["cs"]["use"]] in l)
            und = [d for d in diags if d.get("code") == "undeclared-fixture" and d["range"]["start"]["line"] == use_line]
            out["diags"] = und
            out["use_line"] = use_line
            if und:
                acts = srv.request("textDocument/codeAction", {"textDocument": {"uri": lsp.path_to_uri(tpath)},
                                                               "range": und[0]["range"], "context": {"diagnostics": [und[0]]}})
                out["actions"] = acts
            # completion inside the body (the line holding only indentation)
            lines = text.split("\n")
            bl = next(i for i, l in enumerate(lines) if l.strip() == "" and l != "" and i > 3)
            comp = srv.pos_request("textDocument/completion", tpath, bl, len(lines[bl]))
            items = comp if isinstance(comp, list) else (comp or {}).get("items", [])
            out["completion_fx"] = [it for it in items if it.get("label") == "fx"]
            # apply the quick fix, re-send, collect diagnostics again
            if und and out.get("actions"):
                uri = lsp.path_to_uri(tpath)
                edits = None
                for a in out["actions"]:
                    ch = (a.get("edit") or {}).get("changes") or {}
                    for k, v in ch.items():
                        edits = v
                if edits is not None:
                    new = apply_edits(text, edits)
                    out["fixed_text"] = new
                    if new is not None:
                        out["diags_after"] = srv.did_change(tpath, new)
            # a client that is LATE: it asks for code actions with the warning it received for an EARLIER version of the document
            # (a) after the fix has been applied, (b) after a function was inserted above, exactly where test_t's def line was
            stale = {}
            if und:
                def ask_old():
                    return srv.request("textDocument/codeAction", {"textDocument": {"uri": lsp.path_to_uri(tpath)},
                                                                   "range": und[0]["range"], "context": {"diagnostics": [und[0]]}}) or []
                if out.get("fixed_text") and isinstance(out.get("diags_after"), list):
                    stale["the fix was already applied"] = {"text": out["fixed_text"], "actions": ask_old()}
                dl = next((i for i, l in enumerate(lines) if l.startswith(("def test_t(", "async def test_t("))), None)
                if dl is not None and not lines[dl - 1].startswith("@"):
                    shifted = "\n".join(lines[:dl] + ["def test_first(q):", "    pass", "", ""] + lines[dl:])
                    srv.did_change(tpath, shifted, version=3)
                    stale["a function was inserted above"] = {"text": shifted, "actions": ask_old()}
            out["stale"] = stale
            out["alive"] = srv.alive()
            return out
        except (lsp.ServerDied, lsp.Timeout) as e:
            out["error"] = str(e)
            return out
        finally:
            srv.close()
            shutil.rmtree(root, ignore_errors=True)

    for c, r in zip(fix_cases, lsp.run_parallel(list(enumerate(fix_cases)), session, workers=8)):
        cs = c["cs"]
        V.count()
        V.nontriv(json.dumps(cs, sort_keys=True))
        if r is None or "__exception__" in r:
            raise C.ToolError("LSP session failed: %r" % (r,))
        ex = {"case": cs, "text": r["text"]}
        if "error" in r:
            V.violation(dict(ex, error=r["error"]), "server died or stopped answering during diagnostics / code action / completion")
            continue
        if "multi" in r:
            m = r["multi"]
            tree0 = _ast.parse(r["text"])
            fns = [nd for nd in _ast.walk(tree0) if isinstance(nd, (_ast.FunctionDef, _ast.AsyncFunctionDef))]

            def fn_of(line0):
                best = None
                for nd in fns:
                    if nd.lineno - 1 <= line0 <= nd.end_lineno - 1 and (best is None or nd.lineno > best.lineno):
                        best = nd
                return best
            n_warn = len(m["diags"])
            e2 = dict(ex, warnings=[d["range"]["start"]["line"] for d in m["diags"]], actions=len(m["actions"]), result=m.get("fixed_text"))
            if n_warn != 2:
                V.violation(e2, "expected two undeclared-fixture warnings in the document")
                continue
            for a in m["actions"]:
                ad = (a.get("diagnostics") or [None])[0]
                if ad is None:
                    continue
                target = fn_of(ad["range"]["start"]["line"])
                for k, v in ((a.get("edit") or {}).get("changes") or {}).items():
                    for ed in v:
                        f2 = fn_of(ed["range"]["start"]["line"])
                        if target is None or f2 is None or f2.lineno != target.lineno:
                            V.violation(dict(e2, warning_line=ad["range"]["start"]["line"], edit=ed),
                                        "a quick fix offered for one warning edits another function than the one the warning is in")
            if m.get("fixed_text") is not None:
                try:
                    _ast.parse(m["fixed_text"])
                    still = [d for d in (m.get("diags_after") or []) if d.get("code") == "undeclared-fixture"]
                    if still:
                        V.violation(dict(e2, diagnostics=still), "warnings survive applying every offered quick fix and re-analysis")
                except SyntaxError as se:
                    V.classify(c17_fix_dev(cs, "syntax", "quick fix"), dict(e2, syntax_error=str(se)), "applying the offered quick fix produces a syntactically invalid document")
            continue
        tree0 = _ast.parse(r["text"])
        for label, new in (("quick fix", r.get("fixed_text")),
                           ("completion parameter edit", apply_edits(r["text"], r["completion_fx"][0]["additionalTextEdits"])
                            if r.get("completion_fx") and r["completion_fx"][0].get("additionalTextEdits") else None)):
            if new is None:
                continue
            if cs["shape"] == "nested_helper" and label != "quick fix":
                continue        # a completion INSIDE the helper: which function "the same function" is there is not judged
            e2 = dict(ex, edit=label, result=new)
            try:
                tree1 = _ast.parse(new)
            except SyntaxError as se:
                V.classify(c17_fix_dev(cs, "syntax", label), dict(e2, syntax_error=str(se)), "applying the offered %s produces a syntactically invalid document" % label)
                continue
            ps = fn_params(tree1, "test_t")
            if ps is None or "fx" not in ps:
                V.classify(c17_fix_dev(cs, "wrong_place", label), dict(e2, params=ps), "after the offered %s the fixture is not a parameter of the function" % label)
            if others_dump(tree1, "test_t") != others_dump(tree0, "test_t"):
                V.classify(c17_fix_dev(cs, "other_fn", label), e2, "the offered %s changes another function" % label)
        for how, st in (r.get("stale") or {}).items():
            V.count()
            try:
                t0 = _ast.parse(st["text"])
            except SyntaxError:
                continue                                   # the applied fix itself was judged above
            for a in st["actions"]:
                for k, v in ((a.get("edit") or {}).get("changes") or {}).items():
                    new = apply_edits(st["text"], v)
                    e2 = dict(ex, latest_text=st["text"], client_is_late=how, edits=v, result=new)
                    try:
                        t1 = _ast.parse(new) if new is not None else None
                    except SyntaxError as se:
                        V.violation(dict(e2, syntax_error=str(se)), "a quick fix offered for a warning of an EARLIER version (%s) breaks the latest text" % how)
                        continue
                    if t1 is None or others_dump(t1, "test_t") != others_dump(t0, "test_t"):
                        V.violation(e2, "a quick fix offered for a warning of an EARLIER version (%s) edits another function of the latest text" % how)
        if r.get("fixed_text") and isinstance(r.get("diags_after"), list):
            try:
                _ast.parse(r["fixed_text"])
                still = [d for d in r["diags_after"] if d.get("code") == "undeclared-fixture" and d["range"]["start"]["line"] == r.get("use_line")]
                if still and "fx" in (fn_params(_ast.parse(r["fixed_text"]), "test_t") or []):
                    V.violation(dict(ex, after=r["fixed_text"], diagnostics=still), "the warning survives the quick fix and re-analysis")
            except SyntaxError:
                pass
    shutil.rmtree(base, ignore_errors=True)
    V.sample({"case": lib_cases[0]["cs"], "verdict": lib_cases[0]["verdict"]})
    V.sample({"fix_case": fix_cases[0]["cs"], "text": c17_fix_text(fix_cases[0]["cs"])})
    cov = {"states": sum(m["distinct"] for m in metas.values()), "transitions": sum(m["transitions"] for m in metas.values()),
           "traces_validated_against_impl": len(lib_cases) + len(fix_cases), "exhaustive": True,
           "tlc": [{"cfg": m["cfg"], "wall_s": m["wall_s"]} for m in metas.values()]}
    return V.finish(
        coverage_extra=cov,
        rule="use group: 18 expression forms x 15 statement contexts; bind group: 14 binding forms x 10 visibility kinds of the "
             "name x {argument, attribute base}; verdict flag / noflag / open by Undeclared.tla, checked on the real library "
             "with the exact position; fix group: 19 function shapes x 2 uses through the real binary: publishDiagnostics -> "
             "codeAction -> edit applied -> CPython parse, parameter of the same function, other functions unchanged (ast "
             "equality), didChange -> warning gone; the same postconditions for the completion item's additionalTextEdits",
        assumptions=["uses in f-strings, keyword arguments, conditional expressions, starred arguments and `await` are enumerated "
                     "but only judged when flagged wrongly (the statement lists plain uses)"])


def c17_dev(cs, kind):
    if kind == "missed":
        if cs["vis"] == "imported_by_conftest":
            return ["undeclared_ignores_conftest_imports"]
    if kind == "false_positive":
        if cs["bind"] == "walrus_before":
            return ["undeclared_binding_forms_incomplete"]
    return []


def c17_fix_dev(cs, kind, label=""):
    """known only if this exact (shape, edit kind, symptom) is a listed instance of the finding"""
    for f in C.load_findings():
        if f.get("property") == "C17" and f.get("deviation") == "param_insertion_textual":
            if [cs["shape"], label, kind] in f.get("instances", []):
                return ["param_insertion_textual"]
    return []


# ------------------------------------------------------------------------------------------- C18
SC = ["function", "class", "module", "package", "session"]
CONFTEST_18 = "import pytest\n\n" + "".join(
    '\n@pytest.fixture(scope="%s")\ndef c_%s():\n    return 1\n' % (s, n)
    for s, n in zip(SC, ["fun", "cls", "mod", "pkg", "ses"]))
TP_18 = 'import pytest\n\n\n@pytest.fixture\ndef tp_fx():\n    return 1\n\n\n@pytest.fixture(scope="session")\ndef tp_ses():\n    return 2\n'


WP_18 = 'import pytest\n\n\n@pytest.fixture\ndef wp_fx():\n    return 1\n\n\n@pytest.fixture\ndef tp_fx():\n    return "workspace plugin"\n'
SIB_18 = 'import pytest\n\n\n@pytest.fixture(scope="module")\ndef c_mod():\n    return "overridden next door"\n\n\ndef test_sib(c_mod, ):\n    pass\n'


def c18_doc(c):
    """-> (text, cursor line (0-based), cursor col)"""
    role, kind, scope = c["role"], c["kind"], c["scope"]
    declared = sorted(c["declared"] or [])
    head = ["import pytest", "", 'pytestmark = pytest.mark.usefixtures("c_fun")', "", "",
            "@pytest.fixture", "def local_fx():", "    return 1", "", ""]
    if kind != "fixture":
        head += ['@pytest.fixture(scope="session")', "def local_ses():", "    return 2", "", ""]
    name = {"test": "test_e", "fixture": "local_ses", "helper": "helper_e"}[kind]
    deco = ['@pytest.fixture(scope="%s")' % SC[scope]] if kind == "fixture" else []
    if kind == "fixture" and scope == 0 and c.get("dynscope"):
        # pytest's DYNAMIC scope: scope= is a callable, not a literal; such a fixture counts as function-scoped here
        head = head[:2] + ["def pick_scope(fixture_name, config):", '    return "function"', ""] + head[2:]
        deco = ["@pytest.fixture(scope=pick_scope)"]
    # a fixture METHOD may live in a base / mixin class whose name does not start with Test
    cls_name = "DatabaseMixin" if (kind == "fixture" and c.get("mixin")) else "TestK"
    if c.get("stacked"):
        deco = deco + ["@other.decorator(1)"]
    pstyle = c.get("pstyle", "plain")

    def spell(ps):
        if not ps or pstyle == "plain":
            return list(ps)
        if pstyle == "posonly":
            return list(ps) + ["/"]
        if pstyle == "kwonly":
            return ["*"] + list(ps)
        if pstyle == "annotated":
            return ["%s: int" % x for x in ps]
        return ["%s=None" % x for x in ps]
    params = ", ".join(spell(declared))
    tail = ["", "", "x_after = 1", ""]
    cur = None
    if role in ("module_level",):
        body = deco + ["def %s(%s):" % (name, params), "    value = 1", "    other = 2"]
        lines = head + body + tail
        cur = (0, 3)
    elif role == "pytestmark_line":
        body = deco + ["def %s(%s):" % (name, params), "    value = 1"]
        lines = head + body + tail
        cur = (2, lines[2].index('"') + 1)
    elif role == "after_body_module_level":
        body = deco + ["def %s(%s):" % (name, params), "    value = 1"]
        lines = head + body + tail
        cur = (len(head) + len(body) + 2, 3)
    elif role == "fixture_decorator":
        lines = head + ["def %s(%s):" % (name, params), "    value = 1"] + tail
        cur = (5, 5)
    elif role in ("usefixtures_decorator", "parametrize_decorator", "def_line", "body_stmt", "body_blank"):
        marks = ['@pytest.mark.usefixtures("c_fun")', '@pytest.mark.parametrize("c_mod", [1], indirect=True)']
        body = marks + deco + ["def %s(%s):" % (name, params), "    value = 1", "", "    other = 2"]
        lines = head + body + tail
        b0 = len(head)
        d = b0 + len(marks) + len(deco)
        cur = {"usefixtures_decorator": (b0, lines[b0].index('"') + 1), "parametrize_decorator": (b0 + 1, lines[b0 + 1].index('"') + 1),
               "def_line": (d, lines[d].index("(") + 1), "body_stmt": (d + 1, len(lines[d + 1])), "body_blank": (d + 2, 0)}[role]
    elif role in ("sig_continuation", "sig_end"):
        sp = spell(declared)
        body = deco + ["def %s(" % name] + ["    %s," % p for p in sp] + ["    ", "):", "    value = 1"]
        if pstyle in ("posonly",) and role == "sig_end":
            body = deco + ["def %s(" % name] + ["    %s," % p for p in sp[:-1]] + ["    /", "):", "    value = 1"]
            sp = sp[:-1]
        lines = head + body + tail
        d = len(head) + len(deco)
        cur = (d + 1 + len(sp), 4) if role == "sig_continuation" else (d + 2 + len(sp), 0)
    elif role in ("class_header", "method_def", "method_body"):
        ps = ", ".join(["self"] + spell(declared)) if pstyle != "kwonly" else ", ".join(["self"] + spell(declared))
        body = ["class %s:" % cls_name] + ["    " + x for x in deco] + ["    def %s(%s):" % (name, ps), "        value = 1", "        other = 2"]
        lines = head + body + tail
        b0 = len(head)
        d = b0 + 1 + len(deco)
        cur = {"class_header": (b0, 6), "method_def": (d, lines[d].index("(") + 1), "method_body": (d + 1, len(lines[d + 1]))}[role]
    elif role == "nested_class_method_body":
        ps = ", ".join(["self"] + declared)
        body = ["class TestO:", "    class TestI:"] + ["        " + x for x in deco] + \
               ["        def %s(%s):" % (name, ps), "            value = 1", "            other = 2"]
        lines = head + body + tail
        d = len(head) + 2 + len(deco)
        cur = (d + 1, len(lines[d + 1]))
    elif role.startswith("inc_"):
        if role == "inc_open_paren":
            last = "def %s(" % name
        elif role == "inc_after_comma":
            last = "def %s(%s" % (name, "".join(p + ", " for p in declared))
        elif role == "inc_no_colon":
            last = "def %s(%s)" % (name, params)
        elif role == "inc_no_body":
            last = "def %s(%s):" % (name, params)
        else:
            last = "@pytest.mark.usefixtures("
        extra = ["def %s(%s):" % (name, params), "    pass"] if role == "inc_usefixtures_open" else []
        if c.get("above"):
            # the new function is typed ABOVE the file's other fixtures (its lines push them down: the line numbers of the last
            # version that parsed no longer fit the text)
            lines = head[:5] + deco + [last] + extra + ["", ""] + head[5:]
            li = 5 + len(deco)
        else:
            lines = head + deco + [last] + extra
            li = len(head) + len(deco)
        col = len(last) if role != "inc_no_colon" and role != "inc_no_body" else last.index("(") + 1
        cur = (li, col)
        return "\n".join(lines) + "\n", cur[0], cur[1]
    return "\n".join(lines) + "\n", cur[0], cur[1]


def check_c18(tier):
    V = C.Verdict("C18", tier, "model_checking")
    meta = C.run_tlc("Completion", "Completion.cfg", workers=4, timeout=3600)
    if not meta["ok"]:
        raise C.ToolError("TLC on Completion failed: %s" % meta["errors"])
    C.build_server()
    cases = list(C.tlc_cases(meta))
    base = os.path.join(C.BUILD, "ws", "c18-%d" % os.getpid())
    shutil.rmtree(base, ignore_errors=True)

    def session(job):
        n, c = job
        root = os.path.join(base, "s%d" % n)
        sp = os.path.join(root, ".venv", "lib", "python3.11", "site-packages")
        os.makedirs(os.path.join(sp, "tp"), exist_ok=True)
        os.makedirs(os.path.join(sp, "tp-1.0.dist-info"), exist_ok=True)
        with open(os.path.join(sp, "tp-1.0.dist-info", "entry_points.txt"), "w") as fh:
            fh.write("[pytest11]\ntp = tp.plugin\n")
        open(os.path.join(sp, "tp", "__init__.py"), "w").close()
        with open(os.path.join(sp, "tp", "plugin.py"), "w") as fh:
            fh.write(TP_18)
        # a workspace plugin: editable install whose source lives inside the workspace
        os.makedirs(os.path.join(root, "plugsrc"), exist_ok=True)
        with open(os.path.join(root, "plugsrc", "wplug.py"), "w") as fh:
            fh.write(WP_18)
        di = os.path.join(sp, "wplug-1.0.dist-info")
        os.makedirs(di, exist_ok=True)
        with open(os.path.join(di, "entry_points.txt"), "w") as fh:
            fh.write("[pytest11]\nwplug = wplug\n")
        with open(os.path.join(di, "direct_url.json"), "w") as fh:
            json.dump({"url": "file://" + os.path.join(root, "plugsrc"), "dir_info": {"editable": True}}, fh)
        with open(os.path.join(sp, "__editable__.wplug-1.0.pth"), "w") as fh:
            fh.write(os.path.join(root, "plugsrc") + "\n")
        with open(os.path.join(root, "conftest.py"), "w") as fh:
            fh.write(CONFTEST_18)
        # a sibling document in the same directory that OVERRIDES a conftest fixture locally
        with open(os.path.join(root, "test_sib.py"), "w") as fh:
            fh.write(SIB_18)
        # variants are chosen by a hash of the case, not by its position in TLC's enumeration (which correlates with the
        # fastest-varying dimensions of the table)
        import hashlib
        hv = int(hashlib.md5(json.dumps({k: v for k, v in c.items() if k != "expect"}, sort_keys=True).encode()).hexdigest(), 16)
        if c["role"].startswith("inc_") and hv % 2 == 1 and c.get("host") != "plugin":
            c = dict(c, above=True)
        if (hv // 4) % 2 == 1:
            c = dict(c, mixin=True)
        if (hv // 8) % 2 == 1 and not c["role"].startswith("inc_") and c["role"] not in ("pytestmark_line", "fixture_decorator"):
            c = dict(c, dynscope=True)
        text, line, col = c18_doc(c)
        tpath = os.path.join(root, "test_e.py")
        if c.get("host") == "plugin":
            # the edited document IS the workspace plugin module: its fixtures follow the edited function
            text = text + "\n\n" + WP_18.split("\n", 3)[3]
            tpath = os.path.join(root, "plugsrc", "wplug.py")
            with open(tpath, "w") as fh:
                fh.write(text)
        srv = lsp.Server()
        try:
            srv.initialize(root)

            if c["role"].startswith("inc_"):
                # incomplete forms arise while typing: the document was valid a moment ago
                valid_c = dict(c, role="def_line")
                srv.did_open(tpath, c18_doc(valid_c)[0])
                srv.did_change(tpath, text)
            else:
                srv.did_open(tpath, text)
            if (hv // 2) % 2 == 0:
                # the sibling is asked FIRST, with no analysis between the two requests: whatever is computed per directory
                # for the sibling's view must not leak into the edited document's
                srv.did_open(os.path.join(root, "test_sib.py"), SIB_18)
                srv.did_change(tpath, text, version=5)
                srv.pos_request("textDocument/completion", os.path.join(root, "test_sib.py"), 8, 20)
            comp = srv.pos_request("textDocument/completion", tpath, line, col)
            items = comp if isinstance(comp, list) else (comp or {}).get("items", []) if comp else []
            return {"items": [{"label": i["label"], "sortText": i.get("sortText"), "edits": bool(i.get("additionalTextEdits"))} for i in items],
                    "text": text, "line": line, "col": col, "alive": srv.alive()}
        except (lsp.ServerDied, lsp.Timeout) as e:
            return {"error": str(e), "text": text, "line": line, "col": col}
        finally:
            srv.close()
            shutil.rmtree(root, ignore_errors=True)

    results = lsp.run_parallel(list(enumerate(cases)), session, workers=8)
    for c, r in zip(cases, results):
        V.count()
        V.nontriv(json.dumps({k: c.get(k) for k in ("role", "kind", "scope", "declared", "stacked", "pstyle", "host")}, sort_keys=True))
        if r is None or "__exception__" in r:
            raise C.ToolError("LSP session failed: %r" % (r,))
        ex = {"role": c["role"], "kind": c["kind"], "scope": c["scope"], "declared": c["declared"], "stacked": c["stacked"], "param_style": c.get("pstyle"), "edited_document": c.get("host"),
              "cursor": [r.get("line"), r.get("col")], "text": r.get("text")}
        if "error" in r:
            V.violation(dict(ex, error=r["error"]), "server died or did not answer a completion request")
            continue
        fixture_names = set(c["expect"]["order"])
        labels = [i["label"] for i in r["items"] if i["label"] in fixture_names or i["label"].startswith(("c_", "tp_", "wp_", "local_"))]
        want = set(c["expect"]["offered"] or [])
        got = set(labels)
        e2 = dict(ex, offered=sorted(got), expected=sorted(want), context=c["expect"]["ctx"])
        if len(labels) != len(got):
            V.violation(e2, "a fixture name is offered twice")
        if got != want:
            V.classify(c18_dev(c, got, want), e2, "completion does not offer exactly the usable fixtures at this cursor line")
            continue
        if c["expect"]["ctx"] in ("signature", "body"):
            ranked = sorted((i for i in r["items"] if i["label"] in want), key=lambda i: (i["sortText"] or i["label"]))
            ranks = [c["expect"]["order"][i["label"]] for i in ranked]
            if ranks != sorted(ranks):
                V.violation(dict(e2, sorted_labels=[i["label"] for i in ranked]),
                            "completion sort order does not rank same file < conftest < plugin < third-party")
        if c["expect"]["ctx"] == "body" and want and not all(i["edits"] for i in r["items"] if i["label"] in want):
            V.violation(e2, "a body completion does not carry the parameter edit")
    shutil.rmtree(base, ignore_errors=True)
    V.sample({"role": cases[0]["role"], "kind": cases[0]["kind"], "expect": cases[0]["expect"], "text": c18_doc(cases[0])[0]})
    cov = {"states": meta["distinct"], "transitions": meta["transitions"], "traces_validated_against_impl": len(cases),
           "exhaustive": True, "tlc": {"module": "Completion", "wall_s": meta["wall_s"]}}
    return V.finish(
        coverage_extra=cov,
        rule="cursor-line role (module level, fixture / usefixtures / parametrize decorator, pytestmark, def line, signature "
             "continuation / end, body statement, blank line in body, class header, method def / body, nested-class method body, "
             "after the body; incomplete: open paren, after comma, no colon, no body, unclosed usefixtures) x function kind {test, "
             "fixture of each scope, helper} x declared parameter sets; workspace with conftest fixtures of all five scopes, "
             "same-file fixtures and third-party fixtures (venv entry point); every case is one completion request to the real "
             "binary; offered labels, uniqueness, sortText rank and the presence of the parameter edit are compared",
        assumptions=["a blank line AFTER the last statement of a body is not judged (statement: inside signature or body)",
                     "workspace-plugin rank (2) is covered by C14's classification, not materialised here"])


def c18_dev(c, got, want):
    return []


# ------------------------------------------------------------------------------------------- C11
CLS = {"a": "a", "dq": '"', "sq": "'", "lp": "(", "rp": ")", "colon": ":", "comma": ",", "sp": " ", "tab": "\t", "lf": "\n",
       "cr": "\r", "crlf": "\r\n", "e2": "é", "c3": "中", "m4": "\U0001F600", "ideosp": "\u3000", "nbsp": "\u00a0",
       "bom": "\ufeff", "nul": "\x00", "bslash": "\\", "hash": "#", "eq": "=", "star": "*", "at": "@", "dot": ".",
       "lb": "[", "rb": "]"}
HOST_CONFTEST = 'import pytest\n\n\n@pytest.fixture\ndef fx() -> int:\n    """Doc of fx."""\n    return 1\n\n\n@pytest.fixture(scope="session")\ndef other_fx(fx) -> str:\n    return "x"\n'


def slot_text(slot, s):
    """a Python (or config) document with the hostile string in the named slot"""
    T = {
        "doc_line_prefix": 'import pytest\n\n\n@pytest.fixture\ndef f_doc(fx):\n    """Doc.\n%s    more\n      deeper\n    """\n    return fx\n',
        "after_param": "def test_x(fx%s):\n    pass\n",
        "before_name": "def %stest_x(fx):\n    pass\n",
        "after_name": "def test_x%s(fx):\n    pass\n",
        "fixture_deco_arg": "import pytest\n\n\n@pytest.fixture(%s)\ndef f_arg(fx):\n    return fx\n",
        "usefixtures_str": 'import pytest\n\n\n@pytest.mark.usefixtures("%s")\ndef test_x(fx):\n    pass\n',
        "parametrize_names": 'import pytest\n\n\n@pytest.mark.parametrize("%s", [1], indirect=True)\ndef test_x(fx):\n    pass\n',
        "body_line": "def test_x(fx):\n    %s\n    other_fx.call()\n",
        "plugins_value": 'pytest_plugins = ["%s"]\n\n\ndef test_x(fx):\n    pass\n',
        "import_module": "from .%s import *\n\n\ndef test_x(fx):\n    pass\n",
        "return_annot": "import pytest\n\n\n@pytest.fixture\ndef f_ret(fx) -> %s:\n    return fx\n",
        "after_colon": "def test_x(fx):%s\n    pass\n",
        "default_value": "def test_x(fx, other_fx=%s):\n    pass\n",
        "scope_value": 'import pytest\n\n\n@pytest.fixture(scope="%s")\ndef f_sc(fx):\n    return fx\n',
        "name_value": 'import pytest\n\n\n@pytest.fixture(name="%s")\ndef f_nm(fx):\n    return fx\n',
    }
    return T[slot] % s if slot in T else None


def slot_text2(slot, s):
    """a second skeleton for slots whose hazard depends on the neighbouring lines"""
    if slot == "doc_line_prefix":
        return 'import pytest\n\n\n@pytest.fixture\ndef f_doc(fx):\n    """Doc.\n%smore\n deeper\n"""\n    return fx\n' % s
    return None


def lib_probe_ops(path, text):
    ops = [{"op": "analyze", "path": path, "text": text}]
    lines = re.split(r"\r\n|\r|\n", text)          # every line terminator Python / LSP know (a document may use bare CR)
    for ln in range(min(len(lines) + 2, 14)):
        L = len(lines[ln]) if ln < len(lines) else 0
        for col in sorted({0, 1, 4, 11, 12, 13, max(L - 1, 0), L, L + 3}):
            for op in ("goto", "goto_or_def", "name_at", "refs_at", "completion_ctx"):
                ops.append({"op": op, "path": path, "line": ln, "col": col})
        ops.append({"op": "param_insert", "path": path, "line1": ln + 1})
        ops.append({"op": "containing_fn", "path": path, "line1": ln + 1})
    ops += [{"op": "available", "path": path, "full": True}, {"op": "undeclared", "path": path}, {"op": "imported", "path": path},
            {"op": "cycles"}, {"op": "scope_mismatch", "path": path}, {"op": "unused"}, {"op": "snapshot", "full": True},
            {"op": "goto", "path": path, "line": 4294967295, "col": 4294967295},
            {"op": "completion_ctx", "path": path, "line": 4294967294, "col": 0}]
    return ops


VALID = {
    "ascii_long": "import pytest\n\n\ndef test_long_function_name_here(fx, other_fx):\n    value = fx + 1\n    assert other_fx\n",
    "params_many": "def test_p(fx, other_fx, a, b, c):\n    pass\n\n\ndef test_q(other_fx):\n    pass\n",
    "usefix_string": 'import pytest\n\n\n@pytest.mark.usefixtures("fx", "other_fx")\ndef test_u():\n    pass\n',
    "class_method": "class TestK:\n    def test_m(self, fx, other_fx):\n        return fx\n",
    "undeclared_use": "def test_u():\n    print(fx)\n    other_fx.call()\n",
}
BROKEN = {
    "shorter_lines": "x\ny\nz(\n",
    "multibyte_at_offsets": "dé€f tést_é(é€中\U0001F600, é€中\U0001F600é€中\U0001F600é€中\U0001F600):\n    é€中\U0001F600é€中\U0001F600 = (\n" * 3,
    "empty": "",
    "only_newlines": "\n\n\n\n\n\n\n(",
    "one_long_line": "def test_long_function_name_here(" + "é" * 200,
    "bom_first": "\ufeffdef test_p(fx, other_fx, a, b, c:\n\u3000\u3000pass\n",
    "crlf_mixed": "def test_p(fx,\r other_fx\r\n, a\n\r, b:\r\n",
    "fewer_lines": "def (",
    "tabs": "\tdef\ttest_p(\tfx,\tother_fx\n\t\t(\n",
}


def check_c11(tier):
    V = C.Verdict("C11", tier, "exploration")
    C.build_harness()
    C.build_server()
    m_slots = C.run_tlc("Hostile", "Hostile_slots.cfg" if tier == "quick" else "Hostile_slots_thorough.cfg", workers=8, timeout=7200)
    m_stale = C.run_tlc("Hostile", "Hostile_stale.cfg", workers=4, timeout=3600)
    for m in (m_slots, m_stale):
        if not m["ok"]:
            raise C.ToolError("TLC on Hostile failed: %s" % m["errors"])
    rnd = random.Random(C.seed())
    # ---- (1) hostile strings in sensitive slots: every library entry point under catch_unwind
    slot_cases = list(C.tlc_cases(m_slots))
    py_cases = [c for c in slot_cases if slot_text(c["slot"], "") is not None]
    if tier == "thorough" and len(py_cases) > 60000:
        rnd.shuffle(py_cases)
        py_cases = py_cases[:60000]
    hcases = []
    for n, c in enumerate(py_cases):
        s = "".join(CLS[k] for k in c["str"])
        text = slot_text(c["slot"], s)
        ops = [{"op": "analyze", "path": "/vws11/conftest.py", "text": HOST_CONFTEST}] + lib_probe_ops("/vws11/test_h.py", text)
        t2 = slot_text2(c["slot"], s)
        if t2 is not None:
            ops += [{"op": "analyze", "path": "/vws11/test_h2.py", "text": t2}, {"op": "available", "path": "/vws11/test_h2.py", "full": True}]
        if n % 7 == 3:
            # the same document with other LINE TERMINATORS: bare CR throughout (classic Mac), CRLF, and a CR-terminated header
            # followed by LF lines; every entry point again at every line
            ops += lib_probe_ops("/vws11/test_cr.py", text.replace("\n", "\r"))
            ops += lib_probe_ops("/vws11/test_crlf.py", text.replace("\n", "\r\n"))
            ops += lib_probe_ops("/vws11/test_mixed.py", text.replace("\n", "\r", 2))
        hcases.append({"id": n, "ops": ops})
    # "very large" documents: the same hostile string repeated until it crosses every power-of-two size up to 64 KiB, at two
    # alignments (so that a multi-byte character straddles any fixed byte limit a fast path might introduce)
    long_cases = []
    for c in py_cases:
        s = "".join(CLS[k] for k in c["str"])
        if c["slot"] in ("doc_line_prefix", "body_line", "usefixtures_str", "return_annot", "default_value") and len(c["str"]) <= 2 \
                and any(len(ch.encode("utf-8")) > 1 for ch in s) and "\n" not in s and "\r" not in s:
            for pad in ("", "a"):
                big = pad + s * (70000 // max(1, len(s.encode("utf-8"))))
                t = slot_text(c["slot"], big)
                long_cases.append((c, pad, {"id": len(py_cases) + len(long_cases), "ops": [
                    {"op": "analyze", "path": "/vws11/conftest.py", "text": HOST_CONFTEST},
                    {"op": "analyze", "path": "/vws11/test_h.py", "text": t},
                    {"op": "available", "path": "/vws11/test_h.py", "full": True},
                    {"op": "goto", "path": "/vws11/test_h.py", "line": 4, "col": 4},
                    {"op": "undeclared", "path": "/vws11/test_h.py"},
                    {"op": "snapshot", "full": True}]}))
    if tier == "quick":
        rnd.shuffle(long_cases)
        long_cases = long_cases[:120]
    for (c, pad, hc), res in zip(long_cases, C.run_harness([x[2] for x in long_cases])):
        V.count()
        V.nontriv(json.dumps(["long", c["slot"], c["str"], pad]))
        bad = [r for r in res["res"] if isinstance(r, dict) and "panic" in r]
        if bad:
            V.classify(c11_dev(bad[0]), {"slot": c["slot"], "classes": c["str"], "repeated_to_bytes": 70000, "alignment_prefix": pad, "panic": bad[0]},
                       "a library entry point panicked on a very large hostile input")
    for c, res in zip(py_cases, C.run_harness(hcases)):
        V.count()
        V.nontriv(json.dumps([c["slot"], c["str"]]))
        bad = [(i, r) for i, r in enumerate(res["res"]) if isinstance(r, dict) and "panic" in r]
        if bad:
            i, r = bad[0]
            s = "".join(CLS[k] for k in c["str"])
            V.classify(c11_dev(r), {"slot": c["slot"], "classes": c["str"], "string": s, "panic": r,
                                    "op": hcases[py_cases.index(c)]["ops"][i] if False else None,
                                    "text": slot_text(c["slot"], s)},
                       "a library entry point panicked on a hostile input")
    # ---- (2) stale-position histories and config / metadata slots through the real binary
    stale = list(C.tlc_cases(m_stale))
    cfg_cases = [c for c in slot_cases if c["slot"] in ("pyproject_codes", "pyproject_exclude", "entry_point_name",
                                                         "entry_point_target", "pth_line")]
    rnd.shuffle(cfg_cases)
    cfg_cases = cfg_cases[:120 if tier == "quick" else 1500]
    base = os.path.join(C.BUILD, "ws", "c11-%d" % os.getpid())
    shutil.rmtree(base, ignore_errors=True)

    def all_requests(srv, path, positions):
        n = 0
        for (ln, col) in positions:
            for meth in ("textDocument/definition", "textDocument/hover", "textDocument/implementation",
                         "textDocument/prepareCallHierarchy", "textDocument/completion"):
                srv.pos_request(meth, path, ln, col)
                n += 1
            srv.pos_request("textDocument/references", path, ln, col, {"context": {"includeDeclaration": True}})
            n += 1
        for meth in ("textDocument/documentSymbol", "textDocument/codeLens"):
            srv.doc_request(meth, path)
            n += 1
        srv.doc_request("textDocument/inlayHint", path, {"range": {"start": {"line": 0, "character": 0},
                                                                  "end": {"line": 100000, "character": 0}}})
        srv.request("workspace/symbol", {"query": "fx"})
        item = {"name": "fx", "kind": 12, "uri": lsp.path_to_uri(os.path.join(os.path.dirname(path), "conftest.py")),
                "range": {"start": {"line": 4, "character": 0}, "end": {"line": 4, "character": 0}},
                "selectionRange": {"start": {"line": 4, "character": 4}, "end": {"line": 4, "character": 6}}}
        srv.request("callHierarchy/incomingCalls", {"item": item})
        srv.request("callHierarchy/outgoingCalls", {"item": dict(item, name="other_fx")})
        return n + 4

    def stale_session(job):
        n, c = job
        root = os.path.join(base, "st%d" % n)
        os.makedirs(root, exist_ok=True)
        cpath, tpath = os.path.join(root, "conftest.py"), os.path.join(root, "test_h.py")
        with open(cpath, "w") as fh:
            fh.write(HOST_CONFTEST)
        vtext, btext = VALID[c["v"]], BROKEN[c["b"]]
        srv = lsp.Server(timeout=30)
        try:
            srv.initialize(root)
            diags = srv.did_open(tpath, vtext)
            # positions recorded for V: every usage / definition token start and end, from the text itself
            positions = set()
            for ln, line in enumerate(vtext.split("\n")):
                for tok in ("fx", "other_fx", "test_", "def"):
                    k = line.find(tok)
                    while k >= 0:
                        positions.add((ln, k))
                        positions.add((ln, k + len(tok)))
                        k = line.find(tok, k + 1)
                positions.add((ln, len(line) + 5))
            positions |= {(len(vtext.split("\n")) + 3, 0), (4294967295, 4294967295), (0, 0), (0, 4294967295)}
            # every request once on the VALID text first: whatever the handlers cache per document (parsed module, line
            # index, per-file fixture view) is warm when the unparsable version arrives
            n_req = all_requests(srv, tpath, sorted(positions)[:12])
            srv.did_change(tpath, btext, version=2)
            n_req += all_requests(srv, tpath, sorted(positions))
            # stale diagnostics handed back for a quick fix
            for d in diags[:3]:
                srv.request("textDocument/codeAction", {"textDocument": {"uri": lsp.path_to_uri(tpath)}, "range": d["range"],
                                                        "context": {"diagnostics": [d]}})
            # and back to the valid text: the server keeps serving
            srv.did_change(tpath, vtext, version=3)
            r = srv.pos_request("textDocument/definition", tpath, 0, 0)
            # the conftest.py ABOVE the document goes through the same history while the document is queried
            srv.did_open(cpath, HOST_CONFTEST)
            n_req += all_requests(srv, tpath, sorted(positions)[:6])
            srv.did_change(cpath, HOST_CONFTEST + "\n\ndef broken(:\n    pass\n", version=2)
            n_req += all_requests(srv, tpath, sorted(positions)[:12])
            n_req += all_requests(srv, cpath, [(4, 4), (0, 0), (40, 2)])
            srv.did_change(cpath, HOST_CONFTEST, version=3)
            r = srv.pos_request("textDocument/definition", tpath, 0, 0)
            # both documents are closed; every request kind is sent once more for the closed documents (the file exists on disk)
            with open(tpath, "w") as fh:
                fh.write(vtext)
            srv.did_close(tpath)
            srv.did_close(cpath)
            n_req += all_requests(srv, tpath, sorted(positions)[:8])
            n_req += all_requests(srv, cpath, [(4, 4), (0, 0)])
            return {"requests": n_req, "alive": srv.alive()}
        except (lsp.ServerDied, lsp.Timeout) as e:
            return {"error": str(e), "exit": srv.proc.poll()}
        finally:
            srv.close()
            shutil.rmtree(root, ignore_errors=True)

    for c, r in zip(stale, lsp.run_parallel(list(enumerate(stale)), stale_session, workers=8)):
        V.count()
        V.nontriv(json.dumps(["stale", c["v"], c["b"]]))
        if r is None or "__exception__" in r:
            raise C.ToolError("LSP session failed: %r" % (r,))
        if "error" in r or not r.get("alive"):
            V.classify(c11_stale_dev(c), {"valid_version": VALID[c["v"]], "then_unparsable": BROKEN[c["b"]], "result": r},
                       "the server died or stopped answering after a valid version was replaced by an unparsable one")

    # ---- very large hostile definitions through the real binary: the handlers format what the library recorded (docstring, return
    # type) for hover and for every completion item; both alignments, so that any byte limit falls inside a character
    big_jobs = [(c, pad) for (c, pad, _hc) in long_cases if c["slot"] in ("doc_line_prefix", "return_annot")]
    rnd.shuffle(big_jobs)
    big_jobs = big_jobs[:24 if tier == "quick" else 400]

    def big_session(job):
        n, (c, pad) = job
        s0 = "".join(CLS[k] for k in c["str"])
        big = pad + s0 * (70000 // max(1, len(s0.encode("utf-8"))))
        root = os.path.join(base, "big%d" % n)
        os.makedirs(os.path.join(root, "d"), exist_ok=True)
        with open(os.path.join(root, "conftest.py"), "w") as fh:
            fh.write(HOST_CONFTEST)
        ctext = slot_text(c["slot"], big)
        fname = "f_doc" if c["slot"] == "doc_line_prefix" else "f_ret"
        cpath, tpath = os.path.join(root, "d", "conftest.py"), os.path.join(root, "d", "test_u.py")
        ttext = "def test_u(%s, fx):\n    pass\n\n\ndef test_v(\n" % fname
        srv = lsp.Server(timeout=30)
        try:
            srv.initialize(root)
            srv.did_open(cpath, ctext)
            srv.did_open(tpath, ttext)
            n_req = all_requests(srv, cpath, [(4, 4), (4, 6), (4, 10)])
            n_req += all_requests(srv, tpath, [(0, 11), (0, 12), (0, 18), (4, 11)])
            return {"alive": srv.alive(), "requests": n_req}
        except (lsp.ServerDied, lsp.Timeout) as e:
            return {"error": str(e)}
        finally:
            srv.close()
            shutil.rmtree(root, ignore_errors=True)

    for (c, pad), r in zip(big_jobs, lsp.run_parallel(list(enumerate(big_jobs)), big_session, workers=6)):
        V.count()
        V.nontriv(json.dumps(["big_lsp", c["slot"], c["str"], pad]))
        if r is None or "__exception__" in r:
            raise C.ToolError("LSP session failed: %r" % (r,))
        if "error" in r or not r.get("alive"):
            V.classify(c11_dev(r), {"slot": c["slot"], "classes": c["str"], "repeated_to_bytes": 70000, "alignment_prefix": pad, "result": r},
                       "the server died or stopped answering on a very large hostile definition (hover / completion / symbols)")

    def cfg_session(job):
        n, c = job
        s = "".join(CLS[k] for k in c["str"])
        if c["slot"] == "pth_line" and int(hashlib.md5(s.encode("utf-8", "surrogatepass")).hexdigest(), 16) % 2:
            # the import-hook style of editable installs: the .pth holds only an `import` line, no path
            s = "import " + s
        root = os.path.join(base, "cf%d" % n)
        sp = os.path.join(root, ".venv", "lib", "python3.11", "site-packages")
        os.makedirs(os.path.join(sp, "tp"), exist_ok=True)
        os.makedirs(os.path.join(sp, "tp-1.0.dist-info"), exist_ok=True)
        ep = "[pytest11]\ntp = tp.plugin\n"
        pp = None
        if c["slot"] == "entry_point_name":
            ep = "[pytest11]\n%s = tp.plugin\ntp = tp.plugin\n" % s
        elif c["slot"] == "entry_point_target":
            ep = "[pytest11]\nbad = %s\ntp = tp.plugin\n" % s
        elif c["slot"] == "pth_line":
            with open(os.path.join(sp, "__editable__.tp-1.0.pth"), "w", encoding="utf-8", errors="surrogatepass") as fh:
                fh.write(s + "\n")
            with open(os.path.join(sp, "tp-1.0.dist-info", "direct_url.json"), "w") as fh:
                # the recorded source directory EXISTS (a server that falls back to it when the .pth names no path finds it)
                os.makedirs(os.path.join(root, "extsrc"), exist_ok=True)
                fh.write(json.dumps({"url": "file://" + os.path.join(root, "extsrc"), "dir_info": {"editable": True}}))
        elif c["slot"] == "pyproject_codes":
            pp = '[tool.pytest-language-server]\ndisabled_diagnostics = ["%s", "scope-mismatch"]\n' % s
        elif c["slot"] == "pyproject_exclude":
            pp = '[tool.pytest-language-server]\nexclude = ["%s"]\ndisabled_diagnostics = ["scope-mismatch"]\n' % s
        with open(os.path.join(sp, "tp-1.0.dist-info", "entry_points.txt"), "w", encoding="utf-8") as fh:
            fh.write(ep)
        open(os.path.join(sp, "tp", "__init__.py"), "w").close()
        with open(os.path.join(sp, "tp", "plugin.py"), "w") as fh:
            fh.write(TP_18)
        if pp is not None:
            with open(os.path.join(root, "pyproject.toml"), "w", encoding="utf-8") as fh:
                fh.write(pp)
        with open(os.path.join(root, "conftest.py"), "w") as fh:
            fh.write(HOST_CONFTEST)
        with open(os.path.join(root, "test_ok.py"), "w") as fh:
            fh.write("def test_ok(fx, tp_fx):\n    pass\n")
        srv = lsp.Server(timeout=30)
        try:
            srv.initialize(root)
            scan_failed = any("Workspace scan failed" in m for m in srv.logs)
            d = srv.pos_request("textDocument/definition", os.path.join(root, "test_ok.py"), 0, 12)
            d2 = srv.pos_request("textDocument/definition", os.path.join(root, "test_ok.py"), 0, 16)
            rc, so, se = lsp.run_cli(["fixtures", "list", root])
            return {"scan_failed": scan_failed, "resolved_fx": bool(d), "resolved_tp": bool(d2), "cli_rc": rc,
                    "cli_panic": "panicked" in se, "alive": srv.alive()}
        except (lsp.ServerDied, lsp.Timeout) as e:
            return {"error": str(e)}
        finally:
            srv.close()
            shutil.rmtree(root, ignore_errors=True)

    for c, r in zip(cfg_cases, lsp.run_parallel(list(enumerate(cfg_cases)), cfg_session, workers=8)):
        V.count()
        V.nontriv(json.dumps([c["slot"], c["str"]]))
        if r is None or "__exception__" in r:
            raise C.ToolError("LSP session failed: %r" % (r,))
        ex = {"slot": c["slot"], "classes": c["str"], "string": "".join(CLS[k] for k in c["str"]), "result": r}
        if "error" in r or not r.get("alive") or r.get("scan_failed") or r.get("cli_panic") or r.get("cli_rc") not in (0,):
            V.violation(ex, "malformed configuration / plugin metadata crashed the server, the scan or the CLI")
        elif not r.get("resolved_fx") or not r.get("resolved_tp"):
            V.violation(ex, "one malformed configuration / metadata entry disabled the rest of the workspace")
    shutil.rmtree(base, ignore_errors=True)
    V.sample({"slot": py_cases[0]["slot"], "classes": py_cases[0]["str"], "text": slot_text(py_cases[0]["slot"], "".join(CLS[k] for k in py_cases[0]["str"]))})
    V.sample({"stale": stale[0]})
    return V.finish(
        coverage_extra={"tlc_states": m_slots["distinct"] + m_stale["distinct"], "library_cases": len(py_cases),
                        "stale_sessions": len(stale), "config_sessions": len(cfg_cases)},
        rule="(1) every string of <= 2 (quick) / 3 (thorough) character classes out of 27 (quotes, parens, colon, comma, blank, tab, "
             "LF, CR, CRLF, 2-/3-/4-byte characters, U+3000, U+00A0, BOM, NUL, backslash, ...) in each of 15 sensitive slots of a "
             "Python document; all library entry points at ~100 positions per document under catch_unwind; (2) 45 stale-position "
             "histories (5 valid versions x 9 unparsable successors) through the real binary with all 13 request kinds at every "
             "position recorded for the valid version, past the end and at u32 extremes; (3) hostile strings in pyproject.toml "
             "values, entry_points.txt and .pth files: server, scan and CLI must survive and still resolve the healthy files; "
             "non-trivial = distinct (slot, string) / history",
        assumptions=["the specification (Hostile.tla) enumerates inputs and states the protocol obligations; it cannot predict a panic",
                     "'very large' inputs are covered by a handful of sizes only"])


def c11_dev(panic):
    at = panic.get("at", "")
    if "string_utils.rs" in at and ("byte index" in panic.get("panic", "") or "char boundary" in panic.get("panic", "")):
        return ["docstring_dedent_byte_slice"]
    return []


def c11_stale_dev(c):
    return []
