CONSTANTS
  Files <- MCFiles
  Dirs <- MCDirs
  DirOf <- MCDirOf
  ParentOf <- MCParentOf
  RoleOf <- MCRoleOf
  MaxDefiners = 7
  Emit <- MCEmitGoto
  Levels <- MCLevelsChain
  LevelsB <- MCLevelsChain
  SameKinds <- MCSameChain
  ExtraSets <- MCExtraChain
  ExtraSetsB <- MCExtraChain
  UseKinds <- MCUseTP
  UFiles <- MCUFiles
  ExtraUsers = TRUE
  Revs <- MCRevBoth
  OrderMode = "two"
INIT Init
NEXT Next
CHECK_DEADLOCK FALSE
INVARIANTS
  RefNegativeClause
  RepairedEqualsR
  RepairedViewsAgree
  Mirror
  RefsInverse
  IndexComplete
  EmitCase
