#!/bin/bash
# Parallel re-sweep of every seeded change against the quick tier of its own property's check plus the checks known to be the
# natural detectors of cross-cutting changes (three scratch worktrees, three build tags).  usage: tools/seedsweep_par.sh [N]
cd /verif
N=${1:-3}
declare -A EXTRA=( [C04_1]="C10" [C05_1]="C06" [C05_3]="C06 C07" [C08_3]="C09" [C11_1]="C12" [C11_3]="C12" [C14_1]="C07" [C16_1]="C07 C19" [C18_2]="C07" [C18_3]="C07 C05" [C15_4]="C03" [C02_3]="C01" [C01_5]="C07" [C05_5]="C06" [C09_5]="C06" [C08_6]="C16" [C16_5]="C19" [C02_6]="C01" [C03_6]="C15" [C12_6]="C11" [C06_8]="C19" [C11_7]="C12" [C12_8]="C11" [C18_7]="C07" [C01_9]="C14" [C15_9]="C16" [C16_10]="C19" [C03_8]="C04 C10" [C15_8]="C19 C07" [C16_8]="C07" [C01_12]="C07" )
ids=( $(ls -d seeded/C*/ | xargs -n1 basename | sort) )
for k in $(seq 0 $((N-1))); do
  (
    for i in "${!ids[@]}"; do
      if [ $((i % N)) -eq $k ]; then
        id=${ids[$i]}; p=${id%_*}
        rm -f seeded/$id/runs.json
        SEEDRUN_WT=/tmp/seedrepo$k SEEDRUN_TAG=seed$k python3 tools/seedrun.py $id $p ${EXTRA[$id]} 2>&1 | cut -c1-400
      fi
    done
  ) > /tmp/seedsweep_$k.log 2>&1 &
done
wait
python3 tools/seedreport.py
