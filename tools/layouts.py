"""Checks driven by the Layouts case table (spec/Layouts.tla): C01 C02 C04 C05 C08 C20 at library
level.  TLC enumerates every (layout, registration order), evaluates layer R and layer I on it and
prints one JSON case; here each case is rendered, replayed on the real library, and the real
answers are compared with layer R (the verdict) and layer I (model fidelity / known findings)."""
import json
import os
import random

import common as C
import render as R

UNI = R.LAYOUT_UNIVERSE


def defid(d):
    return None if d is None or d.get("file") == "NOFILE" else (d["file"], d["idx"])


def case_list(x):
    return list(x) if x else []


def _item(case, slot, idx):
    return case["ws"][slot]["items"][idx - 1]


def _use_name(it, uk, ui):
    key = {"p": "deps", "m": "marks", "pm": "marks", "c": "cmarks", "i": "ind"}[uk]
    return it[key][ui - 1]


def useid(u):
    return (u["file"], u["idx"], u["uk"], u["ui"])


class CaseCtx:
    """rendered files of one case + decoding of real answers to abstract identities"""

    def __init__(self, case):
        self.case = case
        self.files = {}
        # signature style varied deterministically per layout shape: every parameter on the def line, or a
        # wrapped signature with one parameter per line BELOW the def line
        hs = sum(map(ord, shape_key(case)))
        self.style = "wrap" if hs % 2 else None
        if os.environ.get("VERIF_STYLES", "1") == "1":
            # further spellings, varied per shape: fixtures renamed with name=, async generator fixtures, CRLF line endings
            # ... and string-literal forms of usefixtures / pytestmark arguments (u"..", r'..', triple quotes)
            self.style = ["", "wrap", "alias", "async", "crlf", "wrap+alias", "async+crlf", "wrap+alias+async+crlf",
                          "strform", "strform+wrap", "strform+crlf+alias", "strform+async", "assign", "assign+wrap+strform"][hs % 14] or None
        for slot, mod in case["ws"].items():
            self.files[slot] = R.render_checked(UNI, slot, mod, self.style)

    def setup_ops(self):
        ops = []
        # the workspace root the client announced (scanner.rs stores it; resolution must not depend on
        # it): varied deterministically per case -- none, the tree's top, or a directory BELOW the
        # rootmost conftest (workspace opened inside a larger tree)
        h = sum(map(ord, shape_key(self.case))) % 3
        if h == 1:
            ops.append({"op": "set_root", "path": R.VWS + "/R"})
        elif h == 2:
            ops.append({"op": "set_root", "path": R.VWS + "/R/sa"})
        for p in case_list(self.case.get("plugins")):
            ops.append({"op": "mark_plugin", "path": UNI.paths[p]})
        # an installed (site-packages) plugin found through a pytest11 entry point is registered as a plugin file too
        # and so carries BOTH flags; it stays third-party for resolution (workspace plugins rank before it)
        if "tp" in self.case["ws"] and h != 0:
            ops.append({"op": "mark_plugin", "path": UNI.paths["tp"]})
        for slot in self.case["order"]:
            ops.append({"op": "analyze", "path": UNI.paths[slot], "text": self.files[slot].text})
        return ops

    def texts(self):
        return {UNI.paths[s]: self.files[s].text for s in self.case["order"]}

    def decode_def(self, d):
        if d is None:
            return None
        if "panic" in d or "tool_error" in d or "nodef" in d:
            return ("PANIC", json.dumps(d))
        slot = UNI.slot_of_path.get(d["file"])
        if slot is None:
            return ("?", d["file"], d["line"])
        idx = self.files[slot].line_item.get(d["line"])
        return (slot, idx if idx is not None else -d["line"])

    def decode_use(self, u):
        slot = UNI.slot_of_path.get(u["file"])
        if slot is None or slot not in self.files:
            return ("?", u["file"], u["line"], u["sc"], u["ec"], u["name"])
        r = self.files[slot]
        for key, (ln, cs, ce) in r.use_pos.items():
            if ln == u["line"] and cs == u["sc"] and ce == u["ec"]:
                it = _item(self.case, slot, key[0])
                if _use_name(it, key[1], key[2]) == u["name"]:
                    return (slot, key[0], key[1], key[2])
        # string usages (usefixtures / pytestmark): the recorded range is the literal minus one character at each end
        # (known finding quote_strip_pm1 of C15) -- identity is decided by line, name and OVERLAP with the content span
        for key, (ln, cs, ce) in r.use_pos.items():
            if key[1] in ("m", "c", "pm") and ln == u["line"] and u["sc"] < ce and cs < u["ec"]:
                it = _item(self.case, slot, key[0])
                if _use_name(it, key[1], key[2]) == u["name"]:
                    return (slot, key[0], key[1], key[2])
        return ("?", u["file"], u["line"], u["sc"], u["ec"], u["name"])

    def use_pos(self, u):
        """where a cursor is ON the usage (for several names in one indirect string: the name's own characters)"""
        r = self.files[u["file"]]
        k = (u["idx"], u["uk"], u["ui"])
        return r.probe_pos.get(k) or r.use_pos[k]

    def all_defs(self):
        out = []
        for slot, mod in self.case["ws"].items():
            for i, it in enumerate(case_list(mod["items"])):
                if it["k"] == "def":
                    out.append((slot, i + 1, it))
        return out


def load_cases(cfg, timeout=7200):
    meta = C.run_tlc("Layouts", cfg, workers=12, timeout=timeout)
    if not meta["ok"]:
        raise C.ToolError("TLC on Layouts/%s failed: %s" % (cfg, meta["errors"]))
    return meta


def rand_meta(tier):
    """the random-workspace table (spec/RandomLayouts.tla over tools/randlayouts.py): same case lines, same judges"""
    if os.environ.get("VERIF_REPLAY"):
        return None
    import randlayouts
    return randlayouts.load_cases(tier)


def drive_rand(tier, build, judge, V):
    m = rand_meta(tier)
    if m is None:
        return 0
    n = drive(m, build, judge)
    V.notes["random_workspaces"] = {"cases": n, "tlc_states": m["distinct"], "tlc_wall_s": m["wall_s"], "cached": m.get("cached", False)}
    return n


def shape_key(case):
    return json.dumps(case["shape"], sort_keys=True)


def tlc_cov(meta, replayed):
    return {"states": meta["distinct"], "transitions": meta["transitions"],
            "traces_validated_against_impl": replayed,
            "tlc": {"module": meta["module"], "cfg": meta["cfg"], "wall_s": meta["wall_s"],
                    "cached": meta.get("cached", False), "cmd": meta["cmd"]},
            "exhaustive": True}


def n_named(case, name):
    n = 0
    for slot, mod in case["ws"].items():
        for it in case_list(mod["items"]):
            if it["k"] == "def" and it["name"] == name:
                n += 1
    return n


def drive(meta, build, judge, only=None):
    """build(ctx) -> (ops, tags) appended after the setup ops; judge(ctx, [(tag, answer)...])"""
    C.build_harness()
    ctxs = {}
    count = [0]

    def gen():
        for n, case in enumerate(C.tlc_cases(meta)):
            if only is not None and not only(n, case):
                continue
            ctx = CaseCtx(case)
            setup = ctx.setup_ops()
            ops, tags = build(ctx)
            ctxs[n] = (ctx, tags, len(setup))
            yield {"id": n, "ops": setup + ops}

    for res in C.run_harness(gen()):
        ctx, tags, off = ctxs.pop(res["id"])
        for j, a in enumerate(res["res"][:off]):
            if isinstance(a, dict) and ("panic" in a or "tool_error" in a):
                raise C.ToolError("setup op failed in case %r: %r" % (ctx.case["shape"], a))
        judge(ctx, list(zip(tags, res["res"][off:])), res["id"])
        count[0] += 1
    return count[0]


def replay_filter():
    """--replay <file>: only the case recorded in that file"""
    p = os.environ.get("VERIF_REPLAY")
    if not p:
        return None
    rec = json.load(open(p))["case"]
    sk = json.dumps(rec["shape"], sort_keys=True)
    order = rec.get("order")
    return lambda n, case: shape_key(case) == sk and (order is None or case["order"] == order)


# ------------------------------------------------------------------------------------------- C01

def goto_ops(ctx, rows, all_cols=True):
    ops, tags = [], []
    for row in rows:
        u = row["u"]
        ln, cs, ce = ctx.use_pos(u)
        for col in (range(cs, ce) if all_cols else [cs]):
            ops.append({"op": "goto", "path": UNI.paths[u["file"]], "line": ln - 1, "col": col})
            tags.append(("goto", row, col))
    return ops, tags


def judge_goto(V, ctx, row, col, ans, what="go-to-definition differs from pytest's resolution"):
    case = ctx.case
    V.count()
    py = {defid(d) for d in row["py"]}
    impl = defid(row["impl"])
    actual = ctx.decode_def(ans)
    if n_named(case, row["name"]) >= 2:
        V.nontriv((shape_key(case), tuple(case["order"]), useid(row["u"])))
    if actual in py:
        return True
    example = {"shape": case["shape"], "order": case["order"], "usage": row["u"], "col": col,
               "expected_any_of": sorted(map(str, py)), "actual": str(actual),
               "model_predicts": str(impl), "blame": row["blame"], "files": ctx.texts()}
    if actual == impl:
        V.classify(row["blame"], example, what)
    else:
        V.drift += 1
        V.violation(example, what + " and from the implementation model")
    return False


def check_c01(tier):
    V = C.Verdict("C01", tier, "model_checking")
    meta = load_cases("Layouts_quick.cfg" if tier == "quick" else "Layouts_thorough.cfg")

    def build(ctx):
        return goto_ops(ctx, ctx.case["goto"])

    def judge(ctx, answers, n):
        for (_, row, col), ans in answers:
            judge_goto(V, ctx, row, col, ans)
        if n % 20000 == 0:
            V.sample({"shape": ctx.case["shape"], "order": ctx.case["order"], "queries": len(answers)})

    replayed = drive(meta, build, judge, only=replay_filter())
    # random workspaces: the first column of every usage token (every column is probed on the structured table above)
    replayed += drive_rand(tier, lambda ctx: goto_ops(ctx, ctx.case["goto"], all_cols=False), judge, V)
    if not os.environ.get("VERIF_REPLAY"):
        import binlayouts
        nb, _ = binlayouts.run(V, tier, {"c01"})
        replayed += nb
        V.notes["lsp_sessions"] = nb
        rm = rand_meta(tier)
        if rm is not None:
            nb2, _ = binlayouts.run(V, tier, {"c01"}, meta=rm, cap=60 if tier == "quick" else 1200)
            replayed += nb2
            V.notes["lsp_sessions_random_workspaces"] = nb2
    return V.finish(
        coverage_extra=tlc_cov(meta, replayed),
        rule="LSP tier: sampled layouts materialised on disk, textDocument/definition of the real binary at every usage. "
             "Random tier: seeded random workspaces (spec/RandomLayouts.tla) judged by the same two layers. "
             "TLC enumerates every (layout, registration order) of spec/Layouts.tla; each is replayed in memory "
             "on the real library and find_fixture_definition is asked at every column of every usage token; "
             "non-trivial = at least two definitions of the queried name compete; distinct by (layout, order, usage)",
        assumptions=["layer R (spec/Workspace.tla) is read from the property statement; no pytest available to cross-check it",
                     "in-memory replay with virtual paths (file_cache decides conftest existence)"])


# ------------------------------------------------------------------------------------------- C02

def c02_named_chains(V):
    """override chains whose fixture NAME is unusual: it starts with `test_` (a fixture is a fixture whatever it is called), it is
    `request`-like, a keyword-like identifier, non-ASCII; root conftest defines it, sub/conftest overrides it requesting its own
    name, sub/deeper/conftest overrides again; tests at every depth.  Parameter -> next outward, never itself; every test binds
    to the innermost override; references of each link = the usages that navigate to it, none twice."""
    names = ["test_client", "test_", "tests", "request_", "self_", "fixture", "pytest", "d\u00e9p\u00f4t", "T", "test_client2"]
    cases, ctx = [], {}
    for nm in names:
        for wrapped in (False, True):
            sig = "(\n    %s,\n)" % nm if wrapped else "(%s)" % nm
            files = {
                "/vwsn/conftest.py": "import pytest\n\n\n@pytest.fixture\ndef %s():\n    return 0\n" % nm,
                "/vwsn/test_top.py": "def test_top(%s):\n    pass\n" % nm,
                "/vwsn/sub/conftest.py": "import pytest\n\n\n@pytest.fixture\ndef %s%s:\n    return 1\n" % (nm, sig),
                "/vwsn/sub/test_mid.py": "def test_mid(%s):\n    pass\n" % nm,
                "/vwsn/sub/deeper/conftest.py": "import pytest\n\n\n@pytest.fixture\ndef %s%s:\n    return 2\n" % (nm, sig),
                "/vwsn/sub/deeper/test_low.py": "def test_low(%s):\n    pass\n" % nm,
            }
            ops = [{"op": "analyze", "path": p, "text": t} for p, t in files.items()]
            pl, pc = (5, 4) if wrapped else (4, 4 + len(nm.encode("utf-8")) + 1)      # byte columns (the implementation's unit)
            q = [("param_mid", {"op": "goto", "path": "/vwsn/sub/conftest.py", "line": pl, "col": pc}),
                 ("param_low", {"op": "goto", "path": "/vwsn/sub/deeper/conftest.py", "line": pl, "col": pc}),
                 ("test_top", {"op": "goto", "path": "/vwsn/test_top.py", "line": 0, "col": 13}),
                 ("test_mid", {"op": "goto", "path": "/vwsn/sub/test_mid.py", "line": 0, "col": 13}),
                 ("test_low", {"op": "goto", "path": "/vwsn/sub/deeper/test_low.py", "line": 0, "col": 13}),
                 ("refs_top", {"op": "refs", "path": "/vwsn/conftest.py", "line1": 5, "name": nm}),
                 ("refs_mid", {"op": "refs", "path": "/vwsn/sub/conftest.py", "line1": 5, "name": nm}),
                 ("refs_low", {"op": "refs", "path": "/vwsn/sub/deeper/conftest.py", "line1": 5, "name": nm})]
            cid = len(cases)
            ctx[cid] = (nm, wrapped, files, [k for k, _ in q], len(files))
            cases.append({"id": cid, "ops": ops + [o for _, o in q]})
    for res in C.run_harness(cases):
        nm, wrapped, files, keys, nf = ctx[res["id"]]
        V.count()
        V.nontriv(("named_chain", nm, wrapped))
        a = dict(zip(keys, res["res"][nf:]))

        def f(x):
            return x["file"] if isinstance(x, dict) and "file" in x else x

        def rf(x):
            return sorted((u["file"], u["line"]) for u in x) if isinstance(x, list) else x
        want = {"param_mid": "/vwsn/conftest.py", "param_low": "/vwsn/sub/conftest.py", "test_top": "/vwsn/conftest.py",
                "test_mid": "/vwsn/sub/conftest.py", "test_low": "/vwsn/sub/deeper/conftest.py"}
        pline = 6 if wrapped else 5
        want_refs = {"refs_top": [("/vwsn/sub/conftest.py", pline), ("/vwsn/test_top.py", 1)],
                     "refs_mid": [("/vwsn/sub/deeper/conftest.py", pline), ("/vwsn/sub/test_mid.py", 1)],
                     "refs_low": [("/vwsn/sub/deeper/test_low.py", 1)]}
        got = {k: f(a[k]) for k in want}
        got_refs = {k: rf(a[k]) for k in want_refs}
        if got != want or got_refs != {k: sorted(v) for k, v in want_refs.items()}:
            V.violation({"fixture_name": nm, "wrapped_signature": wrapped, "files": files, "navigation": got, "expected_navigation": want,
                         "references": got_refs, "expected_references": want_refs},
                        "an override chain of a fixture with an unusual name: navigation from the self-named parameter / from the tests, or "
                        "the references of a link, are not those of the chain")
    return len(cases)


def check_c02(tier):
    """override chains: parameter -> next outward, never itself; function name -> the override itself"""
    V = C.Verdict("C02", tier, "model_checking")
    meta = load_cases("Layouts_chain.cfg")

    def build(ctx):
        ops, tags = goto_ops(ctx, ctx.case["goto"])
        # every column of every overriding def line
        for slot, idx, it in ctx.all_defs():
            if it["name"] in case_list(it["deps"]):
                r = ctx.files[slot]
                ln = r.item_line[idx]
                text_line = r.text.split("\n")[ln - 1]
                for col in range(0, len(text_line) + 2):
                    ops.append({"op": "goto", "path": UNI.paths[slot], "line": ln - 1, "col": col})
                    tags.append(("defline_goto", slot, idx, col))
                    ops.append({"op": "refs_at", "path": UNI.paths[slot], "line": ln - 1, "col": col})
                    tags.append(("defline_refs", slot, idx, col))
        return ops, tags

    def judge(ctx, answers, n):
        case = ctx.case
        goto_actual = {}
        for tag, ans in answers:
            if tag[0] == "goto":
                _, row, col = tag
                judge_goto(V, ctx, row, col, ans, "navigation from a (self-named) parameter differs from the next definition outward")
                goto_actual.setdefault(useid(row["u"]), ctx.decode_def(ans))
        for tag, ans in answers:
            if tag[0] == "defline_goto":
                _, slot, idx, col = tag
                r = ctx.files[slot]
                _, ns, ne = r.def_name_pos[idx]
                pl, ps, pe = r.use_pos[(idx, "p", 1 + case_list(_item(case, slot, idx)["deps"]).index(_item(case, slot, idx)["name"]))]
                actual = ctx.decode_def(ans)
                V.count()
                V.nontriv((shape_key(case), slot, idx, col, "g"))
                ex = {"shape": case["shape"], "order": case["order"], "def": [slot, idx], "col": col,
                      "actual": str(actual), "files": ctx.texts()}
                if ns <= col < ne:
                    # on the function name: must not navigate to the parent (None or the override itself)
                    if actual is not None and actual != (slot, idx):
                        V.violation(ex, "go-to-definition on an overriding fixture's NAME left the override")
                elif ps <= col < pe:
                    if actual == (slot, idx):
                        V.violation(ex, "go-to-definition on the self-named parameter returned the overriding fixture itself")
                else:
                    if actual is not None and isinstance(actual, tuple) and actual[0] == "PANIC":
                        V.violation(ex, "panic on a def-line column")
            elif tag[0] == "defline_refs":
                _, slot, idx, col = tag
                r = ctx.files[slot]
                _, ns, ne = r.def_name_pos[idx]
                if not (ns <= col < ne):
                    continue
                V.count()
                ex = {"shape": case["shape"], "order": case["order"], "def": [slot, idx], "col": col,
                      "actual": ans, "files": ctx.texts()}
                if not isinstance(ans, dict) or ans.get("target") is None:
                    V.violation(ex, "references from an overriding fixture's name found no definition")
                    continue
                tgt = ctx.decode_def(ans["target"])
                if tgt != (slot, idx):
                    V.violation(ex, "references from an overriding fixture's name concern another definition")
                    continue
                refs = {ctx.decode_use(x) for x in ans["refs"]}
                want = {u for u, d in goto_actual.items() if d == (slot, idx)}
                if refs != want:
                    ex["want"] = sorted(map(str, want))
                    V.violation(ex, "references of the overriding fixture are not the usages that navigate to it")
        if n % 500 == 0:
            V.sample({"shape": case["shape"], "order": case["order"], "queries": len(answers)})

    replayed = drive(meta, build, judge, only=replay_filter())
    replayed += c02_named_chains(V)
    if not os.environ.get("VERIF_REPLAY"):
        import binlayouts
        nb, _ = binlayouts.run(V, tier, {"c02"}, cfg="Layouts_chain.cfg")
        replayed += nb
        V.notes["lsp_sessions"] = nb
    return V.finish(
        coverage_extra=tlc_cov(meta, replayed),
        rule="LSP tier: sampled chain layouts materialised on disk; textDocument/definition and textDocument/references of the real "
             "binary on the name of every self-requesting override and on its parameter.  override chains: every assignment of {absent, def, override} to three conftest levels x same-file "
             "{none, def, override} x {plugin def | plugin override, third-party} with tests at depth 0,1,2 "
             "(spec/Layouts.tla, Layouts_chain.cfg), two registration orders each; every column of every "
             "overriding def line is probed for go-to-definition and references; non-trivial = every probe on "
             "an overriding def line or a usage with >= 2 same-named definitions",
        assumptions=["a same-file redefinition next to a same-file override is not generated (statement leaves it open)"])


# ------------------------------------------------------------------------------------------- C04

def check_c04(tier):
    V = C.Verdict("C04", tier, "model_checking")
    meta = load_cases("Layouts_quick.cfg" if tier == "quick" else "Layouts_thorough.cfg")
    meta_chain = load_cases("Layouts_chain.cfg")

    def build_round(ctx):
        ops, tags = goto_ops(ctx, ctx.case["goto"], all_cols=False)
        for slot, idx, it in ctx.all_defs():
            ops.append({"op": "refs", "path": UNI.paths[slot], "line1": ctx.files[slot].item_line[idx], "name": it["name"]})
            tags.append(("refs", slot, idx, it["name"]))
        ops.append({"op": "unused"})
        tags.append(("unused",))
        ops.append({"op": "snapshot"})
        tags.append(("snapshot",))
        return ops, tags

    def build(ctx):
        ops, tags = build_round(ctx)
        # second round after the index was rebuilt in place: every file analysed again with the SAME text,
        # either as an unchanged didChange (cleanup path) or as the workspace scan's visit (fresh path,
        # scanner.rs:186) arriving after the editor's -- each usage must still be listed exactly once
        h = sum(map(ord, shape_key(ctx.case) + "".join(ctx.case["order"]))) % 4
        if h in (0, 1):
            for slot in reversed(ctx.case["order"]):
                ops.append({"op": "analyze", "path": UNI.paths[slot], "text": ctx.files[slot].text, "fresh": h == 1})
                tags.append(("reindex", "fresh" if h == 1 else "cleanup"))
            o2, t2 = build_round(ctx)
            ops += o2
            tags += t2
        return ops, tags

    def judge(ctx, answers, n):
        cut = [i for i, (t, _) in enumerate(answers) if t[0] == "reindex"]
        if not cut:
            return judge_round(ctx, answers, n, None)
        judge_round(ctx, answers[:cut[0]], n, None)
        judge_round(ctx, answers[cut[-1] + 1:], n, answers[cut[0]][0][1])

    def judge_round(ctx, answers, n, reindexed):
        case = ctx.case
        goto_actual = {}
        for tag, ans in answers:
            if tag[0] == "goto":
                goto_actual[useid(tag[1]["u"])] = ctx.decode_def(ans)
        listed = {}
        for tag, ans in answers:
            if tag[0] == "refs":
                _, slot, idx, name = tag
                D = (slot, idx)
                V.count()
                ex = {"shape": case["shape"], "order": case["order"], "def": [slot, idx], "answer": ans,
                      "files": ctx.texts(), "reindexed_before_round": reindexed}
                if not isinstance(ans, list):
                    V.violation(ex, "definition not found by line/name or panic")
                    continue
                refs = [ctx.decode_use(x) for x in ans]
                if len(refs) != len(set(refs)):
                    V.violation(ex, "a usage is listed twice among the references of one definition")
                want = {u for u, d in goto_actual.items() if d == D}
                if len(want) + len(refs) > 0:
                    V.nontriv((shape_key(case), tuple(case["order"]), D))
                if set(refs) != want:
                    ex["want"] = sorted(map(str, want))
                    ex["got"] = sorted(map(str, set(refs)))
                    V.violation(ex, "references(D) is not the set of usages whose go-to-definition lands on D")
                for u in refs:
                    listed.setdefault(u, []).append(D)
            elif tag[0] == "snapshot":
                # Mirror: usage_by_fixture mirrors usages exactly (as bags)
                a = sorted(json.dumps({k: v for k, v in x.items() if k != "key_file"}, sort_keys=True)
                           for lst in ans["ubf"].values() for x in lst)
                b = sorted(json.dumps(x, sort_keys=True) for lst in ans["usages"].values() for x in lst)
                V.count()
                if a != b or any(x["key_file"] != x["file"] for lst in ans["ubf"].values() for x in lst):
                    V.violation({"shape": case["shape"], "order": case["order"], "files": ctx.texts()},
                                "usage_by_fixture does not mirror usages")
            elif tag[0] == "unused":
                # CLI unused == project, non-autouse, no references (per (file,name) as the CLI prints it)
                V.count()
                got = {(UNI.slot_of_path.get(x["file"]), x["name"]) for x in ans} if isinstance(ans, list) else None
                want = set()
                per = {}
                for slot, idx, it in ctx.all_defs():
                    # the entry's autouse flag is the one of its LAST definition (all_defs yields them in source order)
                    per.setdefault((slot, it["name"]), [0, it, slot])
                    per[(slot, it["name"])][1] = it
                    per[(slot, it["name"])][0] += sum(1 for u, d in goto_actual.items() if d == (slot, idx))
                for (slot, name), (cnt, it, _) in per.items():
                    if cnt == 0 and slot not in ("tp", "tp2", "tpi") and not it["autouse"]:
                        want.add((slot, name))
                if got != want:
                    V.violation({"shape": case["shape"], "order": case["order"], "got": sorted(map(str, got or [])),
                                 "want": sorted(map(str, want)), "files": ctx.texts()},
                                "CLI unused set differs from 'no usage navigates to it'")
        for u, d in goto_actual.items():
            if d is None and u in listed:
                V.violation({"shape": case["shape"], "order": case["order"], "usage": list(u), "files": ctx.texts()},
                            "an unresolved usage is listed under a definition")
        if n % 20000 == 0:
            V.sample({"shape": case["shape"], "order": case["order"], "defs": len(ctx.all_defs()),
                      "usages": len(goto_actual)})

    replayed = drive(meta, build, judge, only=replay_filter())
    replayed += drive(meta_chain, build, judge, only=replay_filter())
    replayed += drive_rand(tier, build, judge, V)
    if not os.environ.get("VERIF_REPLAY"):
        import diskchecks
        n_imp = diskchecks.c04_own_imports(V, tier)
        replayed += n_imp
        V.notes["own_import_cases"] = n_imp
    if not os.environ.get("VERIF_REPLAY"):
        import binlayouts
        nb, _ = binlayouts.run(V, tier, {"c04"})
        replayed += nb
        V.notes["lsp_sessions"] = nb
        rm = rand_meta(tier)
        if rm is not None:
            nb2, _ = binlayouts.run(V, tier, {"c04"}, meta=rm, cap=60 if tier == "quick" else 1200)
            replayed += nb2
            V.notes["lsp_sessions_random_workspaces"] = nb2
    cov = tlc_cov(meta, replayed)
    cov["states"] += meta_chain["distinct"]
    cov["transitions"] += meta_chain["transitions"]
    if tier == "thorough":
        # the reverse index mirrors the forward map in EVERY state of every history, not only those within TLC's bounds:
        # Mirror / DefKeyed are inductive invariants of MirrorInd.tla (Apalache), which History.tla refines (RefinesMirrorInd)
        import apalache
        cov["apalache_inductive_invariant"] = apalache.mirror_inductive()
        cov["tlaps_inductive_invariant"] = apalache.mirror_tlaps()
    return V.finish(
        coverage_extra=cov,
        rule="every (layout, order) of spec/Layouts.tla (layout table and override-chain table) replayed; for every definition D: references(D) == "
             "{u : goto(u) == D} on the real library, no duplicates, unresolved usages listed nowhere, "
             "usage_by_fixture mirrors usages, CLI unused == no incoming usage; TLC checks Mirror and RefsInverse "
             "on the model; non-trivial = definition with at least one usage or reference",
        assumptions=["LSP-level counts (code lens, incoming calls, `fixtures list`) are compared in the LSP/CLI tier of this check"])


# ------------------------------------------------------------------------------------------- C05

def check_c05(tier):
    V = C.Verdict("C05", tier, "model_checking")
    meta = load_cases("Layouts_quick.cfg" if tier == "quick" else "Layouts_thorough.cfg")
    names = ["n", "w", "x"]

    def build(ctx):
        ops, tags = goto_ops(ctx, ctx.case["goto"], all_cols=False)
        for row in ctx.case["goto"]:
            u = row["u"]
            ln, cs, ce = ctx.use_pos(u)
            ops.append({"op": "goto_or_def", "path": UNI.paths[u["file"]], "line": ln - 1, "col": cs})
            tags.append(("god", row))
        for row in ctx.case["avail"]:
            ops.append({"op": "available", "path": UNI.paths[row["f"]]})
            tags.append(("avail", row))
        for row in ctx.case["rff"]:
            ops.append({"op": "resolve_for_file", "path": UNI.paths[row["d"]["file"]], "name": row["dep"]})
            tags.append(("rff", row))
        return ops, tags

    def judge(ctx, answers, n):
        case = ctx.case
        goto_by_file_name = {}
        excl_rows = set()
        avail = {}
        rff = {}
        for tag, ans in answers:
            if tag[0] == "goto":
                row = tag[1]
                u = row["u"]
                it = _item(case, u["file"], u["idx"])
                selfnamed = it["k"] == "def" and u["uk"] == "p" and row["name"] == it["name"]
                if not selfnamed:
                    goto_by_file_name.setdefault((u["file"], row["name"]), set()).add(ctx.decode_def(ans))
                goto_by_file_name.setdefault(("_u", useid(u)), set()).add(ctx.decode_def(ans))
            elif tag[0] == "avail":
                row = tag[1]
                if not isinstance(ans, list):
                    V.violation({"shape": case["shape"], "answer": ans}, "available fixtures panicked")
                    continue
                d = {}
                dup = False
                for x in ans:
                    if x["name"] in d:
                        dup = True
                    d[x["name"]] = ctx.decode_def(x)
                avail[row["f"]] = (d, row, dup)
            elif tag[0] == "rff":
                rff[(defid(tag[1]["d"]), tag[1]["dep"])] = (ctx.decode_def(ans), tag[1])
        # (a) navigation vs implementation/call-hierarchy preparation at the same position
        for tag, ans in answers:
            if tag[0] == "god":
                row = tag[1]
                V.count()
                g = goto_by_file_name[("_u", useid(row["u"]))]
                if ctx.decode_def(ans) not in g:
                    V.violation({"shape": case["shape"], "order": case["order"], "usage": row["u"],
                                 "goto": sorted(map(str, g)), "goto_or_def": str(ctx.decode_def(ans)), "files": ctx.texts()},
                                "prepareCallHierarchy/implementation resolver disagrees with go-to-definition")
        # (b) the per-file view: exactly one entry per visible name, equal to navigation
        for f, (d, row, dup) in avail.items():
            for nm in names:
                V.count()
                py = {defid(x) for x in row["py"][nm]}
                impl = defid(row["impl"][nm])
                actual = d.get(nm)
                g = goto_by_file_name.get((f, nm))
                if n_named(case, nm) >= 2:
                    V.nontriv((shape_key(case), tuple(case["order"]), f, nm, "a"))
                ex = {"shape": case["shape"], "order": case["order"], "file": f, "name": nm,
                      "view_entry": str(actual), "goto": sorted(map(str, g)) if g else None,
                      "expected_any_of": sorted(map(str, py)), "model_predicts": str(impl),
                      "blame": row["blame"][nm], "files": ctx.texts()}
                agree_goto = (g is None) or (actual in g)
                if actual in py and agree_goto:
                    continue
                if actual in py and not agree_goto:
                    # the view is right, navigation is wrong: that is C01's finding, not a view defect;
                    # it is still a cross-feature disagreement -> classify with the goto rows' blame
                    blame = set()
                    for r2 in case["goto"]:
                        if r2["u"]["file"] == f and r2["name"] == nm:
                            blame |= set(r2["blame"])
                    V.classify(sorted(blame), ex, "completion/inlay view and go-to-definition denote different definitions")
                    continue
                if actual == impl:
                    V.classify(row["blame"][nm], ex, "completion/inlay view entry is not the definition resolution selects")
                else:
                    V.drift += 1
                    V.violation(ex, "completion/inlay view entry differs from resolution and from the implementation model")
            if dup:
                V.violation({"shape": case["shape"], "file": f}, "a name appears twice in the per-file view")
        # (c) outgoing-calls resolver vs navigation from fixture parameters
        for (dd, nm), (actual, row) in rff.items():
            V.count()
            py = {defid(x) for x in row["py"]}
            impl = defid(row["impl"])
            if n_named(case, nm) >= 2:
                V.nontriv((shape_key(case), tuple(case["order"]), dd, nm, "r"))
            if actual in py:
                continue
            ex = {"shape": case["shape"], "order": case["order"], "fixture": list(dd), "dependency": nm,
                  "outgoing_target": str(actual), "expected_any_of": sorted(map(str, py)),
                  "model_predicts": str(impl), "blame": row["blame"], "files": ctx.texts()}
            if actual == impl:
                V.classify(row["blame"], ex, "outgoing-calls resolver is not the definition resolution selects")
            else:
                V.drift += 1
                V.violation(ex, "outgoing-calls resolver differs from resolution and from the implementation model")
        if n % 20000 == 0:
            V.sample({"shape": case["shape"], "order": case["order"], "views": len(avail), "rff": len(rff)})

    replayed = drive(meta, build, judge, only=replay_filter())
    replayed += drive_rand(tier, build, judge, V)
    if not os.environ.get("VERIF_REPLAY"):
        import binlayouts
        nb, _ = binlayouts.run(V, tier, {"c05"})
        replayed += nb
        V.notes["lsp_sessions"] = nb
        rm = rand_meta(tier)
        if rm is not None:
            nb2, _ = binlayouts.run(V, tier, {"c05"}, meta=rm, cap=60 if tier == "quick" else 1200)
            replayed += nb2
            V.notes["lsp_sessions_random_workspaces"] = nb2
        import diskchecks
        V.notes["linked_conftest_workspaces"] = diskchecks.c05_linked_conftests(V, tier)
    return V.finish(
        coverage_extra=tlc_cov(meta, replayed),
        rule="LSP tier: layouts materialised on disk, real binary: definition / hover / implementation / prepareCallHierarchy / "
             "outgoingCalls at every usage position must denote one definition. Library tier: "
             "every (layout, order) of spec/Layouts.tla replayed; the four resolvers of the library "
             "(find_fixture_definition, find_fixture_or_definition_at_position, get_available_fixtures, "
             "resolve_fixture_for_file) are asked about the same (file, name) and must denote one definition, "
             "the one layer R selects; non-trivial = name with >= 2 definitions",
        assumptions=["the LSP handlers are thin projections of these four resolvers; they are compared through the real binary in the LSP tier"])


# ------------------------------------------------------------------------------------------- C08

def check_c08(tier):
    """order independence: all registration orders of one layout give one observable snapshot"""
    V = C.Verdict("C08", tier, "model_checking")
    meta = load_cases("Layouts_quick.cfg" if tier == "quick" else "Layouts_thorough.cfg")
    names = ["n", "w", "x"]
    groups = {}

    def build(ctx):
        ops, tags = goto_ops(ctx, ctx.case["goto"], all_cols=False)
        for slot, idx, it in ctx.all_defs():
            ops.append({"op": "refs", "path": UNI.paths[slot], "line1": ctx.files[slot].item_line[idx], "name": it["name"]})
            tags.append(("refs", slot, idx))
        for row in ctx.case["avail"]:
            ops.append({"op": "available", "path": UNI.paths[row["f"]]})
            tags.append(("avail", row["f"]))
        for row in ctx.case["rff"]:
            ops.append({"op": "resolve_for_file", "path": UNI.paths[row["d"]["file"]], "name": row["dep"]})
            tags.append(("rff", str(defid(row["d"])), row["dep"]))
        ops.append({"op": "unused"})
        tags.append(("unused",))
        return ops, tags

    def judge(ctx, answers, n):
        case = ctx.case
        snap = {}
        for tag, ans in answers:
            if tag[0] == "goto":
                snap["goto %s" % (useid(tag[1]["u"]),)] = str(ctx.decode_def(ans))
            elif tag[0] == "refs":
                snap["refs %s" % ((tag[1], tag[2]),)] = str(sorted(map(str, (ctx.decode_use(x) for x in ans)))) if isinstance(ans, list) else str(ans)
            elif tag[0] == "avail":
                snap["avail %s" % tag[1]] = str(sorted((x["name"], str(ctx.decode_def(x))) for x in ans)) if isinstance(ans, list) else str(ans)
            elif tag[0] == "rff":
                snap["rff %s %s" % (tag[1], tag[2])] = str(ctx.decode_def(ans))
            elif tag[0] == "mismatch":
                snap["mismatch %s" % tag[1]] = str(sorted((str(ctx.decode_def(x["fixture"])), str(ctx.decode_def(x["dependency"]))) for x in ans)) if isinstance(ans, list) else str(ans)
            elif tag[0] == "unused":
                snap["unused"] = str(sorted((UNI.slot_of_path.get(x["file"]), x["name"]) for x in ans)) if isinstance(ans, list) else str(ans)
            elif tag[0] == "cycles":
                snap["cycles"] = str(sorted((tuple(sorted(set(x["path"]))), str(ctx.decode_def(x["fixture"]))) for x in ans)) if isinstance(ans, list) else str(ans)
        blames = {}
        for row in case["goto"]:
            if row["blame"]:
                blames["goto %s" % (useid(row["u"]),)] = row["blame"]
        for row in case["avail"]:
            b = set()
            for nm in names:
                b |= set(row["blame"][nm])
            if b:
                blames["avail %s" % row["f"]] = sorted(b)
        for row in case["rff"]:
            if row["blame"]:
                blames["rff %s %s" % (str(defid(row["d"])), row["dep"])] = row["blame"]
        g = groups.setdefault(shape_key(case), [])
        g.append((case["order"], snap, blames, ctx.texts()))

    replayed = drive(meta, build, judge, only=None)
    replayed += drive_rand(tier, build, judge, V)
    for sk, runs in groups.items():
        V.count(len(runs))
        if len(runs) >= 2:
            V.nontriv(sk)
        base_order, base, _, texts = runs[0]
        for order, snap, blames, _ in runs[1:]:
            diff = [k for k in base if base[k] != snap.get(k)]
            if not diff:
                continue
            # which deviations does the model hold responsible for the differing observables?
            blame = set()
            unexplained = []
            for k in diff:
                kb = set()
                for (_, _, bl, _) in runs:
                    kb |= set(bl.get(k, []))
                if k.startswith("refs") or k == "unused":
                    # derived from navigation: explained iff some navigation answer differs for a blamed reason
                    for (_, _, bl, _) in runs:
                        for kk, v in bl.items():
                            if kk.startswith("goto"):
                                kb |= set(v)
                if not kb:
                    unexplained.append(k)
                blame |= kb
            ex = {"shape": json.loads(sk), "order_a": base_order, "order_b": order,
                  "differing": {k: [base[k], snap.get(k)] for k in diff[:8]}, "blame": sorted(blame), "files": texts}
            if unexplained:
                ex["unexplained"] = unexplained
                V.violation(ex, "answers depend on the registration order (not predicted by the implementation model)")
            else:
                V.classify(sorted(blame), ex, "answers depend on the registration order of same-named definitions")
            break
    if groups:
        k0 = next(iter(groups))
        V.sample({"shape": json.loads(k0), "orders": [r[0] for r in groups[k0]][:6]})
    # symbols through the real binary: every definition of the workspace's own files exactly once (fresh process per layout)
    if not os.environ.get("VERIF_REPLAY"):
        import binlayouts
        nb, _ = binlayouts.run(V, tier, {"c08"})
        replayed += nb
        V.notes["lsp_sessions"] = nb
        nl = binlayouts.large_workspace(V, tier)
        replayed += nl
        V.notes["large_workspace_processes"] = nl
    # the import universe: a test module that imports fixtures itself, next to an unrelated same-named sibling conftest
    import diskchecks
    V.notes["field_level_order_runs"] = diskchecks.c08_field_orders(V, tier)
    n_imp, meta_imp = diskchecks.c08_own_imports(V, tier)
    replayed += 2 * n_imp
    V.notes["own_import_cases"] = n_imp
    # cycle reports: registration-order and run-to-run stability on the dependency-graph table
    import depgraphs
    cov2 = depgraphs.run(V, ["cycles"], semantics=False)
    cov = tlc_cov(meta, replayed + cov2["traces_validated_against_impl"])
    cov["states"] += cov2["states"]
    cov["transitions"] += cov2["transitions"]
    return V.finish(
        coverage_extra=cov,
        rule="for every layout of spec/Layouts.tla the full observable snapshot (navigation per usage, references "
             "per definition, per-file view, outgoing-calls resolver, CLI unused; cycles and scope mismatches in the DepGraphs table) is "
             "computed on the real library under EVERY registration order of the files defining the name and the "
             "snapshots are compared; non-trivial = layout with >= 2 orders; TLC checks RepairedEqualsR under all orders; plus the "
             "Imports.tla workspaces whose using file is a test module importing fixtures itself, on disk, analysed with an "
             "unrelated same-named sibling conftest first / last",
        assumptions=["the parallel scan's schedule affects the index only through per-file analysis order (C09 covers atomicity)",
                     "process-level (hash seed) and RAYON_NUM_THREADS variation is exercised in the on-disk tier"])


# ------------------------------------------------------------------------------------------- C20

def check_c20_library(V, tier):
    meta = load_cases("Layouts_quick.cfg" if tier == "quick" else "Layouts_thorough.cfg")

    def build(ctx):
        return [{"op": "unused"}], [("unused",)]

    def judge(ctx, answers, n):
        case = ctx.case
        row = case["unused"][0]
        for tag, ans in answers:
            V.count()
            got = {(UNI.slot_of_path.get(x["file"]), x["name"]) for x in ans} if isinstance(ans, list) else None
            py = {(x["file"], x["name"]) for x in row["py"]}
            impl = {(x["file"], x["name"]) for x in row["impl"]}
            if n_named(case, "n") >= 2:
                V.nontriv((shape_key(case), tuple(case["order"])))
            if got == py:
                continue
            blame = set()
            for r2 in case["goto"]:
                blame |= set(r2["blame"])
            ex = {"shape": case["shape"], "order": case["order"], "got": sorted(map(str, got or [])),
                  "expected": sorted(map(str, py)), "model_predicts": sorted(map(str, impl)),
                  "blame": sorted(blame), "files": ctx.texts()}
            if got == impl:
                V.classify(sorted(blame), ex, "`fixtures unused` differs from 'project, not autouse, no usage resolves to it'")
            else:
                V.drift += 1
                V.violation(ex, "`fixtures unused` differs from the reference and from the implementation model")
        if n % 20000 == 0:
            V.sample({"shape": case["shape"], "order": case["order"], "unused_expected": row["py"]})

    replayed = drive(meta, build, judge, only=replay_filter())
    replayed += drive_rand(tier, build, judge, V)
    return meta, replayed
