------------------------------- MODULE Imports -------------------------------
(***************************************************************************)
(* C14 part A: fixtures reachable through chains of star imports, explicit *)
(* imports (plain and aliased), pytest_plugins declarations -- relative    *)
(* level 1 / 2, absolute, package __init__ vs module, import cycles --     *)
(* from a conftest.py or from a TEST MODULE, are available exactly where   *)
(* the importing file makes them available, from the module that defines   *)
(* them.  Cases are materialised on disk and scanned (scan_workspace), so  *)
(* the scanner's import-closure fixpoint (scanner.rs:234-444) and          *)
(* resolve_module_to_file (imports.rs:281-407) are exercised for real.     *)
(***************************************************************************)
EXTENDS Index, Json

VARIABLES stage, case, vws, vix
vars == <<stage, case, vws, vix>>

IFiles == {"c", "cs", "u", "ti", "m1", "m2", "pk", "m3", "ri", "si"}
IDirs == {"R", "Rsub", "Rpkg"}
IDirOf == [f \in IFiles |-> CASE f \in {"c", "ti", "m1", "m2", "ri"} -> "R" [] f \in {"cs", "u", "si"} -> "Rsub" [] OTHER -> "Rpkg"]
IParentOf == [d \in IDirs |-> IF d = "R" THEN "NODIR" ELSE "R"]
IRoleOf == [f \in IFiles |-> CASE f \in {"c", "cs"} -> "conftest" [] f \in {"u", "ti"} -> "test" [] OTHER -> "module"]
INames == {"fa", "fb", "fc", "fp", "fz", "fr"}
AllUse == <<"fa", "fb", "fc", "fp", "fz", "fr">>

\* first edge: how the importer reaches its target
FirstEdges(imp) ==
    LET lvl == IF imp = "cs" THEN 2 ELSE 0 IN     \* from R/sub/conftest.py everything is one level up
    { <<Spelled(Star("m1"), lvl)>>, <<Spelled(Imp("m1", "fa"), lvl)>>, <<Spelled(ImpAs("m1", "fa", "fz"), lvl)>>,
      <<Spelled(Star("pk"), lvl)>>, <<Spelled(Star("m3"), lvl)>>, <<Spelled(Imp("m3", "fc"), lvl)>>,
      \* the same re-exporting package referenced by two import statements: its own fixture and one it re-exports
      <<Spelled(Imp("pk", "fp"), lvl), Spelled(Imp("pk", "fc"), lvl)>>,
      <<Spelled(Imp("pk", "fc"), lvl), Spelled(Imp("pk", "fp"), lvl)>>,
      <<Spelled(Star("pk"), lvl), Spelled(Imp("pk", "fc"), lvl)>>,
      \* BARE relative imports (no module name after the dots): the importer's own package (`from . import`) or, from
      \* R/sub/conftest.py, the PARENT package (`from .. import`), i.e. R/__init__.py; and the importer's own package
      \* __init__ next to a sub-directory conftest (`from . import *` in R/sub/conftest.py -> R/sub/__init__.py)
      <<Spelled(Star("ri"), lvl)>>, <<Spelled(Imp("ri", "fr"), lvl)>>, <<Spelled(ImpAs("ri", "fr", "fz"), lvl)>> }
    \cup (IF imp = "cs" THEN { <<Spelled(Star("si"), 0)>>, <<Spelled(Imp("si", "fr"), 0)>>,
                               <<Spelled(Star("si"), 0), Spelled(Star("ri"), 2)>> }
          ELSE {})
    \cup (IF imp # "cs" THEN { <<Spelled(Star("m1"), 1)>>, <<Spelled(Plugins("m1"), 1)>>, <<Spelled(Plugins("m3"), 1)>>,
                               <<Spelled(Plugins("m2"), 1), Spelled(Plugins("m1"), 1)>> }   \* last assignment wins
          ELSE {})
\* what m1 and the package __init__ import further
M1Chains == { <<>>, <<Star("m2")>>, <<Star("m1")>>, <<Imp("m2", "fb")>>, <<Spelled(Plugins("m2"), 1)>>, <<Star("m2"), Star("pk")>> }
M2Chains == { <<>>, <<Star("m1")>> }                 \* closes a 2-cycle with m1 -> m2
PkChains == { <<>>, <<Star("m3")>> }                 \* `from .mod3 import *` in pkg/__init__.py

Shapes == [imp : {"c", "cs", "ti"}, first : UNION { FirstEdges(i) : i \in {"c", "cs", "ti"} }, m1c : M1Chains, m2c : M2Chains, pkc : PkChains]
ValidShape(c) == c.first \in FirstEdges(c.imp) /\ (c.m2c # <<>> => c.m1c = <<Star("m2")>>)

WsOfI(c) ==
    [f \in IFiles |->
       CASE f = c.imp /\ f # "ti" -> Module(c.first)
         [] f = "ti" -> IF c.imp = "ti" THEN Module(c.first \o <<Test("test_i", AllUse)>>) ELSE Absent
         [] f \in {"c", "cs"} -> Absent
         [] f = "u"  -> Module(<<Test("test_u", AllUse)>>)
         [] f = "m1" -> Module(<<PlainDef("fa", <<>>)>> \o c.m1c)
         [] f = "m2" -> Module(<<PlainDef("fb", <<>>)>> \o c.m2c)
         [] f = "pk" -> Module(<<PlainDef("fp", <<>>)>> \o c.pkc)
         [] f = "m3" -> Module(<<PlainDef("fc", <<>>)>>)
         \* package __init__ files exist only where an import statement refers to them
         [] f = "ri" -> IF \E k \in 1..Len(c.first) : c.first[k].mod = "ri" THEN Module(<<PlainDef("fr", <<>>)>>) ELSE Absent
         [] f = "si" -> IF \E k \in 1..Len(c.first) : c.first[k].mod = "si"
                        THEN Module(<<PlainDef(IF Len(c.first) = 2 THEN "fb" ELSE "fr", <<>>)>>) ELSE Absent]

UsingFile(c) == IF c.imp = "ti" THEN "ti" ELSE "u"

RECURSIVE SetToSeqI(_)
SetToSeqI(S) == IF S = {} THEN <<>> ELSE LET x == CHOOSE y \in S : TRUE IN <<x>> \o SetToSeqI(S \ {x})

Dummy == [shape |-> <<>>, order |-> <<>>]
Init == stage = 0 /\ case = Dummy /\ vws = <<>> /\ vix = <<>>
Next ==
    \/ /\ stage = 0
       /\ \E i \in {"c", "cs", "ti"} : \E m \in M1Chains :
            stage' = 1 /\ case' = [shape |-> <<i, m>>, order |-> <<>>] /\ UNCHANGED <<vws, vix>>
    \/ /\ stage = 1
       /\ \E c \in { x \in Shapes : ValidShape(x) /\ x.imp = case.shape[1] /\ x.m1c = case.shape[2] } :
            LET w == WsOfI(c)
                \* the index the scan SHOULD build: every file reachable from conftest / test files is analysed
                o == SetToSeqI({ f \in IFiles : w[f].present })
            IN  /\ stage' = 2 /\ case' = [shape |-> c, order |-> o]
                /\ vws' = w
                /\ vix' = Build(w, INames, o, {}, [f \in IFiles |-> w[f]])
Spec == Init /\ [][Next]_vars
Done == stage = 2

U == UsingFile(case.shape)
BlameI(good(_)) ==
    LET single == { d \in AllDevs : good(AllDevs \ {d}) }
    IN  IF single # {} THEN single ELSE { d \in AllDevs : ~good({d}) }

Row(n) ==
    LET py == PyResolveSet(vws, U, n, NoDef)
        impl == IdOf(ImplClosest(vix, AllDevs, U, n, NoDef))
    IN  [name |-> n, py |-> py, impl |-> impl,
         blame |-> IF impl \in py THEN {} ELSE BlameI(LAMBDA D : IdOf(ImplClosest(vix, D, U, n, NoDef)) \in py)]

\* which modules must have been discovered (analysed) by the scan: the import closure of the importer
Discovered == ImportClosure(vws, case.shape.imp, {}) \cup {"u"}

CaseJson ==
    [shape |-> case.shape, using |-> U, ws |-> [f \in { g \in IFiles : vws[g].present } |-> vws[f]],
     rows |-> { Row(n) : n \in INames },
     discovered |-> Discovered]
EmitCase == Done => PrintT("CASE " \o ToJson(CaseJson))

RepairedEqualsRI ==
    Done => \A n \in INames : IdOf(ImplClosest(vix, {}, U, n, NoDef)) \in PyResolveSet(vws, U, n, NoDef)
=============================================================================
