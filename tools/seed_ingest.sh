#!/bin/bash
# usage: seed_ingest.sh <property> <srcdir with A/ and B/> <n1> <n2>   -- copies sub-agent deliveries into /verif/seeded and confirms them
P=$1; SRC=$2; N1=$3; N2=$4
for pair in "A:$N1" "B:$N2"; do
  L=${pair%%:*}; N=${pair##*:}
  [ -d "$SRC/$L" ] || continue
  D=/verif/seeded/${P}_$N
  mkdir -p $D
  cp $SRC/$L/patch.diff $D/patch.diff
  for f in demo.rs demo.py meta.json; do [ -f $SRC/$L/$f ] && cp $SRC/$L/$f $D/$f; done
  bash /verif/tools/seed_confirm.sh $D
done
