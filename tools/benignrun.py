"""Soundness self-test: behaviour-preserving refactorings of /repo (written by a sub-agent that saw nothing of
/verif) must raise no alarm.  Applies /verif/benign/<i>/patch.diff to a scratch worktree (outside /repo and
/verif), runs the named quick checks (default: all) against it, records the result in benign/<i>/runs.json.
  usage: python3 tools/benignrun.py <i>|all [<check> ...]"""
import json
import os
import subprocess
import sys
import time

VERIF = os.path.dirname(os.path.dirname(os.path.abspath(__file__)))
WT = os.environ.get("BENIGN_WT", "/tmp/benignrepo")
ALL = ["C%02d" % i for i in range(1, 21)]


def sh(cmd):
    return subprocess.run(cmd, shell=True, stdout=subprocess.PIPE, stderr=subprocess.STDOUT, text=True)


def one(bid, checks):
    bd = os.path.join(VERIF, "benign", bid)
    head = sh("git -C /repo rev-parse HEAD").stdout.strip()
    if not os.path.isdir(WT):
        r = sh("git -C /repo worktree add -q --detach %s HEAD" % WT)
        if r.returncode:
            print(r.stdout)
            return 2
    sh("git -C %s reset -q --hard && git -C %s checkout -q --detach %s && git -C %s reset -q --hard %s && git -C %s clean -qfd -e target"
       % (WT, WT, head, WT, head, WT))
    r = sh("git -C %s apply %s" % (WT, os.path.join(bd, "patch.diff")))
    if r.returncode:
        r = sh("git -C %s apply --3way %s" % (WT, os.path.join(bd, "patch.diff")))     # /repo moved on since the patch was made
    if r.returncode:
        print("patch does not apply:", r.stdout)
        return 2
    env = dict(os.environ, VERIF_ALT_REPO=WT, VERIF_ALT_TAG=os.environ.get("BENIGN_TAG", "benign"))
    out = []
    for c in checks:
        t = time.time()
        p = subprocess.run(["./check", c, "--tier", "quick"], cwd=VERIF, env=env, stdout=subprocess.PIPE,
                           stderr=subprocess.PIPE, text=True)
        viol = [l for l in p.stdout.splitlines() if l.startswith("VIOLATION")]
        rec = {"benign": bid, "check": c, "repo_head": head[:7], "exit": p.returncode, "violations": len(viol),
               "false_alarm": p.returncode != 0 or bool(viol), "first": viol[:1], "wall_s": round(time.time() - t, 1),
               "stderr_tail": p.stderr.splitlines()[-3:]}
        out.append(rec)
        print(json.dumps(rec), flush=True)
    sh("git -C %s reset -q --hard" % WT)
    runs_p = os.path.join(bd, "runs.json")
    runs = json.load(open(runs_p)) if os.path.exists(runs_p) else []
    runs = [r for r in runs if not any(r["check"] == o["check"] for o in out)] + out
    json.dump(runs, open(runs_p, "w"), indent=1)
    return 0


if __name__ == "__main__":
    ids = sorted(os.listdir(os.path.join(VERIF, "benign")), key=lambda x: int(x) if x.isdigit() else 99) if sys.argv[1] == "all" else [sys.argv[1]]
    ids = [i for i in ids if os.path.isdir(os.path.join(VERIF, "benign", i))]
    for i in ids:
        one(i, sys.argv[2:] or ALL)
