CONSTANTS
  Files <- GFiles
  Dirs <- GDirs
  DirOf <- GDirOf
  ParentOf <- GParentOf
  RoleOf <- GRoleOf
  Universe = "scopes"
SPECIFICATION Spec
CHECK_DEADLOCK FALSE
INVARIANTS
  RepairedScopeEqualsR
  CyclesTerminate
  EmitCase
