CONSTANTS
  Files <- GFiles
  Dirs <- GDirs
  DirOf <- GDirOf
  ParentOf <- GParentOf
  RoleOf <- GRoleOf
  Universe = "cycles"
SPECIFICATION Spec
CHECK_DEADLOCK FALSE
INVARIANTS
  RepairedScopeEqualsR
  CyclesTerminate
  EmitCase
