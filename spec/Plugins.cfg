SPECIFICATION Spec
CHECK_DEADLOCK FALSE
INVARIANTS
  ThirdNeverProject
  EmitCase
