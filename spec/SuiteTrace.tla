----------------------------- MODULE SuiteTrace -----------------------------
(***************************************************************************)
(* B2 over the repository's OWN test-suite.  The suite is run with the     *)
(* verification hook on (src/fixtures/verif_trace.rs, cfg-guarded): every  *)
(* call of analyze_file_internal made by any test is one event             *)
(*   [db, f, cleanup, parsed, ex, post]                                    *)
(* where `ex` is the projection of the analysed TEXT by CPython under the   *)
(* documented extraction rules (tools/cpyextract.py) and `post` is the     *)
(* slice of the real index that belongs to file f when the call returns.   *)
(*                                                                         *)
(* The specification is Index.tla's Analyze action restricted to one file  *)
(* slice, for arbitrary Python text (the text is represented by what it    *)
(* declares -- its extracted records -- not by an abstract module of the   *)
(* bounded universes):                                                     *)
(*    parse failure : the slice is untouched (C06: the last valid          *)
(*                    version's records stay in effect)                    *)
(*    cleanup path  : defs' = Extract(text).defs, uses' = Extract(text).uses *)
(*    fresh path    : defs' = defs (+) Extract(text).defs  (the scan never *)
(*                    removes; Index.tla AnalyzeFn with cleanup = FALSE)   *)
(* and in every state the reverse indexes mirror the primary maps (C04's   *)
(* Mirror, C09's NoDangling) and every record is filed under its own name. *)
(* Databases and files are whatever the tests create: the state is a       *)
(* function with a growing domain of <<db, file>> keys.                    *)
(*   TRACE=<file> tlc -config SuiteTrace.cfg SuiteTrace.tla                *)
(***************************************************************************)
EXTENDS Naturals, Sequences, FiniteSets, TLC, Json, IOUtils

Rec == ndJsonDeserialize(IOEnv.TRACE)

VARIABLES st,    \* <<db, file>> -> [defs : Seq(DefRec), uses : Seq(UseRec)]   (vector order adopted from the log)
          l,     \* position in the trace
          last   \* the slice logged by the event consumed last (for the state invariants)
vars == <<st, l, last>>

RangeOf(s) == { s[i] : i \in 1..Len(s) }
BagOf(s) == [v \in RangeOf(s) |-> Cardinality({ i \in 1..Len(s) : s[i] = v })]
SameBag(a, b) == BagOf(a) = BagOf(b)

EmptySlice == [defs |-> <<>>, uses |-> <<>>]
EmptyPost == [defs |-> <<>>, keys |-> <<>>, uses |-> <<>>, ubf |-> <<>>, ubfkeys |-> <<>>, fdefs |-> <<>>]
SliceOf(key) == IF key \in DOMAIN st THEN st[key] ELSE EmptySlice

\* ---- the specification's Analyze action on one file slice
AnalyzeSlice(prev, ex, cleanup, parsed) ==
    IF ~parsed THEN prev
    ELSE [defs |-> (IF cleanup THEN <<>> ELSE prev.defs) \o ex.defs, uses |-> ex.uses]

Init == st = <<>> /\ l = 1 /\ last = EmptyPost

Put(key, v) == [k \in DOMAIN st \cup {key} |-> IF k = key THEN v ELSE st[k]]

Step ==
    /\ l <= Len(Rec)
    /\ l' = l + 1
    /\ LET e == Rec[l] IN
       IF e.ev # "analyze" THEN UNCHANGED <<st, last>>
       ELSE LET key == <<e.db, e.f>>
                want == AnalyzeSlice(SliceOf(key), e.ex, e.cleanup, e.parsed)
            IN  /\ e.judged => /\ SameBag(e.post.defs, want.defs)
                               \* named deviation indirect_whole_string (Positions.tla / KF-C15-indirect-whole-string):
                               \* with indirect=True every name is recorded with the range of the whole string
                               /\ \/ SameBag(e.post.uses, want.uses)
                                  \/ e.parsed /\ SameBag(e.post.uses, e.ex.uses_dev)
                \* the logged vector ORDER is adopted (the properties speak about which records exist)
                /\ st' = Put(key, [defs |-> e.post.defs, uses |-> e.post.uses])
                /\ last' = e.post
Next == Step
Spec == Init /\ [][Next]_vars

\* ---- invariants evaluated in every state of the validated trace
\* C04 Mirror: the reverse usage index holds exactly the file's usages
SMirror == SameBag(last.ubf, last.uses)
\* every reverse-index entry is filed under the usage's own name (and path)
SUbfKeyed == \A i \in 1..Len(last.ubf) : last.ubfkeys[i] = last.ubf[i].name
\* C09 NoDangling: file_definitions[f] is exactly the set of names f defines
SNoDangling == RangeOf(last.fdefs) = { last.defs[i].name : i \in 1..Len(last.defs) }
\* every definition is filed under its own name
SDefKeyed == \A i \in 1..Len(last.defs) : last.keys[i] = last.defs[i].name
\* a recorded range is well-formed
SRanges == /\ \A i \in 1..Len(last.defs) : last.defs[i].line >= 1 /\ last.defs[i].sc <= last.defs[i].ec
           /\ \A i \in 1..Len(last.uses) : last.uses[i].line >= 1 /\ last.uses[i].sc <= last.uses[i].ec

TraceAccepted ==
    LET d == TLCGet("stats").diameter - 1 IN
    IF d = Len(Rec) THEN TRUE
    ELSE Print(<<"TRACE-REJECTED first unmatched event (1-based line)", d + 1>>, FALSE)
=============================================================================
