CONSTANTS
  Files <- IFiles
  Dirs <- IDirs
  DirOf <- IDirOf
  ParentOf <- IParentOf
  RoleOf <- IRoleOf
SPECIFICATION Spec
CHECK_DEADLOCK FALSE
INVARIANTS
  RepairedEqualsRI
  EmitCase
