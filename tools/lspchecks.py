"""Checks that drive the REAL server binary over stdio: C19 (diagnostics track latest content and
configuration).  Histories x configuration variants are enumerated by TLC from spec/Lsp.tla; the
published notifications are compared with the specification's expectation (codes) and with a
library-level twin analysis of the same contents (positions and counts)."""
import json
import os
import shutil

import common as C
import lsp

C_TEXT = {
    1: 'import pytest\n\n\n@pytest.fixture\ndef a():\n    return 1\n\n\n@pytest.fixture(scope="session")\ndef s(a):\n    return a\n',
    2: 'import pytest\n\n\n@pytest.fixture\ndef a(b):\n    return b\n\n\n@pytest.fixture\ndef b(a):\n    return a\n',
    3: 'import pytest\n\n\n@pytest.fixture\ndef a():\n    return 1\n',
    4: 'import pytest\n',
}
T_TEXT = {
    1: 'def test_1():\n    result = a.value\n    assert result\n',
    2: 'def test_1(a):\n    assert a\n',
    3: 'import pytest\n\n\n@pytest.fixture(scope="session")\ndef f(a):\n    return a\n\n\ndef test_1(f):\n    assert f\n',
    4: 'def test_1(:\n    result = a.value\n',
}
TEXT = {"c": C_TEXT, "t": T_TEXT}
FNAME = {"c": "conftest.py", "t": "test_t.py"}
CODES = ["undeclared-fixture", "circular-dependency", "scope-mismatch"]


def pyproject(cfg):
    k = cfg["kind"]
    codes = list(cfg["codes"] or [])
    lst = ", ".join('"%s"' % c for c in codes)
    if k == "absent":
        return None
    if k == "nosection":
        return b'[tool.other]\nx = 1\n'
    if k == "valid":
        return ('[tool.pytest-language-server]\ndisabled_diagnostics = [%s]\n' % lst).encode()
    if k == "quoted":
        return ('[tool."pytest-language-server"]\ndisabled_diagnostics = [%s]\n' % lst).encode()
    if k == "spaced":
        return ('[ tool . pytest-language-server ]\ndisabled_diagnostics = [%s]\n' % lst).encode()
    if k == "dotted":
        return ('[tool]\npytest-language-server.disabled_diagnostics = [%s]\n' % lst).encode()
    if k == "unknown":
        lst2 = ", ".join(['"bogus-code"'] + ['"%s"' % c for c in codes] + ['"Scope-Mismatch"'])
        return ('[tool.pytest-language-server]\ndisabled_diagnostics = [%s]\n' % lst2).encode()
    if k == "badglob":
        return ('[tool.pytest-language-server]\nexclude = ["[invalid", "build_out/**"]\ndisabled_diagnostics = [%s]\n' % lst).encode()
    if k == "malformed":
        return b'[tool.pytest-language-server\ndisabled_diagnostics = ["scope-mismatch"\n'
    if k == "nonutf8":
        return b'\xff\xfe[tool.pytest-language-server]\ndisabled_diagnostics = ["scope-mismatch"]\n'
    raise C.ToolError("unknown cfg kind %r" % k)


def diag_key(d):
    r = d["range"]
    return (d.get("code"), r["start"]["line"], r["start"]["character"], r["end"]["character"])


def check_c19(tier):
    V = C.Verdict("C19", tier, "model_checking")
    cfgf = "Lsp_quick.cfg" if tier == "quick" else "Lsp_thorough.cfg"
    meta = C.run_tlc("Lsp", cfgf, workers=8, timeout=3600)
    if not meta["ok"]:
        raise C.ToolError("TLC on Lsp/%s failed: %s" % (cfgf, meta["errors"]))
    C.build_harness()
    C.build_server()
    cases = list(C.tlc_cases(meta))
    expect = {}
    for c in cases:
        expect[(json.dumps(c["cfg"], sort_keys=True), json.dumps(c["hist"]))] = (set(c["expect"] or []), set(c["disabled"] or []))
    # only maximal histories are replayed; every prefix is checked on the way
    keys = set(expect)
    maximal = []
    for c in cases:
        ck = json.dumps(c["cfg"], sort_keys=True)
        ext = False
        for d in ("c", "t"):
            for v in (1, 2, 3, 4):
                if (ck, json.dumps(c["hist"] + [{"d": d, "v": v}])) in keys:
                    ext = True
                    break
            if ext:
                break
        if not ext:
            maximal.append(c)
    base = os.path.join(C.BUILD, "ws", "c19-%d" % os.getpid())
    shutil.rmtree(base, ignore_errors=True)

    # ---- library twin: expected (code, line, cols) per (history prefix), independent of config
    twin_cases = []
    twin_index = {}
    for c in maximal:
        hist = c["hist"]
        for k in range(1, len(hist) + 1):
            hk = json.dumps(hist[:k])
            if hk in twin_index:
                continue
            pre = hist[:k]
            last = pre[-1]
            order = []
            for ev in pre:
                if ev["d"] in order:
                    order.remove(ev["d"])
                order.append(ev["d"])
            # the document changed last is analysed last; others keep the order of their last notification
            ops = []
            if last["d"] == "t" and last["v"] == 4:
                # unparsable latest text: undeclared findings are those of the last successful analysis,
                # i.e. the fresh server receives the same notifications in the same order
                order = []
                for ev in pre:
                    ops.append({"op": "analyze", "path": "/vws19/%s" % FNAME[ev["d"]], "text": TEXT[ev["d"]][ev["v"]]})
            for d in order:
                vs = [ev["v"] for ev in pre if ev["d"] == d]
                valid = [v for v in vs if not (d == "t" and v == 4)]
                path = "/vws19/%s" % FNAME[d]
                if valid:
                    ops.append({"op": "analyze", "path": path, "text": TEXT[d][valid[-1]]})
                if vs[-1] != (valid[-1] if valid else None):
                    ops.append({"op": "analyze", "path": path, "text": TEXT[d][vs[-1]]})
            path = "/vws19/%s" % FNAME[last["d"]]
            n0 = len(ops)
            ops += [{"op": "undeclared", "path": path}, {"op": "cycles_in_file", "path": path},
                    {"op": "scope_mismatch", "path": path}, {"op": "snapshot", "full": True}]
            twin_index[hk] = (len(twin_cases), n0, path)
            twin_cases.append({"id": len(twin_cases), "ops": ops})
    twin_res = list(C.run_harness(twin_cases))

    def twin_expected(hist_prefix):
        i, n0, path = twin_index[json.dumps(hist_prefix)]
        r = twin_res[i]["res"]
        und, cyc, mis, snap = r[n0], r[n0 + 1], r[n0 + 2], r[n0 + 3]
        out = set()
        for u in und:
            out.add(("undeclared-fixture", u["line"] - 1, u["sc"], u["ec"]))
        defs = {(d["file"], d["line"], d["name"]): d for lst in snap["defs"].values() for d in lst}
        for cy in cyc:
            d = defs[(cy["fixture"]["file"], cy["fixture"]["line"], cy["fixture"]["name"])]
            out.add(("circular-dependency", d["line"] - 1, d["sc"], d["ec"]))
        for m in mis:
            d = defs[(m["fixture"]["file"], m["fixture"]["line"], m["fixture"]["name"])]
            out.add(("scope-mismatch", d["line"] - 1, d["sc"], d["ec"]))
        return out

    def session(job):
        n, c = job
        root = os.path.join(base, "s%d" % n)
        os.makedirs(root, exist_ok=True)
        pp = pyproject(c["cfg"])
        if pp is not None:
            with open(os.path.join(root, "pyproject.toml"), "wb") as fh:
                fh.write(pp)
        trace = []
        srv = lsp.Server(trace=trace)
        out = []
        try:
            srv.initialize(root)
            opened = set()
            ver = 0
            for ev in c["hist"]:
                path = os.path.join(root, FNAME[ev["d"]])
                ver += 1
                if ev["d"] in opened:
                    diags = srv.did_change(path, TEXT[ev["d"]][ev["v"]], version=ver)
                else:
                    diags = srv.did_open(path, TEXT[ev["d"]][ev["v"]], version=ver)
                    opened.add(ev["d"])
                out.append([diag_key(d) for d in diags])
            alive = srv.alive()
        except (lsp.ServerDied, lsp.Timeout) as e:
            return {"error": str(e), "published": out, "trace": trace}
        finally:
            srv.close()
            shutil.rmtree(root, ignore_errors=True)
        return {"published": out, "alive": alive, "trace": trace}

    results = lsp.run_parallel(list(enumerate(maximal)), session, workers=8)
    sessions = 0
    for c, res in zip(maximal, results):
        sessions += 1
        ck = json.dumps(c["cfg"], sort_keys=True)
        if res is None or "__exception__" in res:
            raise C.ToolError("LSP session failed: %r" % (res,))
        if "error" in res:
            V.violation({"cfg": c["cfg"], "hist": c["hist"], "error": res["error"]},
                        "server died or did not publish diagnostics after a notification")
            continue
        for k in range(1, len(c["hist"]) + 1):
            pre = c["hist"][:k]
            V.count()
            exp_codes, disabled = expect[(ck, json.dumps(pre))]
            pub = res["published"][k - 1]
            pub_set = set(map(tuple, pub))
            twin = {x for x in twin_expected(pre) if x[0] not in disabled}
            if len(pre) >= 2 or c["cfg"]["kind"] != "absent":
                V.nontriv((ck, json.dumps(pre)))
            ex = {"cfg": c["cfg"], "pyproject": (pyproject(c["cfg"]) or b"").decode("latin-1"), "hist": pre,
                  "published": sorted(map(list, pub_set)), "expected_codes": sorted(exp_codes),
                  "library_twin": sorted(map(list, twin)),
                  "texts": [[e["d"], TEXT[e["d"]][e["v"]]] for e in pre]}
            if {x[0] for x in twin} != exp_codes:
                # the concrete texts do not have the causes the specification attributes to them
                raise C.ToolError("Lsp.tla expectation %r and library twin %r disagree for %r"
                                  % (sorted(exp_codes), sorted(twin), pre))
            if len(pub) != len(pub_set):
                V.violation(ex, "a diagnostic is published twice")
            elif pub_set != twin:
                V.violation(ex, "published diagnostics differ from the findings of the latest content minus disabled codes")
    shutil.rmtree(base, ignore_errors=True)
    V.sample({"cfg": maximal[0]["cfg"], "hist": maximal[0]["hist"], "published": results[0].get("published")})
    V.sample({"cfg": maximal[-1]["cfg"], "hist": maximal[-1]["hist"], "published": results[-1].get("published")})
    cov = {"states": meta["distinct"], "transitions": meta["transitions"], "traces_validated_against_impl": sessions,
           "tlc": {"module": "Lsp", "cfg": cfgf, "wall_s": meta["wall_s"], "cached": meta.get("cached", False)},
           "exhaustive": True}
    return V.finish(
        coverage_extra=cov,
        rule="TLC enumerates every history of didOpen/didChange over {conftest.py, test_t.py} x 4 versions each "
             "(introducing and removing each cause: undeclared use, cycle, scope mismatch; unparsable text) up to the "
             "length bound, for every configuration variant (absent, no section, every subset of disabled codes, unknown "
             "code among valid ones, invalid glob among valid ones, malformed TOML, non-UTF-8); every maximal history "
             "is one session of the real binary over stdio; after each notification the published set is compared with "
             "the specification's codes and a library-level twin analysis; non-trivial = history of length >= 2 or a "
             "configuration file present",
        assumptions=["a configuration value of the wrong TYPE is not judged (statement lists unknown codes, invalid globs, unparsable file)",
                     "documents are sent by didOpen/didChange only (nothing on disk besides pyproject.toml)"])
