"""Shared machinery: builds, TLC runs (cached by specification hash), harness runs, known findings,
verdicts, evidence.  Exit codes: 0 held (KNOWN-FINDING lines allowed), 1 VIOLATION, 2 tool error."""
import gzip
import hashlib
import json
import os
import re
import subprocess
import sys
import time

VERIF = os.path.dirname(os.path.dirname(os.path.abspath(__file__)))
BUILD = os.path.join(VERIF, ".build")
SPEC = os.path.join(VERIF, "spec")
EVID = os.path.join(VERIF, "evidence")
REPLAYS = os.path.join(EVID, "replays")
HARNESS_DIR = os.path.join(VERIF, "harness")
HARNESS_BIN = os.path.join(BUILD, "target-harness", "release", "plsverif")
SERVER_TARGET = os.path.join(BUILD, "target-server")
SERVER_BIN = os.path.join(SERVER_TARGET, "release", "pytest-language-server")
REPO = "/repo"
ALT_SUFFIX = ""
# Seeded-fault self-test only (tools/seedrun.py): run the same checks against a scratch copy of the
# repository outside /repo and /verif, with separate build and evidence directories.  The registered
# commands never set these variables and always build from /repo.
if os.environ.get("VERIF_ALT_REPO"):
    REPO = os.environ["VERIF_ALT_REPO"]
    _sfx = os.environ.get("VERIF_ALT_TAG", "alt")
    ALT_SUFFIX = "-" + _sfx
    EVID = os.path.join(BUILD, "evidence-" + _sfx)
    REPLAYS = os.path.join(EVID, "replays")
    SERVER_TARGET = os.path.join(BUILD, "target-server-" + _sfx)
    SERVER_BIN = os.path.join(SERVER_TARGET, "release", "pytest-language-server")
    _alt_h = os.path.join(BUILD, "harness-" + _sfx)
    import subprocess as _sp
    os.makedirs(_alt_h, exist_ok=True)
    _sp.run(["rsync", "-a", "--delete", "--exclude", "target", HARNESS_DIR + "/", _alt_h + "/"], check=True)
    _ct = open(os.path.join(HARNESS_DIR, "Cargo.toml")).read().replace('path = "/repo"', 'path = "%s"' % REPO)
    open(os.path.join(_alt_h, "Cargo.toml"), "w").write(_ct)
    _cc = open(os.path.join(HARNESS_DIR, ".cargo", "config.toml")).read().replace("../.build/target-harness", "../target-harness-" + _sfx)
    open(os.path.join(_alt_h, ".cargo", "config.toml"), "w").write(_cc)
    HARNESS_DIR = _alt_h
    HARNESS_BIN = os.path.join(BUILD, "target-harness-" + _sfx, "release", "plsverif")


class ToolError(Exception):
    pass


def log(*a):
    print(*a, file=sys.stderr, flush=True)


def scrubbed_env(extra=None):
    env = dict(os.environ)
    for k in ("VIRTUAL_ENV", "RUST_LOG", "RUST_BACKTRACE"):
        env.pop(k, None)
    env["NO_COLOR"] = "1"
    env["LANG"] = "C.UTF-8"
    env["CARGO_NET_OFFLINE"] = "true"
    if extra:
        env.update(extra)
    return env


def seed():
    try:
        return int(os.environ.get("VERIF_SEED", "0"))
    except ValueError:
        return 0


# ------------------------------------------------------------------------------------------ builds

def build_harness():
    """Always rebuild (incrementally) from /repo's current working tree with the hooks enabled."""
    t = time.time()
    p = subprocess.run(["cargo", "build", "--release", "--offline"], cwd=HARNESS_DIR,
                       env=scrubbed_env(), stdout=subprocess.PIPE, stderr=subprocess.STDOUT, text=True)
    if p.returncode != 0:
        raise ToolError("harness build failed:\n" + p.stdout[-4000:])
    log("[build] harness %.1fs" % (time.time() - t))
    return HARNESS_BIN


def build_server():
    """The real server binary, built from /repo's manifest into /verif/.build (nothing is written to /repo)."""
    t = time.time()
    p = subprocess.run(["cargo", "build", "--release", "--offline", "--bin", "pytest-language-server",
                        "--manifest-path", os.path.join(REPO, "Cargo.toml"), "--target-dir", SERVER_TARGET,
                        "--config", "profile.release.debug=false"],
                       env=scrubbed_env({"RUSTFLAGS": "--cfg pytest_language_server_verif --check-cfg cfg(pytest_language_server_verif)"}),
                       stdout=subprocess.PIPE, stderr=subprocess.STDOUT, text=True)
    if p.returncode != 0:
        raise ToolError("server build failed:\n" + p.stdout[-4000:])
    log("[build] server %.1fs" % (time.time() - t))
    return SERVER_BIN


# --------------------------------------------------------------------------------------------- TLC

def _spec_hash(files, extra=""):
    h = hashlib.sha256()
    for f in sorted(files):
        with open(f, "rb") as fh:
            h.update(f.encode() + b"\0" + fh.read() + b"\0")
    h.update(extra.encode())
    return h.hexdigest()[:20]


def spec_deps(module):
    """transitive EXTENDS/INSTANCE closure inside /verif/spec"""
    seen, todo = set(), [module]
    while todo:
        m = todo.pop()
        p = os.path.join(SPEC, m + ".tla")
        if m in seen or not os.path.exists(p):
            continue
        seen.add(m)
        txt = open(p).read()
        for mm in re.findall(r"^\s*EXTENDS\s+(.*)$", txt, re.M):
            todo += [x.strip() for x in mm.split(",")]
        todo += re.findall(r"INSTANCE\s+(\w+)", txt)
    return [os.path.join(SPEC, m + ".tla") for m in seen]


def run_tlc(module, cfg, workers=12, timeout=3600, extra_args=(), env_extra=None, tag=None, cache=True,
            simulate=None, coverage=False):
    """Runs TLC on spec/<module>.tla with spec/<cfg>.  Returns dict(meta) with keys states, distinct,
    transitions(=states generated), out (path of gz output with the CASE lines), ok, coverage.
    Results are cached by the hash of the specification closure + cfg + args (never by repo state)."""
    cfgp = os.path.join(SPEC, cfg)
    key = _spec_hash(spec_deps(module) + [cfgp], repr((extra_args, env_extra, simulate, coverage)))
    cdir = os.path.join(BUILD, "tlc-cache")
    os.makedirs(cdir, exist_ok=True)
    base = os.path.join(cdir, "%s-%s-%s" % (module, os.path.splitext(cfg)[0], key))
    meta_p, out_p = base + ".meta.json", base + ".out.gz"
    if cache and os.path.exists(meta_p) and os.path.exists(out_p):
        meta = json.load(open(meta_p))
        meta["cached"] = True
        return meta
    metadir = base + ".states.%d" % os.getpid()    # per process: concurrent checks may compute the same key
    cmd = ["tlc", "-workers", str(workers), "-metadir", metadir, "-cleanup", "-noGenerateSpecTE",
           "-config", cfg]
    if coverage:
        cmd += ["-coverage", "1"]
    if simulate:
        cmd += ["-simulate", simulate]
    cmd += list(extra_args) + [module + ".tla"]
    t = time.time()
    env = scrubbed_env(env_extra)
    tmp_out = base + ".out.tmp.%d" % os.getpid()
    out_tmp = out_p + ".%d" % os.getpid()
    with open(tmp_out, "wb") as fh:
        try:
            p = subprocess.run(["timeout", str(timeout)] + cmd, cwd=SPEC, env=env, stdout=fh,
                               stderr=subprocess.STDOUT)
        except Exception as e:  # pragma: no cover
            raise ToolError("TLC failed to start: %s" % e)
    wall = time.time() - t
    subprocess.run(["rm", "-rf", metadir])
    states = distinct = None
    ok = False
    err_lines = []
    cov = {}
    n_case = 0
    with open(tmp_out, "rb") as fh, gzip.open(out_tmp, "wb", compresslevel=1) as gz:
        for raw in fh:
            if raw[:1] == b'"' and raw[1:9].split(b" ")[0] in (b"CASE", b"REPLAY", b"TRACE", b"VERSIONS", b"DISK"):
                gz.write(raw)
                n_case += 1
                continue
            line = raw.decode("utf-8", "replace").rstrip("\n")
            m = re.match(r"(\d+) states generated, (\d+) distinct states found", line)
            if m:
                states, distinct = int(m.group(1)), int(m.group(2))
            if "Model checking completed. No error has been found" in line:
                ok = True
            if re.search(r"Error:|is violated|Exception|Deadlock reached|Parsing or semantic analysis failed", line):
                err_lines.append(line)
            m = re.match(r"<(\w+) line (\d+), col \d+ to line \d+, col \d+ of module (\w+)>: (\d+):(\d+)", line)
            if m:
                cov["%s.%s" % (m.group(3), m.group(1))] = [int(m.group(4)), int(m.group(5))]
    if simulate and p.returncode in (0, 124) and not err_lines:
        ok = True
    os.unlink(tmp_out)
    os.replace(out_tmp, out_p)      # atomic: a concurrent reader sees the old complete file or the new complete file
    meta = {"module": module, "cfg": cfg, "states": states or 0, "distinct": distinct or 0,
            "transitions": states or 0, "ok": ok and p.returncode == 0 or (bool(simulate) and ok),
            "rc": p.returncode, "errors": err_lines[:20], "coverage": cov, "wall_s": round(wall, 1),
            "out": out_p, "cases": n_case, "cmd": " ".join(cmd), "cached": False}
    if not cache:
        if n_case == 0 and os.path.exists(out_p):
            os.unlink(out_p)          # nothing to read back, nothing to keep (generated, per-process modules)
    elif meta["ok"]:
        json.dump(meta, open(meta_p + ".%d" % os.getpid(), "w"))
        os.replace(meta_p + ".%d" % os.getpid(), meta_p)
    return meta


def tlc_cases(meta, prefix="CASE"):
    """iterate the JSON payloads TLC printed (PrintT of a string -> a JSON-escaped string)"""
    pre = ('"%s ' % prefix).encode()
    with gzip.open(meta["out"], "rb") as fh:
        for raw in fh:
            if not raw.startswith(pre):
                continue
            s = json.loads(raw)
            yield json.loads(s[len(prefix) + 1:])


# ----------------------------------------------------------------------------------------- harness

class CodeCrashed(Exception):
    """the code under test aborted the harness process or did not return on one identified case: a verdict, not a
    tool error (a panic / crash / hang of the code under test is data)"""

    def __init__(self, case, reason):
        Exception.__init__(self, reason)
        self.case, self.reason = case, reason


def write_crash_evidence(prop, tier, e, replay_path):
    """evidence of a run that ended with the code under test crashing / hanging on an identified case"""
    level = "exploration" if prop == "C11" else "model_checking"
    ev = {"property_id": prop, "tier": tier, "seed": seed(), "level": level,
          "coverage": {"evaluations": 1, "distinct_nontrivial": 1,
                       "rule": "the run was cut short: the code under test aborted the process or did not return on the case shown in samples",
                       "samples": [e.case], "states": 0, "transitions": 0, "traces_validated_against_impl": 1, "exhaustive": False},
          "assumptions": [], "wall_s": 0.0, "violations": 1, "crash": e.reason, "replay": replay_path}
    os.makedirs(EVID, exist_ok=True)
    json.dump(ev, open(os.path.join(EVID, prop + ".json"), "w"), indent=1, default=str)


HARNESS_TIMEOUT = int(os.environ.get("VERIF_HARNESS_TIMEOUT", "1500"))   # per batch
SINGLE_TIMEOUT = 120                                                      # one case alone


def _harness_once(buf, threads, timeout, tag):
    path = os.path.join(BUILD, "tmp", "cases-%d-%s.ndjson" % (os.getpid(), tag))
    prog = path + ".progress"
    with open(path, "w") as fh:
        for c in buf:
            fh.write(json.dumps(c, separators=(",", ":")))
            fh.write("\n")
    if os.path.exists(prog):
        os.unlink(prog)
    cmd = ["timeout", "-s", "KILL", str(timeout), HARNESS_BIN, "run", path]
    if threads:
        cmd += ["--threads", str(threads)]
    p = subprocess.run(cmd, env=scrubbed_env({"PLSVERIF_PROGRESS": prog}), stdout=subprocess.PIPE, stderr=subprocess.PIPE)
    os.unlink(path)
    started, ended = [], set()
    if os.path.exists(prog):
        for l in open(prog):
            k, _, v = l.strip().partition(" ")
            (started.append(v) if k == "S" else ended.add(v))
        os.unlink(prog)
    outs = p.stdout.decode().splitlines()
    ok = p.returncode == 0 and len(outs) == len(buf)
    return ok, p, outs, [x for x in started if x not in ended]


def run_harness(cases, threads=None, chunk=20000, timeout=None):
    """cases: iterable of dicts {"id":..,"ops":[..]} -> yields result dicts in order.
    If the harness process dies or does not finish, the case responsible is identified (started but not ended, then
    confirmed by running it alone) and CodeCrashed is raised -- check.py turns it into a VIOLATION with that case as replay."""
    os.makedirs(os.path.join(BUILD, "tmp"), exist_ok=True)
    buf = []
    n = 0

    def flush(buf):
        ok, p, outs, unfinished = _harness_once(buf, threads, timeout or HARNESS_TIMEOUT, str(n))
        if ok:
            return [json.loads(o) for o in outs]
        why = "killed by the %d s watchdog" % (timeout or HARNESS_TIMEOUT) if p.returncode in (124, 137, -9) else \
            "exit status %s: %s" % (p.returncode, p.stderr.decode()[-600:])
        by_id = {json.dumps(c["id"]): c for c in buf}
        for sid in unfinished[:8]:
            c = by_id.get(sid)
            if c is None:
                continue
            ok1, p1, _, _ = _harness_once([c], 1, SINGLE_TIMEOUT, "single")
            if not ok1:
                why1 = "did not return within %d s" % SINGLE_TIMEOUT if p1.returncode in (124, 137, -9) else \
                    "aborted the process (status %s): %s" % (p1.returncode, p1.stderr.decode()[-600:])
                raise CodeCrashed(c, "the code under test %s" % why1)
        raise ToolError("harness run failed (%s) and no single case reproduces it; unfinished: %r" % (why, unfinished[:8]))

    for c in cases:
        buf.append(c)
        if len(buf) >= chunk:
            for r in flush(buf):
                yield r
            n += 1
            buf = []
    if buf:
        for r in flush(buf):
            yield r


# ---------------------------------------------------------------------------- findings and verdicts

def load_findings():
    p = os.path.join(VERIF, "KNOWN_FINDINGS.json")
    if not os.path.exists(p):
        return []
    return json.load(open(p))["findings"]


class Verdict:
    """Collects per-case outcomes of one check run, prints the protocol lines and writes evidence."""

    def __init__(self, prop, tier, level, technique=""):
        self.prop, self.tier, self.level = prop, tier, level
        self.t0 = time.time()
        self.findings = [f for f in load_findings() if f.get("property") == prop]
        self.open = {f["deviation"]: f for f in self.findings if f.get("status") == "open"}
        self.known_counts = {}
        self.known_example = {}
        self.violations = []
        self.evaluations = 0
        self.nontrivial = set()
        self.samples = []
        self.cov = {}
        self.assumptions = []
        self.notes = {}
        self.drift = 0

    def count(self, n=1):
        self.evaluations += n

    def nontriv(self, key):
        if len(self.nontrivial) < 5_000_000:
            self.nontrivial.add(hash(key))

    def sample(self, s, cap=3):
        if len(self.samples) < cap:
            self.samples.append(s)

    def known(self, dev, example):
        self.known_counts[dev] = self.known_counts.get(dev, 0) + 1
        self.known_example.setdefault(dev, example)

    def classify(self, blame, example, what):
        """A disagreement between the real code and layer R.  `blame` = deviations of the
        specification's implementation model that (a) predict exactly the observed wrong answer and
        (b) are responsible for it.  Known iff non-empty and every blamed deviation is a listed open
        finding for this property; anything else is a violation."""
        blame = sorted(blame or [])
        if blame and all(b in self.open for b in blame):
            for b in blame:
                self.known(b, example)
            return True
        self.violation(example, what + (" (blamed deviations %s not all listed)" % blame if blame else ""))
        return False

    def violation(self, replay, what):
        if len(self.violations) < 50:
            self.violations.append((replay, what))
        else:
            self.violations.append((None, what))

    def finish(self, coverage_extra=None, rule="", assumptions=None):
        os.makedirs(REPLAYS, exist_ok=True)
        # B2 for the LSP layer: whatever sessions of the real binary this check drove (tools/lsp.py collects every message log)
        # must be behaviours of spec/LspTrace.tla -- unless the check validated them itself already
        if "lsp" in sys.modules and sys.modules["lsp"].SESSIONS and "lsp_trace_validation" not in self.notes:
            import lsptrace
            lsptrace.validate_collected(self, max_events=120000 if self.tier == "quick" else 1500000)
        wall = time.time() - self.t0
        for dev, n in sorted(self.known_counts.items()):
            f = self.open[dev]
            print("KNOWN-FINDING: property=%s %s %s %s (%d cases this run)"
                  % (self.prop, f["id"], f.get("call_site", ""), f.get("what", ""), n))
        stale = [f["id"] for d, f in self.open.items() if d not in self.known_counts]
        rc = 0
        written = 0
        for i, (rep, what) in enumerate(self.violations):
            if rep is None:
                continue
            d = os.path.join(REPLAYS, self.prop)
            os.makedirs(d, exist_ok=True)
            h = hashlib.sha256(json.dumps(rep, sort_keys=True, default=str).encode()).hexdigest()[:16]
            path = os.path.join(d, h + ".json")
            if written < 20:
                json.dump({"property": self.prop, "what": what, "case": rep,
                           "rerun": "./check %s --replay %s" % (self.prop, path)},
                          open(path, "w"), indent=1, default=str)
                written += 1
                print("VIOLATION property=%s replay=%s" % (self.prop, path))
                log("  ", what)
            rc = 1
        cov = {"evaluations": self.evaluations, "distinct_nontrivial": len(self.nontrivial),
               "rule": rule, "samples": self.samples or [{"note": "no case generated"}],
               "known_findings": self.known_counts, "stale_findings": stale,
               "model_drift_cases": self.drift}
        cov.update(self.cov)
        if coverage_extra:
            cov.update(coverage_extra)
        ev = {"property_id": self.prop, "tier": self.tier, "seed": seed(), "level": self.level,
              "coverage": cov, "assumptions": (assumptions or []) + self.assumptions,
              "wall_s": round(wall, 2), "violations": len(self.violations)}
        ev["coverage"].update(self.notes)
        os.makedirs(EVID, exist_ok=True)
        json.dump(ev, open(os.path.join(EVID, self.prop + ".json"), "w"), indent=1, default=str)
        log("[%s] %s tier: %d evaluations, %d non-trivial, %d violations, known %s, %.1fs"
            % (self.prop, self.tier, self.evaluations, len(self.nontrivial), len(self.violations),
               self.known_counts, wall))
        return rc
