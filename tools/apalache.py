"""Apalache on spec/MirrorInd.tla: the reverse-index mirror and the keying of file_definitions are INDUCTIVE invariants of the
set abstraction of the index (base case, inductive step, and a negative control: the unguarded fresh-path step must break them).
History.tla's action property RefinesMirrorInd (checked by TLC on every transition of the C06 / C07 state spaces) ties the
abstraction to Index.tla; trace validation ties Index.tla to the code.  Results are cached by the hash of the two modules."""
import hashlib
import json
import os
import shutil
import subprocess
import time

import common as C

RUNS = [
    ("base", ["--init=Init", "--inv=Inv", "--length=0"], True),
    ("step", ["--init=IndInit", "--inv=Inv", "--length=1"], True),
    ("negative_control_unguarded_fresh_path", ["--init=IndInit", "--next=NextBroken", "--inv=Inv", "--length=1"], False),
]


def mirror_inductive(timeout=900):
    """-> dict for the evidence file; raises ToolError when Apalache is missing, times out, or the outcome is not the expected one
    (a failed inductive step is a defect of the SPECIFICATION, not a verdict about the code)"""
    files = [os.path.join(C.SPEC, "MirrorInd.tla"), os.path.join(C.SPEC, "MC_MirrorInd.tla")]
    h = hashlib.sha256(b"".join(open(f, "rb").read() for f in files) + repr(RUNS).encode()).hexdigest()[:20]
    cdir = os.path.join(C.BUILD, "tlc-cache")
    os.makedirs(cdir, exist_ok=True)
    cp = os.path.join(cdir, "apalache-MirrorInd-%s.json" % h)
    if os.path.exists(cp):
        out = json.load(open(cp))
        out["cached"] = True
        return out
    if shutil.which("apalache-mc") is None:
        raise C.ToolError("apalache-mc is not on PATH")
    out = {"module": "MirrorInd", "runs": {}, "cached": False}
    for name, args, want_ok in RUNS:
        od = os.path.join(C.BUILD, "tmp", "apalache-%d-%s" % (os.getpid(), name))
        t = time.time()
        p = subprocess.run(["timeout", str(timeout), "apalache-mc", "check", "--cinit=ConstInit", "--out-dir=" + od] + args + ["MC_MirrorInd.tla"],
                           cwd=C.SPEC, env=C.scrubbed_env(None), stdout=subprocess.PIPE, stderr=subprocess.STDOUT, text=True)
        shutil.rmtree(od, ignore_errors=True)
        txt = p.stdout or ""
        ok = "The outcome is: NoError" in txt
        err = "The outcome is: Error" in txt
        if not ok and not err:
            raise C.ToolError("apalache-mc %s on MirrorInd: no outcome (exit %s): %s" % (name, p.returncode, txt[-600:]))
        if ok != want_ok:
            raise C.ToolError("MirrorInd.tla, %s: expected %s, Apalache reports %s -- the specification's inductive invariant is wrong"
                              % (name, "NoError" if want_ok else "a counterexample", "NoError" if ok else "a counterexample"))
        out["runs"][name] = {"args": args, "outcome": "NoError" if ok else "counterexample (expected)", "wall_s": round(time.time() - t, 1)}
    with open(cp + ".%d" % os.getpid(), "w") as fh:
        json.dump(out, fh)
    os.replace(cp + ".%d" % os.getpid(), cp)
    return out


def mirror_tlaps(timeout=900):
    """TLAPS: Mirror /\\ DefKeyed inductive for ARBITRARY carrier sets (spec/MirrorIndProofs.tla).  -> dict for the evidence file"""
    # the proof module lives in spec/tlaps/ (it EXTENDS TLAPS, which only tlapm's library provides: SANY / TLC never see it)
    files = [os.path.join(C.SPEC, "MirrorInd.tla"), os.path.join(C.SPEC, "tlaps", "MirrorIndProofs.tla")]
    h = hashlib.sha256(b"".join(open(f, "rb").read() for f in files)).hexdigest()[:20]
    cdir = os.path.join(C.BUILD, "tlc-cache")
    os.makedirs(cdir, exist_ok=True)
    cp = os.path.join(cdir, "tlaps-MirrorInd-%s.json" % h)
    if os.path.exists(cp):
        out = json.load(open(cp))
        out["cached"] = True
        return out
    if shutil.which("tlapm") is None:
        raise C.ToolError("tlapm is not on PATH")
    wd = os.path.join(C.BUILD, "tmp", "tlaps-%d" % os.getpid())
    shutil.rmtree(wd, ignore_errors=True)
    os.makedirs(wd)
    for f in files:
        shutil.copy(f, wd)
    t = time.time()
    p = subprocess.run(["timeout", str(timeout), "tlapm", "--threads", "8", "MirrorIndProofs.tla"], cwd=wd, env=C.scrubbed_env(None),
                       stdout=subprocess.PIPE, stderr=subprocess.STDOUT, text=True)
    shutil.rmtree(wd, ignore_errors=True)
    import re
    m = re.search(r"All (\d+) obligations? proved", p.stdout or "")
    if not m:
        raise C.ToolError("tlapm on MirrorIndProofs.tla did not prove every obligation (exit %s): %s" % (p.returncode, (p.stdout or "")[-800:]))
    out = {"module": "MirrorIndProofs", "obligations": int(m.group(1)), "discharged": int(m.group(1)),
           "theorems": ["InitCore", "StepCore", "Safety: Spec => [](Mirror /\\ DefKeyed)"], "wall_s": round(time.time() - t, 1), "cached": False}
    with open(cp + ".%d" % os.getpid(), "w") as fh:
        json.dump(out, fh)
    os.replace(cp + ".%d" % os.getpid(), cp)
    return out


if __name__ == "__main__":
    print(json.dumps(mirror_tlaps(), indent=1))
    print(json.dumps(mirror_inductive(), indent=1))
