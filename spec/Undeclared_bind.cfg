CONSTANTS
  Group = "bind"
SPECIFICATION Spec
CHECK_DEADLOCK FALSE
INVARIANTS
  NeverFlagInvisible
  ParamsLocalsNeverFlagged
  EmitCase
