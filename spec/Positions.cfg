SPECIFICATION Spec
CHECK_DEADLOCK FALSE
INVARIANTS
  RepairedExact
  WellFormed
  EmitCase
