------------------------------ MODULE Layouts ------------------------------
(***************************************************************************)
(* M2 case table shared by C01 C02 C04 C05 C08 C20: the universe of        *)
(* workspace layouts around one fixture name "n" (DESIGN.md section 4,     *)
(* C01 "Enum"), times every registration order of the files that define    *)
(* it.  Every (layout, order) is one TLC initial state on which            *)
(*   - layer R (Workspace.tla) gives the promised answers,                 *)
(*   - layer I (Index.tla) gives the implementation model's answers with   *)
(*     all deviations on (the prediction) and all off (the repaired        *)
(*     design, which must equal layer R -- invariant RepairedEqualsR),     *)
(*   - one JSON line is printed for the replayer.                          *)
(***************************************************************************)
EXTENDS Index, Json

CONSTANTS MaxDefiners,     \* bound on the number of files defining "n"
          Emit,            \* subset of {"goto","refs","avail","rff","unused"}
          Levels, LevelsB, \* which conftest kinds are enumerated per level: [0..2 -> SUBSET ConfKinds]
          SameKinds, ExtraSets, ExtraSetsB, UseKinds, UFiles,
          ExtraUsers,      \* BOOLEAN: also put tests using "n" at depth 0 and 1 (slots t0, t1)
          Revs,            \* subset of BOOLEAN: TRUE = the using item precedes the file's own definitions
          OrderMode        \* "all": every registration order of the definers; "two": one order and its reverse

VARIABLES stage, case, vws, vix
vars == <<stage, case, vws, vix>>

MCFiles == {"c0", "c1", "c2", "cs", "u", "o", "m", "h0", "h1", "h2", "hh", "pl", "tp", "tp2", "tpi", "t0", "t1"}
MCDirs  == {"R", "Ra", "Rab", "Rs", "P", "T", "T2", "Ti"}
MCDirOf == [f \in MCFiles |->
              CASE f \in {"c0", "h0", "t0"} -> "R"
                [] f \in {"c1", "h1", "hh", "t1"} -> "Ra"
                [] f \in {"c2", "h2", "u", "o", "m"} -> "Rab"
                [] f = "cs" -> "Rs"
                [] f = "pl" -> "P"
                [] f = "tp" -> "T"
                [] f = "tp2" -> "T2"
                [] f = "tpi" -> "Ti"]
MCParentOf == [d \in MCDirs |->
              \* Ti: the site-packages directory of a virtualenv that lives INSIDE the workspace root: walking up from an installed
              \* plugin's module reaches the project's root conftest.py
              CASE d = "Rab" -> "Ra" [] d = "Ra" -> "R" [] d = "Rs" -> "R" [] d = "Ti" -> "R" [] OTHER -> "NODIR"]
MCRoleOf == [f \in MCFiles |->
              CASE f \in {"c0", "c1", "c2", "cs"} -> "conftest"
                [] f \in {"u", "o", "t0", "t1"} -> "test"
                [] f = "pl" -> "plugin"
                [] f \in {"tp", "tp2", "tpi"} -> "third"
                [] OTHER -> "module"]

Names == {"n", "w", "x"}

\* impconf / starconf: the level-1 conftest imports the name from ANOTHER conftest.py, the one of the sibling directory
\* (`from ..s.conftest import n` / `import *`): the providing module is itself a conftest, outside the using file's chain
AllConfKinds == {"absent", "irrelevant", "def", "def2", "override", "star", "imp", "imp_nonfix",
                 "plugins", "star2", "imp2", "autodef", "impconf", "starconf"}
MCLevelsFull == [l \in 0..2 |-> CASE l = 0 -> AllConfKinds \ {"star2", "imp2", "autodef", "impconf", "starconf"}
                                  [] l = 1 -> AllConfKinds \ {"plugins", "autodef"}
                                  [] l = 2 -> AllConfKinds \ {"plugins", "star2", "imp2", "autodef", "impconf", "starconf"}]
MCLevelsCli == [l \in 0..2 |-> CASE l = 0 -> {"absent", "def", "autodef", "star", "imp_nonfix"}
                                 [] l = 1 -> {"absent", "def", "autodef", "override", "imp"}
                                 [] l = 2 -> {"absent", "irrelevant", "def", "def2", "override"}]
MCSameCli == {"none", "def", "override"}
\* "tpi": an installed plugin inside the workspace's own virtualenv whose fixture w REQUESTS n (the pytest-flask pattern
\* client(app)): that request is a usage like any other and resolves to the project's conftest
MCExtraCli == (SUBSET {"cs", "o", "tp"}) \cup {{"tpi"}, {"tpi", "o"}}
MCUseCli == {"tp", "um", "fp"}
MCUFilesU == {"u"}
MCEmitCli == {"goto", "refs", "unused", "rff"}
MCLevelsChain == [l \in 0..2 |-> {"absent", "def", "override"}]
\* "defover": a fixture and, further down the SAME file, its self-requesting override (two links of the chain in one file)
MCSameChain == {"none", "def", "override", "defover"}
\* {"cs"}: a conftest in a SIBLING directory (its name a string prefix of the chain directory's) defines the name too
\* {"tpo", "tp2"}: an installed plugin OVERRIDES the name and requests it itself (`def n(n)` inside site-packages); the
\* only outward provider is the other installed plugin
MCExtraChain == {{}, {"pl"}, {"tp"}, {"pl", "tp"}, {"plo"}, {"plo", "tp"}, {"cs"}, {"cs", "tp"}, {"tpo", "tp2"}}
MCLevelsSmall == [l \in 0..2 |-> CASE l = 0 -> {"absent", "def", "star"}
                                   [] l = 1 -> {"absent", "def", "override", "imp", "impconf", "starconf"}
                                   \* star / imp at the innermost level: with the conftest itself as the using file the
                                   \* requested name reaches it only through ITS OWN import
                                   [] l = 2 -> {"absent", "irrelevant", "def", "override", "star", "imp"}]
MCSameKinds == {"none", "def", "def2", "override"}
MCExtraAll  == SUBSET {"cs", "o", "m", "pl", "tp"}
\* {"tp", "tp2"}: TWO installed plugins provide the name (on different lines): no winner is named, but every feature must
\* pick the same one
MCExtraFew  == {{}, {"cs"}, {"pl", "tp"}, {"tp", "tp2"}}
MCUseKinds  == {"tp", "fp", "um", "uc", "pm", "ip", "ipm"}
\* "tt": two tests of one file request the name (every usage of a file must be judged on its own)
MCUseTP     == {"tp", "fp", "tt"}
MCUFiles    == {"u", "c2"}
MCRevNo     == {FALSE}
MCRevBoth   == {FALSE, TRUE}
MCEmitAll   == {"goto", "refs", "avail", "rff", "unused"}
MCEmitGoto  == {"goto"}

ConfKinds == AllConfKinds
ConfFile(l) == CASE l = 0 -> "c0" [] l = 1 -> "c1" [] l = 2 -> "c2"
HelpFile(l) == CASE l = 0 -> "h0" [] l = 1 -> "h1" [] l = 2 -> "h2"

DefN  == PlainDef("n", <<>>)
OverN == PlainDef("n", <<"n">>)

ConfItems(k, l) ==
    CASE k = "irrelevant" -> <<PlainDef("x", <<>>)>>
      [] k = "def"        -> <<DefN>>
      [] k = "def2"       -> <<DefN, PlainDef("x", <<>>), DefN>>
      [] k = "override"   -> <<OverN>>
      [] k = "autodef"    -> <<Def("n", <<>>, 0, TRUE)>>
      [] k = "star"       -> <<Star(HelpFile(l))>>
      [] k = "imp"        -> <<Imp(HelpFile(l), "n")>>
      [] k = "imp_nonfix" -> <<Imp(HelpFile(l), "n")>>
      [] k = "plugins"    -> <<Plugins(HelpFile(l))>>
      [] k = "star2"      -> <<Star(HelpFile(l))>>
      [] k = "imp2"       -> <<Imp(HelpFile(l), "n")>>
      [] k = "impconf"    -> <<Spelled(Imp("cs", "n"), 2)>>
      [] k = "starconf"   -> <<Spelled(Star("cs"), 2)>>
      [] OTHER -> <<>>
HelpItems(k) ==
    CASE k \in {"star", "imp", "plugins"} -> <<DefN>>
      [] k = "imp_nonfix" -> <<Helper("n")>>
      [] k = "star2" -> <<Star("hh")>>
      [] k = "imp2" -> <<Imp("hh", "n")>>
      [] OTHER -> <<>>

SameItems(sk) ==
    CASE sk = "def" -> <<DefN>>
      [] sk = "def2" -> <<DefN, DefN>>
      [] sk = "override" -> <<OverN>>
      [] sk = "defover" -> <<DefN, OverN>>
      [] OTHER -> <<>>

UseItems(uk) ==
    CASE uk = "tp" -> <<Test("test_1", <<"n">>)>>
      [] uk = "tt" -> <<Test("test_1", <<"n">>), Test("test_2", <<"n">>)>>
      [] uk = "fp" -> <<PlainDef("w", <<"n">>)>>
      [] uk = "um" -> <<TestM("test_1", <<>>, <<"n">>, <<>>, <<>>)>>
      [] uk = "uc" -> <<TestM("test_1", <<>>, <<>>, <<"n">>, <<>>)>>
      [] uk = "pm" -> <<PMark(<<"n">>), Test("test_1", <<>>)>>
      \* indirect parametrize STACKED ABOVE a usefixtures mark on one function (the renderer writes the parametrize
      \* decorator first): the usages of one function are then recorded out of line order (mark, indirect, parameter)
      [] uk = "ip" -> <<TestM("test_1", <<"n">>, <<"n">>, <<>>, <<"n">>)>>
      \* SEVERAL names in one indirect parametrize string, the judged name NOT first ("w,n"): all of them are recorded with
      \* the whole string's span, the cursor stands on one name's own characters
      [] uk = "ipm" -> <<TestM("test_1", <<>>, <<>>, <<>>, <<"w", "n">>)>>

WsOf(c) ==
    [f \in MCFiles |->
        CASE f \in {"c0", "c1", "c2"} ->
               LET l == CASE f = "c0" -> 0 [] f = "c1" -> 1 [] f = "c2" -> 2
                   base == ConfItems(c.ck[l + 1], l)
                   its == IF c.uf = f THEN (IF c.rev THEN UseItems(c.uk) \o base ELSE base \o UseItems(c.uk)) ELSE base
               IN  IF c.ck[l + 1] = "absent" /\ c.uf # f THEN Absent ELSE Module(its)
          [] f \in {"h0", "h1", "h2"} ->
               LET l == CASE f = "h0" -> 0 [] f = "h1" -> 1 [] f = "h2" -> 2
               IN  IF c.ck[l + 1] \in {"star", "imp", "imp_nonfix", "plugins", "star2", "imp2"}
                   THEN Module(HelpItems(c.ck[l + 1])) ELSE Absent
          [] f = "hh" -> IF c.ck[2] \in {"star2", "imp2"} THEN Module(<<DefN>>) ELSE Absent
          [] f = "u"  -> IF c.uf = "u" THEN Module(IF c.rev THEN UseItems(c.uk) \o SameItems(c.sk)
                                                     ELSE SameItems(c.sk) \o UseItems(c.uk))
                         ELSE Module(<<Test("test_0", <<>>)>>)
          [] f = "cs" -> IF "cs" \in c.ex THEN Module(<<DefN>>) ELSE Absent
          [] f = "o"  -> IF "o" \in c.ex THEN Module(<<DefN, Test("test_o", <<"n">>)>>) ELSE Absent
          [] f = "m"  -> IF "m" \in c.ex THEN Module(<<DefN>>) ELSE Absent
          [] f = "pl" -> IF "pl" \in c.ex THEN Module(<<DefN>>)
                         ELSE IF "plo" \in c.ex THEN Module(<<OverN>>) ELSE Absent
          [] f \in {"t0", "t1"} -> IF ExtraUsers THEN Module(<<Test("test_t", <<"n">>)>>) ELSE Absent
          [] f = "tp" -> IF "tp" \in c.ex THEN Module(<<DefN>>) ELSE IF "tpo" \in c.ex THEN Module(<<OverN>>) ELSE Absent
          [] f = "tp2" -> IF "tp2" \in c.ex THEN Module(<<PlainDef("x", <<>>), DefN>>) ELSE Absent
          [] f = "tpi" -> IF "tpi" \in c.ex THEN Module(<<PlainDef("w", <<"n">>)>>) ELSE Absent]

Definers(ws) == { f \in MCFiles : ws[f].present /\ DefsIn(ws, f, "n") # {} }
Present(ws) == { f \in MCFiles : ws[f].present }

Perms(S) == { s \in [1..Cardinality(S) -> S] : \A i, j \in 1..Cardinality(S) : i # j => s[i] # s[j] }
Reverse(s) == [i \in 1..Len(s) |-> s[Len(s) + 1 - i]]

\* deterministic order of the files that do not define "n" (their order is immaterial)
RECURSIVE SetToSeq(_)
SetToSeq(S) == IF S = {} THEN <<>> ELSE LET x == CHOOSE y \in S : TRUE IN <<x>> \o SetToSeq(S \ {x})

CkSet(levels) == { s \in [1..3 -> ConfKinds] : \A l \in 0..2 : s[l + 1] \in levels[l] }

ShapeSet(ck, sks, exs, uks, ufs) ==
    { c \in [ck : {ck}, sk : sks, ex : exs, uk : uks, uf : ufs, rev : Revs] :
        /\ (c.rev => (c.sk # "none" \/ c.uf # "u"))
        /\ (c.uf # "u" => c.sk = "none")
        /\ (c.uf = "c2" => c.ck[3] # "absent")
        /\ (c.ck[2] \in {"impconf", "starconf"} => "cs" \in c.ex)
        \* the installed override is judged where its outward provider is unambiguous: no project definition of the name
        \* (a plugin inside the workspace's own virtualenv lies BELOW the project's conftest files on disk)
        /\ ("tpo" \in c.ex => (\A l \in 1..3 : c.ck[l] = "absent") /\ c.sk = "none")
        /\ Cardinality(Definers(WsOf(c))) <= MaxDefiners }

\* A: the full layout product under the plain test-parameter usage
\* B: every usage kind and both using files over a reduced layout product
ShapesFor(ck) ==
    (IF ck \in CkSet(Levels) THEN ShapeSet(ck, SameKinds, ExtraSets, {"tp"}, {"u"}) ELSE {})
    \cup (IF ck \in CkSet(LevelsB) THEN ShapeSet(ck, SameKinds, ExtraSetsB, UseKinds, UFiles) ELSE {})

PlugSetOf(w) == { f \in Present(w) : MCRoleOf[f] = "plugin" }
OrderFor(w, o) == SetToSeq(Present(w) \ Definers(w)) \o o

\* A two-stage fan-out so that TLC's workers share the table: stage 0 -> one state per
\* conftest-kind triple (cheap), stage 1 -> every (shape, order) of that triple (the work).
Dummy == [shape |-> <<>>, order |-> <<>>]
Init == stage = 0 /\ case = Dummy /\ vws = <<>> /\ vix = <<>>
Next ==
    \/ /\ stage = 0
       /\ \E ck \in CkSet(Levels) \cup CkSet(LevelsB) :
             /\ stage' = 1
             /\ case' = [shape |-> ck, order |-> <<>>]
             /\ UNCHANGED <<vws, vix>>
    \/ /\ stage = 1
       /\ \E c \in ShapesFor(case.shape) :
            LET w == WsOf(c) IN
            \E o \in (IF OrderMode = "all" THEN Perms(Definers(w))
                      ELSE LET q == SetToSeq(Definers(w)) IN {q, Reverse(q)}) :
               /\ stage' = 2
               /\ case' = [shape |-> c, order |-> OrderFor(w, o)]
               /\ vws' = w
               /\ vix' = Build(w, Names, OrderFor(w, o), PlugSetOf(w), [f \in MCFiles |-> NoMod])
Spec == Init /\ [][Next]_vars

----------------------------------------------------------------------------
Ws      == vws
Ix      == vix
OrderOf == case.order
PlugSet == PlugSetOf(vws)
Done    == stage = 2

UseRecOf(u) == UseRec(u.file, u.idx, u.uk, u.ui, UseName(Ws, u))

Blame(good(_), bad) ==
    \* deviations whose single repair restores an acceptable answer; else those that alone break it
    LET single == { d \in AllDevs : good(AllDevs \ {d}) }
    IN  IF single # {} THEN single ELSE { d \in AllDevs : ~good({d}) }

\* deviations that make an answer depend on the REGISTRATION ORDER although every order's answer is acceptable to
\* layer R (no winner is named among several plugins): held responsible when switching them off changes the answer
OrderDevs == {"tier_first_registered"}
OrdBlame(ans(_)) == { d \in OrderDevs : ans(AllDevs) # ans(AllDevs \ {d}) }

GotoRow(u) ==
    LET py   == PyResolveUse(Ws, u)
        impl == IdOf(ImplGoto(Ix, AllDevs, UseRecOf(u)))
    IN  [u |-> u, name |-> UseName(Ws, u), py |-> py, impl |-> impl,
         visible |-> VisibleFiles(Ws, u.file),
         blame |-> (IF impl \in py THEN {}
                    ELSE Blame(LAMBDA D : IdOf(ImplGoto(Ix, D, UseRecOf(u))) \in py, impl))
                   \cup OrdBlame(LAMBDA D : IdOf(ImplGoto(Ix, D, UseRecOf(u))))]

AllRecs == UNION { { Ix.defs[n][j] : j \in 1..Len(Ix.defs[n]) } : n \in Names }
UseIdOf(r) == UseId(r.file, r.idx, r.uk, r.ui)

RefsRow(r) ==
    [d |-> IdOf(r), name |-> r.name,
     impl |-> { UseIdOf(x) : x \in ImplRefs(Ix, AllDevs, r) },
     py |-> PyRefs(Ws, IdOf(r))]

QueryFiles == { f \in Present(Ws) : MCRoleOf[f] \in {"test", "conftest"} }

AvailRow(f) ==
    LET impl == ImplAvailable(Ix, AllDevs, f)
    IN  [f |-> f,
         impl |-> [n \in Names |-> IdOf(impl[n])],
         py   |-> [n \in Names |-> PyResolveSet(Ws, f, n, NoDef)],
         blame |-> [n \in Names |->
                      (IF IdOf(impl[n]) \in PyResolveSet(Ws, f, n, NoDef) THEN {}
                       ELSE Blame(LAMBDA D : IdOf(ImplAvailable(Ix, D, f)[n]) \in PyResolveSet(Ws, f, n, NoDef), 0))
                      \cup OrdBlame(LAMBDA D : IdOf(ImplAvailable(Ix, D, f)[n]))]]

\* outgoing calls: one row per (fixture definition, dependency name)
RffRow(r, j) ==
    LET dep  == r.deps[j]
        excl == IF dep = r.name THEN IdOf(r) ELSE NoDef
        py   == PyResolveSet(Ws, r.file, dep, excl)
        impl == IdOf(ImplResolveForFileX(Ix, AllDevs, r.file, dep, excl))
    IN  [d |-> IdOf(r), dep |-> dep, py |-> py, impl |-> impl,
         blame |-> (IF impl \in py THEN {}
                    ELSE Blame(LAMBDA D : IdOf(ImplResolveForFileX(Ix, D, r.file, dep, excl)) \in py, 0))
                   \cup OrdBlame(LAMBDA D : IdOf(ImplResolveForFileX(Ix, D, r.file, dep, excl)))]

UnusedRow ==
    [impl |-> ImplUnused(Ix, AllDevs),
     py   |-> PyUnusedNames(Ws),
     counts |-> { [file |-> r.file, name |-> r.name, n |-> ImplCliCountSeq(Ix, AllDevs, r.file, r.name)]
                  : r \in AllRecs }]

CaseJson ==
    [shape |-> case.shape, order |-> OrderOf,
     ws |-> [f \in Present(Ws) |-> Ws[f]],
     plugins |-> PlugSet,
     goto  |-> IF "goto" \in Emit THEN { GotoRow(u) : u \in AllUsages(Ws) } ELSE {},
     refs  |-> IF "refs" \in Emit THEN { RefsRow(r) : r \in AllRecs } ELSE {},
     avail |-> IF "avail" \in Emit THEN { AvailRow(f) : f \in QueryFiles } ELSE {},
     rff   |-> IF "rff" \in Emit THEN UNION { { RffRow(r, j) : j \in 1..Len(r.deps) } : r \in AllRecs } ELSE {},
     unused |-> IF "unused" \in Emit THEN {UnusedRow} ELSE {}]

EmitCase == Done => PrintT("CASE " \o ToJson(CaseJson))

----------------------------------------------------------------------------
(* Design-level invariants checked by TLC on every (layout, order).        *)

\* C01 negative clause holds for layer R itself (sanity of the reference)
RefNegativeClause == Done =>
    \A u \in AllUsages(Ws) : \A d \in PyResolveUse(Ws, u) :
        d = NoDef \/ d.file \in VisibleFiles(Ws, u.file)

\* C01 + C08 for the repaired design: with every deviation repaired the model's
\* navigation answer is the promised one under EVERY registration order
RepairedEqualsR == Done =>
    \A u \in AllUsages(Ws) : IdOf(ImplGoto(Ix, {}, UseRecOf(u))) \in PyResolveUse(Ws, u)

\* C05 for the repaired design: the completion view and the outgoing-calls
\* resolver denote the same definition as navigation
RepairedViewsAgree == Done =>
    \A f \in QueryFiles : \A n \in Names :
        /\ IdOf(ImplAvailable(Ix, {}, f)[n]) \in PyResolveSet(Ws, f, n, NoDef)
        /\ IdOf(ImplResolveForFile(Ix, {}, f, n)) \in PyResolveSet(Ws, f, n, NoDef)
        /\ \A r \in AllRecs : \A j \in 1..Len(r.deps) :
              LET excl == IF r.deps[j] = r.name THEN IdOf(r) ELSE NoDef IN
              IdOf(ImplResolveForFileX(Ix, {}, r.file, r.deps[j], excl)) \in PyResolveSet(Ws, r.file, r.deps[j], excl)

\* C04: the reverse index mirrors the per-file usages (as bags)
Mirror == Done =>
    \A n \in Names : \A f \in MCFiles :
        SelectSeq(Ix.ubf[n], LAMBDA x : x.file = f) = SelectSeq(Ix.usages[f], LAMBDA x : x.name = n)

\* C04: references are the exact inverse of navigation, in the model of the code as it is
RefsInverse == Done =>
    \A r \in AllRecs : \A x \in IndexUsages(Ix) :
        (x \in ImplRefs(Ix, AllDevs, r)) <=> (ImplGoto(Ix, AllDevs, x) = r)

\* the index holds exactly the workspace's definitions and usages (C03/C06 at the model level)
IndexComplete == Done =>
    /\ { IdOf(r) : r \in AllRecs } = AllDefs(Ws)
    /\ { UseIdOf(x) : x \in IndexUsages(Ix) } = AllUsages(Ws)
=============================================================================
