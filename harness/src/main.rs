//! plsverif — conformance harness binding the TLA+ specification under /verif/spec to the
//! real `pytest_language_server` library built from /repo's current working tree.
//!
//! Sub-commands
//!   run <cases.ndjson> [--threads N]     replay cases (spec -> implementation), one JSON result per case
//!   conc ...                             scheduled multi-threaded executions (see conc.rs)
//!
//! A case is `{"id": .., "ops": [ {op..}, .. ]}`; every op is executed against one
//! `FixtureDatabase` per case (ops `newdb`/`usedb` switch between several databases of the same
//! case — used for long-lived vs fresh twins).  Each op yields one JSON value.  A panic inside the
//! code under test is *data*: it is reported as `{"panic": "<message>"}` for that op.

mod conc;
mod ops;

use rayon::prelude::*;
use serde_json::{json, Value};
use std::io::{BufRead, BufWriter, Write};

fn main() {
    let args: Vec<String> = std::env::args().collect();
    if args.len() < 2 {
        eprintln!("usage: plsverif run <cases.ndjson> [--threads N] | conc <cases.ndjson> ...");
        std::process::exit(2);
    }
    // Panics of the code under test are caught per op; keep stderr quiet but keep the location.
    std::panic::set_hook(Box::new(|info| {
        let loc = info
            .location()
            .map(|l| format!("{}:{}", l.file(), l.line()))
            .unwrap_or_default();
        ops::LAST_PANIC_LOC.with(|c| *c.borrow_mut() = loc);
    }));
    match args[1].as_str() {
        "run" => run(&args[2..]),
        "conc" => conc::main(&args[2..]),
        other => {
            eprintln!("unknown sub-command {other}");
            std::process::exit(2);
        }
    }
}

fn progress(kind: char, id: &Value) {
    use std::sync::OnceLock;
    static FILE: OnceLock<Option<std::sync::Mutex<std::fs::File>>> = OnceLock::new();
    let f = FILE.get_or_init(|| {
        std::env::var("PLSVERIF_PROGRESS").ok().and_then(|p| {
            std::fs::OpenOptions::new()
                .create(true)
                .append(true)
                .open(p)
                .ok()
                .map(std::sync::Mutex::new)
        })
    });
    if let Some(m) = f {
        if let Ok(mut fh) = m.lock() {
            let _ = fh.write_all(format!("{kind} {id}\n").as_bytes());
        }
    }
}

fn run(args: &[String]) {
    let mut path = None;
    let mut threads = 0usize;
    let mut i = 0;
    while i < args.len() {
        match args[i].as_str() {
            "--threads" => {
                threads = args[i + 1].parse().expect("--threads N");
                i += 2;
            }
            p => {
                path = Some(p.to_string());
                i += 1;
            }
        }
    }
    let path = path.expect("cases file");
    if threads > 0 {
        rayon::ThreadPoolBuilder::new()
            .num_threads(threads)
            .stack_size(64 << 20)
            .build_global()
            .unwrap();
    } else {
        rayon::ThreadPoolBuilder::new()
            .stack_size(64 << 20)
            .build_global()
            .unwrap();
    }
    let reader: Box<dyn BufRead> = if path == "-" {
        Box::new(std::io::BufReader::new(std::io::stdin()))
    } else {
        Box::new(std::io::BufReader::with_capacity(
            1 << 20,
            std::fs::File::open(&path).expect("open cases"),
        ))
    };
    let out = std::io::stdout();
    let mut out = BufWriter::with_capacity(1 << 20, out.lock());
    // Process in chunks to bound memory while keeping output order = input order.
    let mut lines = reader.lines();
    loop {
        let chunk: Vec<String> = lines
            .by_ref()
            .take(4096)
            .map(|l| l.expect("read line"))
            .filter(|l| !l.trim().is_empty())
            .collect();
        if chunk.is_empty() {
            break;
        }
        let results: Vec<String> = chunk
            .par_iter()
            .map(|line| {
                let case: Value = match serde_json::from_str(line) {
                    Ok(v) => v,
                    Err(e) => return json!({"tool_error": format!("bad case json: {e}")}).to_string(),
                };
                // progress log (one short O_APPEND write per event): lets the driver name the case that
                // aborted the process (stack overflow) or never returned (deadlock, endless loop)
                progress('S', &case["id"]);
                let res = ops::run_case(&case);
                progress('E', &case["id"]);
                res.to_string()
            })
            .collect();
        for r in results {
            out.write_all(r.as_bytes()).unwrap();
            out.write_all(b"\n").unwrap();
        }
    }
    out.flush().unwrap();
}
