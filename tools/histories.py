"""Checks driven by the History state machine (spec/History.tla): C06 (history independence) and
C07 (caching / closing / eviction invisible).  TLC visits every history within the bound; each
history is executed on a long-lived real FixtureDatabase and on a twin (fresh server for C06, cold
server for C07) and the answers are compared; the model's prediction decides whether a difference
is a listed known finding."""
import json
import os
import shutil

import common as C
import render as R

NAMES = ["n", "x"]


def mk_universe(root):
    return R.Universe({"c": root + "/R/a/conftest.py", "h": root + "/R/a/helperh.py",
                       "t": root + "/R/a/b/test_t.py"})


VUNI = mk_universe("/vws")


def defid(d):
    return None if d is None or d.get("file") == "NOFILE" else (d["file"], d["idx"])


class Versions:
    """renders VersionsOf[f][v] (taken from the case stream: TLC prints the modules it used)"""

    def __init__(self, uni, table):
        self.uni = uni
        self.table = table  # slot -> [module...]
        self.r = {}
        for slot, mods in table.items():
            for i, m in enumerate(mods):
                self.r[(slot, i + 1)] = R.render_checked(uni, slot, m)

    def text(self, slot, v):
        return self.r[(slot, v)].text

    def valid(self, slot, v):
        return self.table[slot][v - 1]["valid"]


def decode_def(uni, cur, d):
    """cur: slot -> Rendered currently in effect (last valid version)"""
    if d is None:
        return None
    if isinstance(d, dict) and ("panic" in d or "tool_error" in d):
        return ("PANIC", json.dumps(d))
    slot = uni.slot_of_path.get(d["file"])
    if slot is None or slot not in cur:
        return ("?", d["file"], d["line"])
    idx = cur[slot].line_item.get(d["line"])
    return (slot, idx if idx is not None else -d["line"])


def versions_table(meta):
    for payload in C.tlc_cases(meta, prefix="VERSIONS"):
        return payload
    raise C.ToolError("TLC did not print the VERSIONS table")


# ------------------------------------------------------------------------------------------- C06

def c06_queries(uni, cur, buf_valid):
    """queries issued identically to the long-lived database and to the fresh twin"""
    ops = []
    for slot, r in sorted(cur.items()):
        path = uni.paths[slot]
        if buf_valid.get(slot, True):
            for (idx, uk, ui), (ln, cs, ce) in sorted(r.use_pos.items()):
                ops.append({"op": "goto", "path": path, "line": ln - 1, "col": cs})
                ops.append({"op": "refs_at", "path": path, "line": ln - 1, "col": cs})
            for idx, (ln, cs, ce) in sorted(r.def_name_pos.items()):
                ops.append({"op": "refs_at", "path": path, "line": ln - 1, "col": cs})
        ops.append({"op": "available", "path": path})
        ops.append({"op": "scope_mismatch", "path": path})
        ops.append({"op": "cycles_in_file", "path": path})
    ops.append({"op": "cycles"})
    ops.append({"op": "unused"})
    ops.append({"op": "snapshot", "full": True})
    return ops


def norm_snapshot(s):
    """primary maps as the property sees them: per-name definition bags, per-file usages, reverse index"""
    if not isinstance(s, dict) or "defs" not in s:
        return s
    return {"defs": {k: sorted(json.dumps(x, sort_keys=True) for x in v) for k, v in s["defs"].items()},
            "defs_order": s["defs"], "fdefs": s["fdefs"],
            "usages": {k: sorted(json.dumps(x, sort_keys=True) for x in v) for k, v in s["usages"].items() if v},
            "ubf": s["ubf"], "undecl": s["undecl"], "imports": s["imports"]}


def norm_cycles(a):
    if not isinstance(a, list):
        return a
    return sorted(json.dumps({"members": sorted(set(c["path"])), "fixture": c["fixture"]}, sort_keys=True) for c in a)


def check_c06(tier):
    V = C.Verdict("C06", tier, "model_checking")
    cfg = "History_c06_quick.cfg" if tier == "quick" else "History_c06_thorough.cfg"
    meta = C.run_tlc("History", cfg, workers=12, timeout=7200)
    if not meta["ok"]:
        raise C.ToolError("TLC on History/%s failed: %s" % (cfg, meta["errors"]))
    C.build_harness()
    vt = Versions(VUNI, versions_table(meta))
    uni = VUNI
    ctx = {}

    def gen():
        for n, case in enumerate(C.tlc_cases(meta)):
            if case["kind"] != "edits":
                continue
            hist = case["hist"]
            ops = []
            cur, buf_valid = {}, {}
            last_changed = None
            for ev in hist:
                ops.append({"op": "analyze", "path": uni.paths[ev["f"]], "text": vt.text(ev["f"], ev["v"])})
                ok = vt.valid(ev["f"], ev["v"])
                buf_valid[ev["f"]] = ok
                if ok:
                    cur[ev["f"]] = vt.r[(ev["f"], ev["v"])]
                last_changed = (ev["f"], ok)
            n_setup0 = len(ops)
            q = c06_queries(uni, cur, buf_valid)
            ops += q
            ops.append({"op": "newdb"})
            # fresh server: latest valid content of each file, in the order of last successful analysis
            lastv = {}
            for ev in hist:
                if vt.valid(ev["f"], ev["v"]):
                    lastv[ev["f"]] = ev["v"]
            fresh_ops = []
            for f in case["okOrder"]:
                fresh_ops.append({"op": "analyze", "path": uni.paths[f], "text": vt.text(f, lastv[f])})
            ops += fresh_ops
            ops += q
            ctx[n] = (case, n_setup0, len(q), len(fresh_ops), q, cur, last_changed)
            yield {"id": n, "ops": ops}

    replayed = 0
    for res in C.run_harness(gen()):
        case, n0, nq, nf, q, cur, last_changed = ctx.pop(res["id"])
        replayed += 1
        a = res["res"][n0:n0 + nq]
        b = res["res"][n0 + nq + 1 + nf:]
        hist = case["hist"]
        if len(set((e["f"]) for e in hist)) < len(hist) or any(not vt.valid(e["f"], e["v"]) for e in hist):
            V.nontriv(json.dumps(hist))
        V.count()
        diffs = []
        for op, x, y in zip(q, a, b):
            if op["op"] == "snapshot":
                x, y = norm_snapshot(x), norm_snapshot(y)
                if isinstance(x, dict) and isinstance(y, dict):
                    # undeclared findings are compared only for the document changed last, if it parsed
                    ux, uy = x.pop("undecl"), y.pop("undecl")
                    if last_changed and last_changed[1]:
                        p = uni.paths[last_changed[0]]
                        if ux.get(p, []) != uy.get(p, []):
                            V.violation({"hist": hist, "file": p, "long_lived": ux.get(p), "fresh": uy.get(p),
                                         "texts": [vt.text(e["f"], e["v"]) for e in hist]},
                                        "undeclared-fixture findings of the last changed document differ from a fresh server")
                    # model fidelity: vector order of definitions as the specification predicts it
                    model = {k: [tuple(defid(d)) for d in v] for k, v in case["defs"].items()}
                    real = {k: [decode_def(uni, cur, d) for d in v] for k, v in x["defs_order"].items()}
                    if {k: v for k, v in model.items() if v} != real:
                        V.drift += 1
                    x.pop("defs_order"), y.pop("defs_order")
            elif op["op"] in ("cycles", "cycles_in_file"):
                x, y = norm_cycles(x), norm_cycles(y)
            if x != y:
                diffs.append((op, x, y))
        if diffs:
            ex = {"hist": hist, "differing": [{"query": op, "long_lived": x, "fresh": y} for op, x, y in diffs[:6]],
                  "blame": case["blame"], "texts": [[e["f"], vt.text(e["f"], e["v"])] for e in hist]}
            # primary: the per-file view and navigation, which the model predicts on both sides
            explained = bool(case["blame"])
            for op, x, y in diffs:
                slot = uni.slot_of_path.get(op.get("path", ""))
                if op["op"] == "available" and isinstance(x, list) and isinstance(y, list):
                    mi = sorted((k, tuple(defid(v))) for k, v in case["availImpl"][slot].items() if defid(v))
                    mf = sorted((k, tuple(defid(v))) for k, v in case["availFresh"][slot].items() if defid(v))
                    ri = sorted((d["name"], decode_def(uni, cur, d)) for d in x)
                    rf = sorted((d["name"], decode_def(uni, cur, d)) for d in y)
                    if ri != mi or rf != mf:
                        explained = False
                elif op["op"] == "goto":
                    r = cur[slot]
                    nm = r.text.split("\n")[op["line"]][op["col"]:].split(",")[0].split(")")[0]
                    mi, mf = defid(case["gotoImpl"][slot][nm]), defid(case["gotoFresh"][slot][nm])
                    if decode_def(uni, cur, x) != (mi and tuple(mi)) or decode_def(uni, cur, y) != (mf and tuple(mf)):
                        explained = False
                elif op["op"] in ("refs_at", "unused"):
                    pass    # derived from navigation; explained iff navigation is
                else:
                    explained = False
            if explained:
                V.classify(case["blame"], ex, "after an edit history answers differ from a server started fresh on the latest valid contents")
            else:
                V.drift += 1
                V.violation(ex, "after an edit history answers differ from a server started fresh on the latest valid contents (not predicted by the model)")
        if res["id"] % 1500 == 0:
            V.sample({"hist": hist, "okOrder": case["okOrder"], "queries": nq})
    # B2: seeded random histories beyond the exhaustive bound, validated by TLC against HistoryTrace.tla
    if not os.environ.get("VERIF_REPLAY"):
        import lsphist
        n_lsp = lsphist.c06_sessions(V, tier)
        replayed += n_lsp
        V.notes["lsp_history_sessions"] = n_lsp
    import tracecheck
    n_ev = tracecheck.validate_random_histories(V, 150 if tier == "quick" else 3000, 12 if tier == "quick" else 16, "c06")
    V.count(n_ev)
    # B2 over the repository's own test-suite (hook: src/fixtures/verif_trace.rs): every analysis any test performs must be a
    # step of SuiteTrace.tla; oracle for the analysed text = the real library's own analysis on a FRESH database
    if not os.environ.get("VERIF_REPLAY"):
        import suitetrace
        n_ev += suitetrace.validate(V, "fresh")
    cov = {"states": meta["distinct"], "transitions": meta["transitions"], "traces_validated_against_impl": replayed + n_ev,
           "tlc": {"module": "History", "cfg": cfg, "wall_s": meta["wall_s"], "cached": meta.get("cached", False)},
           "exhaustive": True}
    if tier == "thorough":
        # unbounded complement of MirrorAlways / NoDangling: the set abstraction the action property RefinesMirrorInd (checked
        # by TLC above on every transition) maps History.tla onto has Mirror / DefKeyed as INDUCTIVE invariants (Apalache)
        import apalache
        cov["apalache_inductive_invariant"] = apalache.mirror_inductive()
        cov["tlaps_inductive_invariant"] = apalache.mirror_tlaps()
    return V.finish(
        coverage_extra=cov,
        rule="TLC visits every history of full-text versions over {conftest, helper, test} (6/5/5 versions incl. "
             "unparsable ones and moved/renamed/removed fixtures) up to the length bound and checks HistoryIndependent, "
             "MirrorAlways, NoDangling on the model; each history is executed on a long-lived real database and on a "
             "fresh twin built from the latest valid contents, and every navigation/reference/view/diagnostic answer "
             "plus the projected maps are compared; non-trivial = a file edited twice or an unparsable version involved; "
             "B2: seeded random histories validated against HistoryTrace.tla, and every analysis performed by the repository's "
             "own test-suite (run with the trace hook on) validated against SuiteTrace.tla with a fresh database as oracle",
        assumptions=["positional queries inside a currently unparsable document are not compared (statement scopes the invalid case to the rest of the workspace)",
                     "fresh server analyses files in the order of their last successful analysis"])


# ------------------------------------------------------------------------------------------- C07

def mk_universe2(root):
    return R.Universe({"c0": root + "/R/conftest.py", "c1": root + "/R/a/conftest.py", "m": root + "/R/a/sharedm.py",
                       "d": root + "/R/a/based.py", "t0": root + "/R/test_t0.py", "t1": root + "/R/a/test_t1.py"})


def c07_family(V, cfg, mk_uni, start_scanned, tag):
    """one History.tla configuration: every history ending in a query on a long-lived real database (warm) and on a
    cold twin that received only the state-changing events; files exist on disk"""
    meta = C.run_tlc("History", cfg, workers=12, timeout=7200)
    if not meta["ok"]:
        raise C.ToolError("TLC on History/%s failed: %s" % (cfg, meta["errors"]))
    root = os.path.join(C.BUILD, "ws", "c07%s-%d" % (tag, os.getpid()))
    shutil.rmtree(root, ignore_errors=True)
    uni = mk_uni(root)
    table = versions_table(meta)
    vt = Versions(uni, table)
    disk = {}
    for payload in C.tlc_cases(meta, prefix="DISK"):
        disk = payload
    disk_r = {}
    for slot, mod in disk.items():
        os.makedirs(os.path.dirname(uni.paths[slot]), exist_ok=True)
        r = R.render_checked(uni, slot, mod)
        disk_r[slot] = r
        with open(uni.paths[slot], "w") as fh:
            fh.write(r.text)
    scan_order = sorted(disk)
    ctx = {}

    def ev_ops(ev, cur):
        t = ev["t"]
        if t == "scan":
            # the real scan_workspace over the on-disk tree (phase 1 in parallel, then the import phase)
            return {"op": "scan", "root": root + "/R"}
        if t == "cycles":
            return {"op": "cycles"}
        p = uni.paths[ev["f"]]
        if t == "edit":
            if vt.valid(ev["f"], ev["v"]):
                cur[ev["f"]] = vt.r[(ev["f"], ev["v"])]
            return {"op": "analyze", "path": p, "text": vt.text(ev["f"], ev["v"])}
        if t == "avail":
            return {"op": "available", "path": p}
        if t == "goto":
            r = cur.get(ev["f"])
            for (idx, uk, ui), (ln, cs, ce) in sorted(r.use_pos.items()):
                if uk == "p" and r.text.split("\n")[ln - 1][cs:ce] == ev["n"]:
                    return {"op": "goto", "path": p, "line": ln - 1, "col": cs}
            return None
        if t == "imported":
            return {"op": "imported", "path": p}
        if t in ("close", "closem"):
            return {"op": "close", "path": p}
        if t == "open":
            # didOpen of an unmodified document: the text on disk handed to analyze_file
            return {"op": "analyze", "path": p, "text": disk_r[ev["f"]].text}
        if t == "evict":
            return {"op": "evict", "paths": [p]}
        raise C.ToolError("unknown event %r" % ev)

    def gen():
        for n, case in enumerate(C.tlc_cases(meta)):
            if case["kind"] != "query":
                continue
            hist = case["hist"]
            # a server that has scanned its workspace knows the workspace root (scan_workspace records it before
            # anything else); code that asks "is this file inside the workspace?" (didClose, third-party detection)
            # must see it in both twins
            first = [{"op": "set_root", "path": root + "/R"}] \
                + [{"op": "analyze", "path": uni.paths[f], "text": disk_r[f].text, "fresh": True} for f in scan_order] \
                if start_scanned else []
            ops = list(first)
            cur = dict(disk_r)
            for ev in hist:
                ops.append(ev_ops(ev, cur))
            if any(o is None for o in ops):
                continue   # a navigation query for a name the test file does not use right now
            n_main = len(ops)
            ops.append({"op": "newdb"})
            ops += first
            cur2 = dict(disk_r)
            for ev in hist[:-1]:
                if ev["t"] in ("edit", "scan", "closem"):        # closem: the cold twin closes the modified document too
                    ops.append(ev_ops(ev, cur2))
            ops.append(ev_ops(hist[-1], cur2))
            if any(o is None for o in ops):
                continue
            ctx[n] = (case, n_main, cur)
            yield {"id": n, "ops": ops}

    def norm(ev, ans, cur):
        if isinstance(ans, dict) and ("panic" in ans or "tool_error" in ans):
            return ("PANIC", json.dumps(ans))
        if ev["t"] == "avail":
            return sorted((d["name"], decode_def(uni, cur, d)) for d in ans)
        if ev["t"] == "goto":
            return decode_def(uni, cur, ans)
        if ev["t"] == "imported":
            return sorted(ans)
        if ev["t"] == "cycles":
            # the NAMES lying on a reported cycle (what History.tla's ImplCycleNames denotes)
            return sorted({n for c in ans for n in c["path"]}) if isinstance(ans, list) else ans
        return ans

    def model_ans(ev, a):
        if ev["t"] == "avail":
            return sorted((k, tuple(defid(v))) for k, v in a.items() if defid(v) is not None)
        if ev["t"] == "goto":
            return defid(a) and tuple(defid(a))
        if ev["t"] in ("imported", "cycles"):
            return sorted(a)
        return a

    replayed = 0
    for res in C.run_harness(gen()):
        case, n_main, cur = ctx.pop(res["id"])
        replayed += 1
        hist = case["hist"]
        ev = hist[-1]
        warm = norm(ev, res["res"][n_main - 1], cur)
        cold = norm(ev, res["res"][-1], cur)
        V.count()
        if any(e["t"] not in ("edit", "scan") for e in hist[:-1]):
            V.nontriv(tag + json.dumps(hist))
        if warm == cold:
            continue
        m_warm, m_cold = model_ans(ev, case["impl"]), model_ans(ev, case["cold"])
        ex = {"hist": hist, "warm": warm, "cold": cold, "model_warm": m_warm, "model_cold": m_cold, "configuration": cfg,
              "blame": case["blame"], "disk": {uni.paths[s]: disk_r[s].text for s in disk_r}}
        if json.dumps(warm) == json.dumps(m_warm) and json.dumps(cold) == json.dumps(m_cold):
            V.classify(case["blame"], ex, "a warm / closed / evicted server answers differently from a cold twin")
        else:
            V.drift += 1
            V.violation(ex, "a warm / closed / evicted server answers differently from a cold twin (not predicted by the model)")
        if res["id"] % 8000 == 0:
            V.sample({"hist": hist})
    shutil.rmtree(root, ignore_errors=True)
    return meta, replayed


def c07_unsaved_imports(V):
    """Close WITHOUT saving after an edit that touched only a conftest's import lines (seed C01_10): for such an edit
    the document's fixtures and usages are the same in buffer and on disk, so every go-to-definition answer after the
    close must equal the answer of a twin that never opened the document (Index.tla CloseFn: the closed file's text is
    the disk text again; nothing else of the index distinguishes the two servers).  Hand-written universe (c, h, t of
    mk_universe; an outer conftest R/conftest.py with a same-named fixture makes 'walks past c' visible)."""
    root = os.path.join(C.BUILD, "ws", "c07unsaved-%d" % os.getpid())
    shutil.rmtree(root, ignore_errors=True)
    fx = "import pytest\n\n\n@pytest.fixture\ndef n():\n    return 1\n"
    c_disks = {"star": "import pytest\nfrom .helperh import *\n",
               "byname": "import pytest\nfrom .helperh import n\n",
               "byname_paren": "import pytest\nfrom .helperh import (\n    n,\n)\n",
               "plugins": "import pytest\npytest_plugins = [\"a.helperh\"]\n"}
    buffers = {"removed": "import pytest\n", "commented": "import pytest\n# from .helperh import *\n", "empty": "",
               "other": "import pytest\nimport os\n"}
    t_text = "def test_1(n):\n    assert n\n"
    files = {"o": root + "/R/conftest.py", "c": root + "/R/a/conftest.py", "h": root + "/R/a/helperh.py",
             "t": root + "/R/a/b/test_t.py", "i": root + "/R/a/__init__.py"}
    cases, ctx = [], {}
    k = 0
    for dk, ctext in sorted(c_disks.items()):
        for outer in (False, True):
            d = os.path.join(root, "%s%d" % (dk, outer))
            P = {s: f.replace(root, d) for s, f in files.items()}
            texts = {"c": ctext, "h": fx, "t": t_text, "i": ""}
            if outer:
                texts["o"] = fx
            for s, tx in texts.items():
                os.makedirs(os.path.dirname(P[s]), exist_ok=True)
                with open(P[s], "w") as fh:
                    fh.write(tx)
            first = [{"op": "set_root", "path": d + "/R"}] + \
                [{"op": "analyze", "path": P[s], "text": texts[s], "fresh": True} for s in sorted(texts) if s != "i"]
            for q in ({"op": "goto", "path": P["t"], "line": 0, "col": 11}, {"op": "available", "path": P["t"]},
                      {"op": "imported", "path": P["c"]}):
              for bk, btext in sorted(buffers.items()):
                for requery in (False, True):
                    ops = list(first)
                    if requery:
                        ops.append(q)
                    ops += [{"op": "analyze", "path": P["c"], "text": btext}, {"op": "close", "path": P["c"]}, q]
                    n_main = len(ops)
                    ops += [{"op": "newdb"}] + first + [q]
                    ctx[k] = (n_main, {"conftest_on_disk": ctext, "unsaved_buffer": btext, "outer_conftest": outer,
                                       "queried_before": requery, "dir": d, "query": q["op"]})
                    cases.append({"id": k, "ops": ops})
                    k += 1
    for res in C.run_harness(iter(cases)):
        n_main, ex = ctx[res["id"]]
        V.count()
        V.nontriv("unsaved" + json.dumps(ex))
        warm, never = res["res"][n_main - 1], res["res"][-1]
        def key(a):
            if isinstance(a, dict) and "file" in a:
                return (a["file"], a["line"])
            if isinstance(a, list):
                return sorted(json.dumps(x, sort_keys=True) for x in a)
            return a
        if key(warm) != key(never):
            V.violation(dict(ex, after_close=warm, never_opened=never),
                        "after an import-only edit was closed without saving, the answer differs from a server that never opened the document")
    shutil.rmtree(root, ignore_errors=True)
    return k


def check_c07(tier):
    V = C.Verdict("C07", tier, "model_checking")
    C.build_harness()
    fams = [("History_c07_%s.cfg" % tier, mk_universe, True, "main"),
            ("History_c07scan_%s.cfg" % tier, mk_universe, False, "scan"),
            ("History_c07chain_%s.cfg" % tier, mk_universe2, True, "chain"),
            # closes of MODIFIED documents (never saved): only the invisibility of earlier queries is judged there
            ("History_c07mod_%s.cfg" % tier, mk_universe, True, "mod")]
    metas, replayed = [], 0
    for cfg, mk, scanned, tag in fams:
        m, n = c07_family(V, cfg, mk, scanned, tag)
        metas.append(m)
        replayed += n
    replayed += c07_unsaved_imports(V)
    if not V.samples:
        V.sample({"note": "see rule"})
    replayed += real_eviction(V, 2 if tier == "quick" else 12)
    if not os.environ.get("VERIF_REPLAY"):
        import lsphist
        n_lsp = lsphist.c07_sessions(V, tier) + lsphist.c07_sessions(V, tier, family="chain")
        replayed += n_lsp
        V.notes["lsp_history_sessions"] = n_lsp
    import tracecheck
    n_ev = tracecheck.validate_random_histories(V, 150 if tier == "quick" else 3000, 14 if tier == "quick" else 18, "c07")
    V.count(n_ev)
    replayed += n_ev
    cov = {"states": sum(m["distinct"] for m in metas), "transitions": sum(m["transitions"] for m in metas),
           "traces_validated_against_impl": replayed,
           "tlc": [{"module": "History", "cfg": m["cfg"], "states": m["distinct"], "wall_s": m["wall_s"], "cached": m.get("cached", False)} for m in metas],
           "exhaustive": True}
    return V.finish(
        coverage_extra=cov,
        rule="TLC visits every interleaving (up to the bounds) of edits, cached queries (available fixtures, "
             "resolution, imported-fixture lookup, cycle detection), closes and evictions of unmodified documents over files that "
             "exist on disk, and checks WarmEqualsColdRepaired / RepairedHistoryEqualsR on the repaired model; every "
             "history ending in a query is executed on a real long-lived database and on a cold twin that received "
             "only the edits.  Three configurations: the conftest/helper/test universe (incl. mutually importing modules and "
             "same-named fixtures with / without a dependency cycle); the same universe starting UNSCANNED with the workspace scan "
             "(the real scan_workspace over the on-disk tree) as one event of the history; a conftest CHAIN whose two conftests "
             "share a re-exporting module.  Plus 192 hand-built histories (go-to-definition, available fixtures, imported names) that close a conftest WITHOUT saving after an edit of "
             "its import lines only, judged against a twin that never opened it.  non-trivial = an earlier query/close/evict precedes the final query",
        assumptions=["eviction is emulated for a chosen victim through the pub maps exactly as mod.rs:336-343; the pressure-driven trigger (> 2000 cached files) is provoked for real in a separate step",
                     "close/evict only of documents whose buffer equals the disk content (the statement's 'unmodified document')"])


def real_eviction(V, reps):
    """pressure-driven eviction for real: > 2000 cached files make evict_cache_if_needed drop an arbitrary
    quarter of file_cache (mod.rs:318-350); every answer must stay what it is without eviction"""
    root = os.path.join(C.BUILD, "ws", "c07ev-%d" % os.getpid())
    shutil.rmtree(root, ignore_errors=True)
    os.makedirs(os.path.join(root, "proj", "sub"), exist_ok=True)
    os.makedirs(os.path.join(root, "proj", "fill"), exist_ok=True)
    W = os.path.join(root, "proj")
    files = {
        "conftest.py": "import pytest\nfrom .helpers import *\n\n\n@pytest.fixture\ndef top_fx():\n    return 1\n",
        "helpers.py": "import pytest\n\n\n@pytest.fixture\ndef helper_fx():\n    return 2\n",
        "sub/conftest.py": "import pytest\n\n\n@pytest.fixture\ndef sub_fx(top_fx):\n    return 3\n",
        "sub/test_s.py": "def test_s(top_fx, helper_fx, sub_fx):\n    pass\n",
    }
    for rel, t in files.items():
        with open(os.path.join(W, rel), "w") as fh:
            fh.write(t)
    for k in range(2100):
        with open(os.path.join(W, "fill", "test_fill_%d.py" % k), "w") as fh:
            fh.write("def test_f%d():\n    pass\n" % k)
    tpath = os.path.join(W, "sub", "test_s.py")
    q = [{"op": "goto", "path": tpath, "line": 0, "col": 11}, {"op": "goto", "path": tpath, "line": 0, "col": 19},
         {"op": "goto", "path": tpath, "line": 0, "col": 30}, {"op": "available", "path": tpath},
         {"op": "imported", "path": os.path.join(W, "conftest.py")}, {"op": "cycles"}, {"op": "snapshot"}]
    cases = [{"id": i, "ops": [{"op": "scan", "root": W}] + q} for i in range(reps)]
    want_goto = [("conftest.py", "top_fx"), ("helpers.py", "helper_fx"), ("sub/conftest.py", "sub_fx")]
    n = 0
    for res in C.run_harness(cases, threads=2, timeout=300):       # a scan of 2 104 tiny files takes seconds; a hang must not take 25 min
        n += 1
        V.count()
        V.nontriv(("eviction", res["id"]))
        r = res["res"]
        snap = r[-1]
        evicted = 2104 - len(snap["cached"]) if isinstance(snap, dict) else None
        got = [(os.path.relpath(x["file"], W), x["name"]) if isinstance(x, dict) and "file" in x else x for x in r[1:4]]
        avail = sorted(x["name"] for x in r[4]) if isinstance(r[4], list) else r[4]
        ex = {"files": list(files), "filler_files": 2100, "evicted_entries": evicted, "goto": got, "available": avail, "imported": r[5]}
        if evicted is None or evicted <= 0:
            raise C.ToolError("eviction was not provoked: %r" % evicted)
        if got != want_goto or avail != ["helper_fx", "sub_fx", "top_fx"] or r[5] != ["helper_fx"]:
            V.violation(ex, "pressure-driven cache eviction changed an answer")
    shutil.rmtree(root, ignore_errors=True)
    return n
