"""B2 over the repository's OWN test-suite (DESIGN 5, hook 2): the suite is built with
`--cfg pytest_language_server_verif` and run with PLS_VERIF_TRACE set, so every call of
analyze_file_internal made by any of the 710 tests (library tests, scanner tests, the e2e tests that spawn
the binary) is recorded with its arguments and the analysed file's slice of the index.  Each event's text
is projected by CPython (tools/cpyextract.py: the DOCUMENTED extraction rules) and TLC validates the whole
log against spec/SuiteTrace.tla: per (database, file) the slice after every analysis must be the one the
specification's Analyze action yields from the previous slice, the cleanup flag and the projected text;
a text that does not parse leaves the slice untouched; reverse indexes mirror the primary maps in every state.

  python3 tools/suitetrace.py            (stand-alone: prints a summary)
"""
import glob
import json
import os
import re
import shutil
import subprocess
import time

import common as C
import cpyextract as X

GUARD = "pytest_language_server_verif"


def run_suite(tag="suite"):
    """build + run the repository's tests with the hook on; returns (events, summary)"""
    repo = C.REPO
    tdir = os.path.join(C.BUILD, "target-suite" + C.ALT_SUFFIX)
    out = os.path.join(C.BUILD, "tmp", "suite-trace-%s-%d" % (tag, os.getpid()))
    shutil.rmtree(out, ignore_errors=True)
    os.makedirs(out)
    env = C.scrubbed_env({"RUSTFLAGS": "--cfg %s" % GUARD, "PLS_VERIF_TRACE": out, "CARGO_NET_OFFLINE": "true"})
    env.pop("RUST_LOG", None)
    t = time.time()
    p = subprocess.run(["cargo", "test", "--workspace", "--no-fail-fast", "--offline", "--manifest-path",
                        os.path.join(repo, "Cargo.toml"), "--target-dir", tdir],
                       env=env, stdout=subprocess.PIPE, stderr=subprocess.STDOUT, text=True, cwd=repo, timeout=3000)
    results = re.findall(r"test result: (\w+)\. (\d+) passed; (\d+) failed", p.stdout)
    if not results:
        raise C.ToolError("the test-suite did not build / run with the hook on:\n%s" % p.stdout[-3000:])
    passed = sum(int(r[1]) for r in results)
    failed = sum(int(r[2]) for r in results)
    events = []
    for f in sorted(glob.glob(os.path.join(out, "*.ndjson"))):
        pid = os.path.basename(f)[:-7]
        evs = [json.loads(l) for l in open(f, encoding="utf-8", errors="surrogateescape") if l.strip()]
        evs.sort(key=lambda e: e["seq"])
        for e in evs:
            e["db"] = "%s.%d" % (pid, e["db"])
        events.extend(evs)
    shutil.rmtree(out, ignore_errors=True)
    failing = re.findall(r"^test (\S+) \.\.\. FAILED", p.stdout, re.M)
    return events, {"tests_passed": passed, "tests_failed": failed, "failing": failing[:20], "wall_s": round(time.time() - t, 1),
                    "processes": len({e["db"].split(".")[0] for e in events})}


def norm_def_impl(d):
    return {"name": d["name"], "line": d["line"], "scope": d["scope"], "autouse": bool(d["autouse"]),
            "deps": list(d["deps"]), "yl": d["yield_line"] or 0, "sc": d["sc"], "ec": d["ec"],
            "ret": d["ret"] if d["ret"] is not None else "<none>", "doc": d["doc"] if d["doc"] is not None else "<none>"}


def norm_def_cpy(d):
    np = d.get("namepos") or {}
    return {"name": d["name"], "line": d["line"], "scope": d["scope"], "autouse": bool(d["autouse"]),
            "deps": list(d["deps"]), "yl": d["yield_line"] or 0, "sc": np.get("b0", -1), "ec": np.get("b1", -1),
            "ret": d["ret"] if d["ret"] is not None else "<none>", "doc": d["doc"] if d["doc"] is not None else "<none>"}


def norm_use_impl(u):
    return {"name": u["name"], "line": u["line"], "sc": u["sc"], "ec": u["ec"]}


def fresh_slices(events):
    """C06's oracle: what a FRESH database holds for (path, text) after one analysis by the real library itself"""
    keys, cases = {}, []
    for e in events:
        if e.get("big") or not e["parsed"]:
            continue
        k = (e["path"], e["content"])
        if k not in keys:
            keys[k] = len(cases)
            cases.append({"id": len(cases), "ops": [{"op": "analyze", "path": e["path"], "text": e["content"]},
                                                     {"op": "snapshot", "full": True, "raw": True}]})
    out = {}
    res = list(C.run_harness(cases, threads=8))
    for k, i in keys.items():
        snap = res[i]["res"][1]
        if not isinstance(snap, dict) or "defs" not in snap:
            out[k] = None
            continue
        path = k[0]
        defs = [d for v in snap["defs"].values() for d in v]
        out[k] = {"defs": [norm_def_impl(dict(d, yield_line=d["yield_line"])) for d in defs],
                  "uses": [norm_use_impl(u) for v in snap["usages"].values() for u in v]}
    return out


def project(events, mode="cpython"):
    """-> trace lines for SuiteTrace.tla.  mode "cpython": `ex` = the documented extraction rules applied by CPython
    (judged where the slice starts empty or is cleaned: pure extraction, C03);  mode "fresh": `ex` = the real library's own
    analysis of the same text on a fresh database (every event judged: state evolution, C06)"""
    lines = []
    fresh = fresh_slices(events) if mode == "fresh" else {}
    seen = set()
    stats = {"events": 0, "judged": 0, "unparsed": 0, "big": 0, "cpython_rejects": 0, "cpython_only_accepts": 0}
    for e in events:
        stats["events"] += 1
        line = {"ev": "analyze", "db": e["db"], "f": e["path"], "cleanup": bool(e["cleanup"]), "parsed": bool(e["parsed"]),
                "judged": False, "ex": {"defs": [], "uses": [], "uses_dev": []}, "post": {"defs": [], "keys": [], "uses": [], "ubf": [], "ubfkeys": [], "fdefs": []},
                "seq": e["seq"]}
        if e.get("big"):
            stats["big"] += 1
            line["ev"] = "skip"
            lines.append(line)
            continue
        post = e["post"]
        line["post"] = {"defs": [norm_def_impl(d) for d in post["defs"]], "keys": [d["key"] for d in post["defs"]],
                        "uses": [norm_use_impl(u) for u in post["uses"]],
                        "ubf": [norm_use_impl(u) for u in post["ubf"]],
                        "ubfkeys": [u["key"] + ("" if u["same_path"] else "!path") for u in post["ubf"]],
                        "fdefs": sorted(post["fdefs"])}
        text = e.get("content", "")
        key = (e["db"], e["path"])
        first = key not in seen
        seen.add(key)
        if mode == "fresh":
            if not e["parsed"]:
                stats["unparsed"] += 1
                line["judged"] = True
            else:
                fs = fresh.get((e["path"], text))
                if fs is not None:
                    line["judged"] = True
                    line["ex"] = {"defs": fs["defs"], "uses": fs["uses"], "uses_dev": fs["uses"]}
                    line["text"] = text
            if line["judged"]:
                stats["judged"] += 1
            lines.append(line)
            continue
        try:
            defs, uses = X.extract(text)
            cpy_ok = True
        except (SyntaxError, ValueError, RecursionError):
            cpy_ok = False
        if e["parsed"] and cpy_ok and not (first or e["cleanup"]):
            stats["evolution_only"] = stats.get("evolution_only", 0) + 1     # fresh-path revisit: C06's mode judges it
            lines.append(line)
            continue
        if not e["parsed"]:
            stats["unparsed"] += 1
            if cpy_ok:
                stats["cpython_only_accepts"] += 1
            line["judged"] = True          # the slice must be untouched, whatever the text is
        elif not cpy_ok:
            stats["cpython_rejects"] += 1   # the two parsers disagree on validity: not judged (C03 limits)
        else:
            line["judged"] = True
            line["ex"] = {"defs": [norm_def_cpy(d) for d in defs],
                          "uses": [{"name": u["name"], "line": u["line"], "sc": u.get("b0", -1), "ec": u.get("b1", -1)} for u in uses],
                          # what the recorded deviation indirect_whole_string (KF-C15-indirect-whole-string) predicts
                          "uses_dev": [{"name": u["name"], "line": u["line"], "sc": u["whole"][0] if "whole" in u else u.get("b0", -1),
                                        "ec": u["whole"][1] if "whole" in u else u.get("b1", -1)} for u in uses]}
            line["text"] = text
        if line["judged"]:
            stats["judged"] += 1
        lines.append(line)
    return lines, stats


def py_check(lines):
    """the same judgement in Python (used to explain a TLC rejection in the replay file)"""
    from collections import Counter
    st = {}
    bad = []

    def bag(xs):
        return Counter(json.dumps(x, sort_keys=True) for x in xs)
    for n, e in enumerate(lines):
        if e["ev"] != "analyze":
            continue
        key = (e["db"], e["f"])
        prev = st.get(key, {"defs": [], "uses": []})
        post = e["post"]
        why = []
        if bag(post["ubf"]) != bag(post["uses"]):
            why.append("usage_by_fixture does not mirror usages for the file")
        if any(k != u["name"] for k, u in zip(post["ubfkeys"], post["ubf"])):
            why.append("usage_by_fixture entry filed under a different name / path")
        if sorted(set(d["name"] for d in post["defs"])) != post["fdefs"]:
            why.append("file_definitions is not the set of names defined by the file")
        if any(k != d["name"] for k, d in zip(post["keys"], post["defs"])):
            why.append("definition filed under a different name")
        if e["judged"]:
            if not e["parsed"]:
                if bag(post["defs"]) != bag(prev["defs"]) or bag(post["uses"]) != bag(prev["uses"]):
                    why.append("a text that does not parse changed the file's records")
            else:
                want = (prev["defs"] if not e["cleanup"] else []) + e["ex"]["defs"]
                if bag(post["defs"]) != bag(want):
                    why.append("definitions after the analysis differ from (kept records +) the documented extraction")
                if bag(post["uses"]) != bag(e["ex"]["uses"]):
                    if bag(post["uses"]) == bag(e["ex"]["uses_dev"]):
                        why.append("KNOWN indirect_whole_string")
                    else:
                        why.append("usages after the analysis differ from the documented extraction")
        if why:
            bad.append((n, why))
        st[key] = {"defs": post["defs"], "uses": post["uses"]}
    return bad


def tlc_validate(trace_path, timeout=1800):
    env = C.scrubbed_env({"TRACE": trace_path, "JAVA_TOOL_OPTIONS": "-Xss512m"})
    metadir = trace_path + ".states"
    t = time.time()
    p = subprocess.run(["timeout", str(timeout), "tlc", "-workers", "1", "-metadir", metadir, "-cleanup", "-noGenerateSpecTE",
                        "-config", "SuiteTrace.cfg", "SuiteTrace.tla"], cwd=C.SPEC, env=env,
                       stdout=subprocess.PIPE, stderr=subprocess.STDOUT, text=True)
    subprocess.run(["rm", "-rf", metadir])
    out = p.stdout
    states = re.search(r"(\d+) states generated, (\d+) distinct states found", out)
    rejected = re.search(r"TRACE-REJECTED.*", out)
    inv = re.search(r"Invariant (\w+) is violated", out)
    ok = "Model checking completed. No error has been found" in out and not rejected and not inv
    m = re.search(r"first unmatched event \(1-based line\)\",\s*(\d+)", out)
    return {"ok": ok, "states": int(states.group(2)) if states else 0, "rejected": rejected.group(0)[:600] if rejected else None,
            "rejected_line": int(m.group(1)) if m else None,
            "invariant": inv.group(1) if inv else None, "wall_s": round(time.time() - t, 1),
            "tail": out[-2500:] if not ok and not rejected and not inv else ""}


def validate(V, mode, tag=None):
    """runs the suite with the hook on, validates the log with TLC; records a violation with the first rejected event"""
    events, summ = run_suite(tag or V.prop)
    if not events:
        # the hook was not reached (e.g. the guarded call sites were moved by a refactoring): nothing to validate, no verdict
        V.notes["suite_trace"] = dict(summ, events=0, note="no analysis event was recorded; trace validation skipped")
        return 0
    lines, stats = project(events, mode)
    os.makedirs(os.path.join(C.BUILD, "tmp"), exist_ok=True)
    path = os.path.join(C.BUILD, "tmp", "suite-trace-%s-%d.ndjson" % (V.prop, os.getpid()))
    with open(path, "w") as fh:
        for l in lines:
            fh.write(json.dumps({k: v for k, v in l.items() if k != "text"}) + "\n")
    r = tlc_validate(path)
    bad = py_check(lines)
    known_dev = sum(1 for _, why in bad if why == ["KNOWN indirect_whole_string"])
    real_bad = [(n, why) for n, why in bad if why != ["KNOWN indirect_whole_string"]]
    V.count(stats["judged"])
    if not r["ok"]:
        if not (r["rejected"] or r["invariant"]):
            raise C.ToolError("TLC trace validation (SuiteTrace) failed to run: %s" % r["tail"])
        n = (r["rejected_line"] - 1) if r["rejected_line"] else (real_bad[0][0] if real_bad else 0)
        e = lines[min(n, len(lines) - 1)]
        why = dict(real_bad).get(n, ["invariant %s" % r["invariant"]] if r["invariant"] else ["(see TLC)"])
        keep = os.path.join(C.REPLAYS, V.prop)
        os.makedirs(keep, exist_ok=True)
        kept = os.path.join(keep, "suite-trace.ndjson")
        os.replace(path, kept)
        V.violation({"trace": kept, "tlc": r["rejected"] or ("invariant %s violated" % r["invariant"]), "event_line": n + 1,
                     "file": e["f"], "cleanup": e["cleanup"], "parsed": e["parsed"], "why": why, "text": e.get("text"),
                     "expected_records": e["ex"], "index_slice_after_the_call": e["post"], "oracle": mode,
                     "rerun": "TRACE=%s tlc -workers 1 -config SuiteTrace.cfg SuiteTrace.tla (cwd /verif/spec)" % kept},
                    "an analysis performed by the repository's own test-suite is not a behaviour of the specification: "
                    + "; ".join(why))
    else:
        os.unlink(path)
        if real_bad:
            raise C.ToolError("SuiteTrace: TLC accepts a trace the Python judgement rejects: %r" % (real_bad[:3],))
    V.notes["suite_trace"] = dict(summ, **stats, oracle=mode, tlc_states=r["states"], accepted=r["ok"], tlc_wall_s=r["wall_s"],
                                  events_explained_by_indirect_whole_string=known_dev)
    return len(lines) if r["ok"] else 0


def main():
    import sys
    mode = sys.argv[1] if len(sys.argv) > 1 else "cpython"
    events, summ = run_suite()
    lines, stats = project(events, mode)
    print(summ, stats)
    bad = py_check(lines)
    print("python judgement: %d events differ" % len(bad))
    for n, why in bad[:40]:
        e = lines[n]
        print("---", n, e["f"], why)
        print("   ex  ", json.dumps(e["ex"])[:600])
        print("   post", json.dumps({k: e["post"][k] for k in ("defs", "uses")})[:600])
    path = os.path.join(C.BUILD, "tmp", "suite-trace.ndjson")
    with open(path, "w") as fh:
        for l in lines:
            fh.write(json.dumps({k: v for k, v in l.items() if k != "text"}) + "\n")
    print(tlc_validate(path))


if __name__ == "__main__":
    main()
