"""Renderer: abstract modules of the TLA+ specification (spec/Workspace.tla `Item`) -> concrete
Python text with a position table, plus an independent re-extraction of the abstract module from
that text with CPython's own parser (`pyextract`).  The renderer is therefore not trusted: every
rendered text is re-parsed and must denote exactly the abstract module it was rendered from,
otherwise the check stops with a tool error (exit 2), never with a verdict."""
import ast
import functools
import json

SCOPES = ["function", "class", "module", "package", "session"]


class ToolError(Exception):
    pass


class Universe:
    """slot -> (path, module name); which slots are reachable by `.mod` relative imports."""

    def __init__(self, paths, modnames=None):
        self.paths = dict(paths)
        self.modnames = dict(modnames or {})
        self.slot_of_path = {p: s for s, p in self.paths.items()}

    def dir_of(self, slot):
        return self.paths[slot].rsplit("/", 1)[0]

    def modname(self, slot):
        if slot in self.modnames:
            return self.modnames[slot]
        return self.paths[slot].rsplit("/", 1)[1][:-3]


# The layout universe lives below a REAL directory skeleton (the files themselves stay virtual: the replayer hands their
# texts to analyze_file): resolving a dotted relative import such as `..s.conftest` needs the intermediate directories to
# exist (imports.rs find_module_file: `is_dir()`), the last component is found through file_cache.
import os as _os
VWS = _os.path.join(_os.path.dirname(_os.path.dirname(_os.path.abspath(__file__))), ".build", "vws")
LAYOUT_UNIVERSE = Universe({
    "c0": VWS + "/R/conftest.py", "c1": VWS + "/R/sa/conftest.py", "c2": VWS + "/R/sa/b/conftest.py",
    "cs": VWS + "/R/s/conftest.py", "u": VWS + "/R/sa/b/test_u.py", "o": VWS + "/R/sa/b/test_o.py",
    "m": VWS + "/R/sa/b/mod_m.py", "h0": VWS + "/R/helper0.py", "h1": VWS + "/R/sa/helper1.py",
    "h2": VWS + "/R/sa/b/http.py", "hh": VWS + "/R/sa/helperh.py",
    "t0": VWS + "/R/test_t0.py", "t1": VWS + "/R/sa/test_t1.py",
    "pl": VWS + "/plugsrc/plug.py",
    "tp": VWS + "/venv/lib/python3.11/site-packages/tp/plugin.py",
    "tp2": VWS + "/venv/lib/python3.11/site-packages/tp2/plugin.py",
    "tpi": VWS + "/R/.venv/lib/python3.11/site-packages/tpi/plugin.py",
})
for _p in LAYOUT_UNIVERSE.paths.values():
    _os.makedirs(_os.path.dirname(_p), exist_ok=True)


def spelled(uni, slot, mod, code):
    """module string of an import statement in `slot` that refers to slot `mod`:
    code 0 = relative level 1, 1 = absolute, 2 = relative level 2"""
    import posixpath
    t = uni.paths[mod]
    tdir, tfile = t.rsplit("/", 1)
    base = uni.dir_of(slot)
    if code == 2:
        base = base.rsplit("/", 1)[0]
    target = tdir if tfile == "__init__.py" else t[:-3]
    rel = posixpath.relpath(target, base)
    if rel.startswith(".."):
        raise ToolError("import from %s to %s cannot be spelled with code %r" % (slot, mod, code))
    dotted = "" if rel == "." else rel.replace("/", ".")      # bare relative import: `from . import x` / `from .. import x`
    if code == 1 and not dotted:
        raise ToolError("the importer's own package cannot be spelled as an absolute import (%s -> %s)" % (slot, mod))
    return {0: ".", 1: "", 2: ".."}[code] + dotted


def _seq(x):
    # TLC's ToJson prints an empty sequence/tuple as [] and functions with domain 1..n as arrays
    return list(x) if x else []


class Rendered:
    __slots__ = ("text", "item_line", "line_item", "use_pos", "def_name_pos", "yield_line", "probe_pos")

    def __init__(self):
        self.text = ""
        self.item_line = {}     # idx (1-based) -> 1-based line of the def/assign line
        self.line_item = {}     # line -> idx
        self.use_pos = {}       # (idx, uk, ui) -> (line1, col_start, col_end)  [byte == utf16 here: ASCII]
        self.probe_pos = {}     # where a CURSOR is on that usage when it differs from the recorded span (names inside one indirect string)
        self.def_name_pos = {}  # idx -> (line1, col_start, col_end) of the function name
        self.yield_line = {}    # idx -> 1-based line of the fixture's yield (generator fixtures only)


RET_TYPES = ["int", "str", "bytes", "float", "bool", "list", "dict", "set", "tuple", "complex", "object", "bytearray",
             "frozenset", "range", "slice", "type"]


def ret_type_of(uni, slot):
    return RET_TYPES[sorted(uni.paths).index(slot) % len(RET_TYPES)]


STR_FORMS = [('"', '"'), ('u"', '"'), ("r'", "'"), ('"""', '"""'), ("'", "'")]


def _lit_parts(names, head_len, forms_on, salt):
    """-> (joined text of the string literals, [(content start col, content end col)]) for literals written after `head`"""
    col = head_len
    parts, spans = [], []
    for j, m in enumerate(names):
        op, cl = STR_FORMS[(salt + j) % len(STR_FORMS)] if forms_on else STR_FORMS[0]
        spans.append((col + len(op), col + len(op) + len(m)))
        parts.append(op + m + cl)
        col += len(op) + len(m) + len(cl) + 2
    return ", ".join(parts), spans


def render_module(uni, slot, module, style=None):
    """module: {"present":..,"valid":..,"items":[item..]} as printed by TLC. Returns Rendered."""
    r = Rendered()
    lines = ["import pytest", "", ""]
    # style flags: "wrap" (one parameter per line), "alias" (fixtures renamed with name=), "async" (async generator fixtures),
    # "crlf" (CRLF line endings)
    st_flags = set((style or "").split("+")) - {""}
    style = "wrap" if "wrap" in st_flags else None
    items = _seq(module.get("items"))
    cls_counter = 0
    for i0, it in enumerate(items):
        idx = i0 + 1
        k = it["k"]
        ln = len(lines) + 1
        if k == "def":
            args = []
            if it.get("scope", 0):
                args.append('scope="%s"' % SCOPES[it["scope"]])
            if it.get("autouse"):
                args.append("autouse=True")
            deps = _seq(it["deps"])
            fname = it["name"]
            if "assign" in st_flags and not deps and not it.get("scope", 0) and not it.get("autouse") \
                    and any(x["k"] == "def" and x["name"] == it["name"] for x in items[:i0]):
                # ASSIGNMENT-STYLE fixture re-binding a name the module already defined with a decorated function
                lines.append("%s = pytest.fixture()(lambda: 1)" % it["name"])
                r.item_line[idx] = ln
                r.def_name_pos[idx] = (ln, 0, len(it["name"]))
                lines.append("")
                lines.append("")
                continue
            if "alias" in st_flags and not deps:
                # a RENAMED fixture: the function is called otherwise, the fixture name comes from name=
                args.append('name="%s"' % it["name"])
                fname = it["name"] + "_impl"
            lines.append("@pytest.fixture" + ("(%s)" % ", ".join(args) if args else ""))
            kw = "async def" if "async" in st_flags else "def"
            head = "%s %s(" % (kw, fname)
            # every file annotates its fixtures with ITS OWN return type: inlay hints and hover then tell which
            # definition a feature is describing
            ret = " -> %s" % ret_type_of(uni, slot)
            if style == "wrap" and deps:
                # wrapped signature: one parameter per line below the def line
                lines.append(head)
                for j, d in enumerate(deps):
                    r.use_pos[(idx, "p", j + 1)] = (len(lines) + 1, 4, 4 + len(d))
                    lines.append("    %s," % d)
                lines.append(")%s:" % ret)
            else:
                col = len(head)
                parts = []
                for j, d in enumerate(deps):
                    r.use_pos[(idx, "p", j + 1)] = (ln + 1, col, col + len(d))
                    parts.append(d)
                    col += len(d) + 2
                lines.append(head + ", ".join(parts) + ")%s:" % ret)
            lines.append("    yield 1" if "async" in st_flags else "    return 1")
            if "async" in st_flags:
                r.yield_line[idx] = len(lines)
            r.item_line[idx] = ln + 1
            r.def_name_pos[idx] = (ln + 1, len(kw) + 1, len(kw) + 1 + len(fname))
        elif k == "testb":
            # a test whose body uses the names of `ind` as call targets (one per line) without declaring them
            deps, body = _seq(it["deps"]), _seq(it["ind"])
            head = "def %s(" % it["name"]
            col = len(head)
            for j, d in enumerate(deps):
                r.use_pos[(idx, "p", j + 1)] = (ln, col, col + len(d))
                col += len(d) + 2
            lines.append(head + ", ".join(deps) + "):")
            for b in body:
                lines.append("    %s()" % b)
            if not body:
                lines.append("    pass")
            r.item_line[idx] = ln
        elif k == "test":
            marks, cmarks, ind = _seq(it["marks"]), _seq(it["cmarks"]), _seq(it["ind"])
            deps = _seq(it["deps"])
            indent = ""
            if cmarks:
                cls_counter += 1
                head = "@pytest.mark.usefixtures("
                txt, spans = _lit_parts(cmarks, len(head), "strform" in st_flags, idx + 1)
                for j, (a, b) in enumerate(spans):
                    r.use_pos[(idx, "c", j + 1)] = (len(lines) + 1, a, b)
                lines.append(head + txt + ")")
                lines.append("class TestC%d:" % cls_counter)
                indent = "    "
            # a function carrying both: the parametrize decorator is written ABOVE the usefixtures decorator
            if ind:
                head = indent + "@pytest.mark.parametrize("
                s = ",".join(ind)
                col = len(head)
                # the implementation maps every indirect name to the whole first-argument string
                off = 0
                for j, m in enumerate(ind):
                    r.use_pos[(idx, "i", j + 1)] = (len(lines) + 1, col + 1, col + 1 + len(s))
                    if len(ind) > 1:
                        r.probe_pos[(idx, "i", j + 1)] = (len(lines) + 1, col + 1 + off, col + 1 + off + len(m))
                    off += len(m) + 1
                vals = "[1]" if len(ind) == 1 else "[(%s)]" % ", ".join("1" for _ in ind)
                lines.append(head + '"%s", %s, indirect=True)' % (s, vals))
            if marks:
                head = indent + "@pytest.mark.usefixtures("
                txt, spans = _lit_parts(marks, len(head), "strform" in st_flags, idx)
                for j, (a, b) in enumerate(spans):
                    r.use_pos[(idx, "m", j + 1)] = (len(lines) + 1, a, b)
                lines.append(head + txt + ")")
            head = indent + "def %s(" % it["name"]
            col = len(head)
            parts = []
            if cmarks:
                parts.append("self")
                col += 6
            dl = len(lines) + 1
            if style == "wrap" and deps:
                lines.append(head + ("self," if cmarks else ""))
                for j, d in enumerate(deps):
                    r.use_pos[(idx, "p", j + 1)] = (len(lines) + 1, len(indent) + 4, len(indent) + 4 + len(d))
                    lines.append(indent + "    %s," % d)
                lines.append(indent + "):")
            else:
                for j, d in enumerate(deps):
                    r.use_pos[(idx, "p", j + 1)] = (dl, col, col + len(d))
                    parts.append(d)
                    col += len(d) + 2
                lines.append(head + ", ".join(parts) + "):")
            lines.append(indent + "    pass")
            r.item_line[idx] = dl
        elif k == "star":
            lines.append("from %s import *" % spelled(uni, slot, it["mod"], it.get("scope", 0)))
            r.item_line[idx] = ln
        elif k == "imp":
            lines.append("from %s import %s" % (spelled(uni, slot, it["mod"], it.get("scope", 0)), it["name"]))
            r.item_line[idx] = ln
        elif k == "impas":
            lines.append("from %s import %s as %s" % (spelled(uni, slot, it["mod"], it.get("scope", 0)), _seq(it["marks"])[0], it["name"]))
            r.item_line[idx] = ln
        elif k == "plugins":
            lines.append('pytest_plugins = ["%s"]' % spelled(uni, slot, it["mod"], 1))
            r.item_line[idx] = ln
        elif k == "helper":
            lines.append("def %s():" % it["name"])
            lines.append("    return 0")
            r.item_line[idx] = ln
        elif k == "pmark":
            head = "pytestmark = pytest.mark.usefixtures("
            txt, spans = _lit_parts(_seq(it["marks"]), len(head), "strform" in st_flags, idx + 2)
            for j, (a, b) in enumerate(spans):
                r.use_pos[(idx, "pm", j + 1)] = (ln, a, b)
            lines.append(head + txt + ")")
            r.item_line[idx] = ln
        else:
            raise ToolError("unknown item kind %r" % k)
        lines.append("")
        lines.append("")
    r.text = "\n".join(lines) + "\n"
    if not module.get("valid", True):
        # an unparsable version of the same text: an unclosed parenthesis at the end
        r.text = r.text + "def broken(:\n"
    if "crlf" in st_flags:
        r.text = r.text.replace("\n", "\r\n")
    r.line_item = {l: i for i, l in r.item_line.items()}
    return r


def _check_same_dir(uni, slot, mod):
    if uni.dir_of(slot) != uni.dir_of(mod):
        raise ToolError("relative import from %s to %s crosses directories" % (slot, mod))


# ---------------------------------------------------------------------------------------------
# Independent extraction with CPython's parser (documented rules of the README / property C03).

def _is_fixture_deco(d):
    f = d.func if isinstance(d, ast.Call) else d
    if isinstance(f, ast.Name):
        return f.id == "fixture"
    if isinstance(f, ast.Attribute) and isinstance(f.value, ast.Name):
        return f.attr == "fixture" and f.value.id in ("pytest", "pytest_asyncio")
    return False


def _mark_call(d, what):
    """d is pytest.mark.<what>(...) -> the Call, else None"""
    if isinstance(d, ast.Call):
        f = d.func
        if isinstance(f, ast.Attribute) and f.attr == what and isinstance(f.value, ast.Attribute) \
                and f.value.attr == "mark" and isinstance(f.value.value, ast.Name) and f.value.value.id == "pytest":
            return d
    return None


_SRC_LINES = []      # lines of the text pyextract is working on (for the true content span of a string literal)


def _usefixtures(decos):
    out = []
    for d in decos:
        c = _mark_call(d, "usefixtures")
        if c:
            for a in c.args:
                if isinstance(a, ast.Constant) and isinstance(a.value, str):
                    op, cl = 1, 1
                    if _SRC_LINES and a.lineno == a.end_lineno:
                        raw = _SRC_LINES[a.lineno - 1][a.col_offset:a.end_col_offset]
                        i = 0
                        while i < len(raw) and raw[i] not in "'\"":
                            i += 1
                        q = 3 if raw[i:i + 3] in ("\"\"\"", "'''") else 1
                        op, cl = i + q, q
                    out.append((a.value, a.lineno, a.col_offset + op, a.end_col_offset - cl))
    return out


def _indirect(decos):
    out = []
    for d in decos:
        c = _mark_call(d, "parametrize")
        if not c or not c.args:
            continue
        ind = [k for k in c.keywords if k.arg == "indirect"]
        if not ind:
            continue
        a0 = c.args[0]
        if not (isinstance(a0, ast.Constant) and isinstance(a0.value, str)):
            continue
        names = [x.strip() for x in a0.value.split(",") if x.strip()]
        v = ind[0].value
        if isinstance(v, ast.Constant) and v.value is True:
            sel = names
        elif isinstance(v, (ast.List, ast.Tuple)):
            listed = [e.value for e in v.elts if isinstance(e, ast.Constant) and isinstance(e.value, str)]
            sel = [n for n in listed if n in names]
        else:
            sel = []
        for n in sel:
            out.append((n, a0.lineno, a0.col_offset + 1, a0.end_col_offset - 1))
    return out


def pyextract(text, uni=None, slot=None):
    """Abstract items (same shape as the spec's) + positions, from CPython's ast."""
    tree = ast.parse(text)
    _SRC_LINES[:] = text.split("\n")
    items = []
    pos = []   # per item: {"line":.., "uses": {(uk,ui):(line,cs,ce)}}

    def args_of(fn, drop_self):
        a = fn.args
        allargs = list(a.posonlyargs) + list(a.args) + list(a.kwonlyargs)
        res = []
        for x in allargs:
            if drop_self and x.arg == "self":
                continue
            res.append((x.arg, x.lineno, x.col_offset, x.col_offset + len(x.arg)))
        return res

    def visit(stmts, cls_marks):
        for st in stmts:
            if isinstance(st, (ast.FunctionDef, ast.AsyncFunctionDef)):
                fix = [d for d in st.decorator_list if _is_fixture_deco(d)]
                marks = _usefixtures(st.decorator_list)
                ind = _indirect(st.decorator_list)
                if fix:
                    d = fix[0]
                    scope, autouse, name = 0, False, st.name
                    if isinstance(d, ast.Call):
                        for kw in d.keywords:
                            if kw.arg == "scope" and isinstance(kw.value, ast.Constant) and kw.value.value in SCOPES:
                                scope = SCOPES.index(kw.value.value)
                            if kw.arg == "autouse" and isinstance(kw.value, ast.Constant) and kw.value.value is True:
                                autouse = True
                            if kw.arg == "name" and isinstance(kw.value, ast.Constant) and isinstance(kw.value.value, str):
                                name = kw.value.value
                    a = [x for x in args_of(st, True) if x[0] != "request"]
                    items.append({"k": "def", "name": name, "deps": [x[0] for x in a], "scope": scope,
                                  "autouse": autouse, "mod": "-", "marks": [], "cmarks": [], "ind": []})
                    pos.append({"line": st.lineno, "uses": {("p", j + 1): x[1:] for j, x in enumerate(a)}})
                elif st.name.startswith("test_") and all(
                        isinstance(b, ast.Expr) and isinstance(b.value, ast.Call) and isinstance(b.value.func, ast.Name)
                        and not b.value.args for b in st.body):
                    # body = bare calls of names: the abstract kind "testb" (body uses, `ind` = the names in order)
                    a = args_of(st, True)
                    items.append({"k": "testb", "name": st.name, "deps": [x[0] for x in a], "scope": 0, "autouse": False,
                                  "mod": "-", "marks": [], "cmarks": [], "ind": [b.value.func.id for b in st.body]})
                    pos.append({"line": st.lineno, "uses": {("p", j + 1): x[1:] for j, x in enumerate(a)}})
                elif st.name.startswith("test_"):
                    a = args_of(st, True)
                    uses = {("p", j + 1): x[1:] for j, x in enumerate(a)}
                    uses.update({("m", j + 1): x[1:] for j, x in enumerate(marks)})
                    uses.update({("c", j + 1): x[1:] for j, x in enumerate(cls_marks)})
                    uses.update({("i", j + 1): x[1:] for j, x in enumerate(ind)})
                    items.append({"k": "test", "name": st.name, "deps": [x[0] for x in a], "scope": 0,
                                  "autouse": False, "mod": "-", "marks": [x[0] for x in marks],
                                  "cmarks": [x[0] for x in cls_marks], "ind": [x[0] for x in ind]})
                    pos.append({"line": st.lineno, "uses": uses})
                else:
                    items.append({"k": "helper", "name": st.name, "deps": [], "scope": 0, "autouse": False,
                                  "mod": "-", "marks": [], "cmarks": [], "ind": []})
                    pos.append({"line": st.lineno, "uses": {}})
            elif isinstance(st, ast.ClassDef):
                visit(st.body, _usefixtures(st.decorator_list))
            elif isinstance(st, ast.ImportFrom):
                if st.module == "pytest":
                    continue
                mod = "." * (st.level or 0) + (st.module or "")     # bare relative import: module is None
                for al in st.names:
                    if al.name == "*":
                        items.append({"k": "star", "name": "-", "deps": [], "scope": 0, "autouse": False,
                                      "mod": mod, "marks": [], "cmarks": [], "ind": []})
                    elif al.asname:
                        items.append({"k": "impas", "name": al.asname, "deps": [], "scope": 0, "autouse": False,
                                      "mod": mod, "marks": [al.name], "cmarks": [], "ind": []})
                    else:
                        items.append({"k": "imp", "name": al.name, "deps": [], "scope": 0,
                                      "autouse": False, "mod": mod, "marks": [], "cmarks": [], "ind": []})
                    pos.append({"line": st.lineno, "uses": {}})
            elif isinstance(st, ast.Assign) and len(st.targets) == 1 and isinstance(st.targets[0], ast.Name):
                t = st.targets[0].id
                v0 = st.value
                if isinstance(v0, ast.Call) and isinstance(v0.func, ast.Call) and _is_fixture_deco(v0.func):
                    # assignment-style fixture: name = pytest.fixture(...)(callable)
                    items.append({"k": "def", "name": t, "deps": [], "scope": 0, "autouse": False, "mod": "-", "marks": [], "cmarks": [], "ind": []})
                    pos.append({"line": st.lineno, "uses": {}})
                    continue
                if t == "pytest_plugins":
                    v = st.value
                    mods = []
                    if isinstance(v, ast.Constant) and isinstance(v.value, str):
                        mods = [v.value]
                    elif isinstance(v, (ast.List, ast.Tuple)):
                        mods = [e.value for e in v.elts if isinstance(e, ast.Constant) and isinstance(e.value, str)]
                    for m in mods:
                        items.append({"k": "plugins", "name": "-", "deps": [], "scope": 0, "autouse": False,
                                      "mod": m, "marks": [], "cmarks": [], "ind": []})
                        pos.append({"line": st.lineno, "uses": {}})
                elif t == "pytestmark":
                    v = st.value
                    decos = list(v.elts) if isinstance(v, (ast.List, ast.Tuple)) else [v]
                    marks = _usefixtures(decos)
                    items.append({"k": "pmark", "name": "-", "deps": [], "scope": 0, "autouse": False,
                                  "mod": "-", "marks": [x[0] for x in marks], "cmarks": [], "ind": []})
                    pos.append({"line": st.lineno, "uses": {("pm", j + 1): x[1:] for j, x in enumerate(marks)}})

    visit(tree.body, [])
    return items, pos


@functools.lru_cache(maxsize=200000)
def _render_checked_cached(uni_id, slot, module_json, style=None):
    uni = _UNIS[uni_id]
    module = json.loads(module_json)
    r = render_module(uni, slot, module, style)
    if module.get("valid", True):
        try:
            items, pos = pyextract(r.text)
        except SyntaxError as e:
            raise ToolError("renderer produced text CPython rejects: %s\n%s" % (e, r.text))
        want = []
        for it in _seq(module.get("items")):
            w = {"k": it["k"], "name": it["name"], "deps": _seq(it["deps"]), "scope": it["scope"],
                 "autouse": it["autouse"], "mod": it["mod"], "marks": _seq(it["marks"]),
                 "cmarks": _seq(it["cmarks"]), "ind": _seq(it["ind"])}
            if w["k"] in ("star", "imp", "impas", "plugins"):
                w["mod"] = spelled(uni, slot, w["mod"], 1 if w["k"] == "plugins" else w["scope"])
                w["scope"] = 0
            want.append(w)
        if items != want:
            raise ToolError("renderer/CPython disagreement for slot %s:\nwant %r\ngot  %r\n%s"
                            % (slot, want, items, r.text))
        for i0, p in enumerate(pos):
            idx = i0 + 1
            if r.item_line[idx] != p["line"]:
                raise ToolError("line table disagreement item %d: %r vs %r\n%s" % (idx, r.item_line[idx], p["line"], r.text))
            for key, v in p["uses"].items():
                if r.use_pos.get((idx,) + key) != tuple(v):
                    raise ToolError("position disagreement item %d %r: %r vs %r\n%s"
                                    % (idx, key, r.use_pos.get((idx,) + key), v, r.text))
            if len(p["uses"]) != len([k for k in r.use_pos if k[0] == idx]):
                raise ToolError("usage count disagreement item %d\n%s" % (idx, r.text))
    else:
        try:
            ast.parse(r.text)
            raise ToolError("text rendered for an invalid module parses")
        except SyntaxError:
            pass
    return r


_UNIS = {}


def render_checked(uni, slot, module, style=None):
    _UNIS[id(uni)] = uni
    return _render_checked_cached(id(uni), slot, json.dumps(module, sort_keys=True), style)
