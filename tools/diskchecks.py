"""C13 (discovery) and C14 (imports / plugins) on materialised directory trees."""
import json
import os
import shutil

import common as C

FILE_TMPL = "import pytest\n\n\n@pytest.fixture\ndef fx_%d():\n    return 1\n\n\ndef test_%d(fx_%d):\n    pass\n"


def path_key(p):
    return "/".join(list(p["dirs"] or []) + [p["file"]])


def check_c13(tier):
    V = C.Verdict("C13", tier, "model_checking")
    meta = C.run_tlc("Discovery", "Discovery.cfg" if tier == "quick" else "Discovery_thorough.cfg", workers=8, timeout=3600)
    if not meta["ok"]:
        raise C.ToolError("TLC on Discovery failed: %s" % meta["errors"])
    C.build_harness()
    alpha = next(C.tlc_cases(meta, prefix="VERSIONS"))
    dirs, files = sorted(alpha["dirs"]), sorted(alpha["files"])
    dirseqs = [[]] + [[a] for a in dirs] + [[a, b] for a in dirs for b in dirs]
    paths = [{"dirs": d, "file": f} for d in dirseqs for f in files]
    index = {path_key(p): i for i, p in enumerate(paths)}
    cases = list(C.tlc_cases(meta))
    base = os.path.join(C.BUILD, "ws", "c13-%d" % os.getpid())
    shutil.rmtree(base, ignore_errors=True)
    trees = {}
    hcases = []
    for n, c in enumerate(cases):
        tk = (tuple(c["loc"]["above"]), c["loc"]["name"], c["fm"])
        if tk not in trees:
            root = os.path.join(base, "t%d" % len(trees), *c["loc"]["above"], c["loc"]["name"])
            for p in paths:
                i = index[path_key(p)]
                d = os.path.join(root, *p["dirs"])
                os.makedirs(d, exist_ok=True)
                fp = os.path.join(d, p["file"])
                if c["fm"] == "nonutf8" and p["file"] == "test_.py":
                    with open(fp, "wb") as fh:
                        if i % 2:
                            fh.write(b"\xff\xfe\x00bad" + (FILE_TMPL % (i, i, i)).encode())
                        else:
                            # a legacy-encoded file: one Latin-1 byte inside a COMMENT -- not valid UTF-8 as a whole, although
                            # the text would parse if the byte were replaced
                            fh.write((FILE_TMPL % (i, i, i)).encode() + b"# caf\xe9 au lait\n")
                elif c["fm"] == "dangling" and p["file"] == "_test.py":
                    os.symlink(os.path.join(d, "does_not_exist_%d" % i), fp)
                else:
                    with open(fp, "w") as fh:
                        if p["dirs"] == ["tests"] and p["file"] == "conftest.py":
                            fh.write("from .helpermod import *\n")
                        fh.write(FILE_TMPL % (i, i, i))
            # the module tests/conftest.py pulls in (its name is not a pytest file name)
            with open(os.path.join(root, "tests", "helpermod.py"), "w") as fh:
                fh.write("import pytest\n\n\n@pytest.fixture\ndef pulled_in_fixture():\n    return 1\n")
            trees[tk] = root
        root = trees[tk]
        via = c.get("via", "direct")
        if via in ("symlink", "symlink_ign"):
            # the client names the workspace through a symbolic link that lives in a plainly named directory / in a directory
            # whose name is on the ignore list
            link = os.path.join(base, "links" if via == "symlink" else "build", "l%d" % list(trees).index(tk))
            os.makedirs(os.path.dirname(link), exist_ok=True)
            if not os.path.islink(link):
                os.symlink(root, link)
            root = link
        elif via == "dotdot":
            root = os.path.join(root, "pkg", "..")
        hcases.append({"id": n, "ops": [{"op": "scan", "root": root, "excludes": sorted(c["ex"] or [])},
                                        {"op": "snapshot", "full": True}]})
    results = list(C.run_harness(hcases, threads=4))
    for c, res in zip(cases, results):
        V.count()
        V.nontriv(json.dumps([c["loc"], sorted(c["ex"] or []), c["fm"], c.get("via")]))
        snap = res["res"][1]
        ex = {"root_location": c["loc"], "excludes": sorted(c["ex"] or []), "fault_mode": c["fm"], "root_named_by": c.get("via", "direct")}
        if not isinstance(snap, dict) or "defs" not in snap or isinstance(res["res"][0], dict):
            V.violation(dict(ex, result=res["res"]), "workspace scan panicked or failed")
            continue
        got = set()
        for name, lst in snap["defs"].items():
            if name.startswith("fx_") and lst:
                got.add(int(name[3:]))
        got_u = set()
        for name in snap["ubf"]:
            if name.startswith("fx_"):
                got_u.add(int(name[3:]))
        pulled = bool(snap["defs"].get("pulled_in_fixture"))
        V.count()
        if pulled != c["pulledPy"]:
            e4 = dict(ex, importer="tests/conftest.py", module="tests/helpermod.py", indexed=pulled, expected=c["pulledPy"])
            if pulled == c["pulledImpl"] and c["blame"]:
                V.classify(sorted(c["blame"]), e4, "the module a discovered conftest.py pulls in is not indexed exactly when its importer is")
            else:
                V.violation(e4, "the module a discovered conftest.py pulls in is not indexed exactly when its importer is")
        py = {index[path_key(p)] for p in c["py"]}
        impl = {index[path_key(p)] for p in c["impl"]}
        if got != got_u:
            V.violation(dict(ex, only_defs=sorted(got - got_u)[:10], only_usages=sorted(got_u - got)[:10]),
                        "a scanned file has definitions without usages or vice versa")
        third = {d["third"] for lst in snap["defs"].values() for d in lst}
        if third - {c["thirdPy"]}:
            e3 = dict(ex, third_party_flags=sorted(third), blame=["third_party_by_substring"])
            if third == {c["thirdImpl"]}:
                V.classify(["third_party_by_substring"], e3, "workspace fixtures are classified third-party because of where the root lives")
            else:
                V.violation(e3, "workspace fixtures are classified third-party (not predicted by the model)")
        if got == py:
            continue
        inv = {v: k for k, v in index.items()}
        e2 = dict(ex, missing=[inv[i] for i in sorted(py - got)][:15], unexpected=[inv[i] for i in sorted(got - py)][:15],
                  n_expected=len(py), n_indexed=len(got), blame=sorted(c["blame"] or []))
        if got == impl:
            V.classify(sorted(c["blame"] or []), e2, "the set of indexed files differs from pytest's discovery rules relative to the root")
        else:
            V.drift += 1
            V.violation(e2, "the set of indexed files differs from the rules and from the implementation model")
    nb = c13_binary(V, base)
    shutil.rmtree(base, ignore_errors=True)
    V.notes["lsp_sessions"] = nb
    V.sample({"root_location": cases[0]["loc"], "excludes": cases[0]["ex"], "fault_mode": cases[0]["fm"], "files_in_tree": len(paths)})
    cov = {"states": meta["distinct"], "transitions": meta["transitions"], "traces_validated_against_impl": len(cases),
           "files_per_tree": len(paths), "exhaustive": True,
           "tlc": {"module": "Discovery", "wall_s": meta["wall_s"], "cached": meta.get("cached", False)}}
    return V.finish(
        coverage_extra=cov,
        rule="one tree holds the full product of <= 2 directory components over {ignored names, *.egg-info, near misses, plain} "
             "x 10 file names around the patterns (1330 files, each with a uniquely named fixture and usage); it is "
             "materialised under 6 root locations (plain; ancestors named build / env / .cache / containing "
             "'site-packages'; root itself named build) x 4 exclude sets x 3 fault modes (non-UTF-8 files, dangling "
             "symlinks) and scanned by the real library; the indexed set must equal PyIndexed (root-relative rules)",
        assumptions=["runs as root: permission-denied faults cannot be produced (invalid UTF-8 and dangling symlinks instead)",
                     "exclude patterns limited to the shapes `dir/**` and `**/name.py` (glob crate semantics)"])


def c13_binary(V, base):
    """the configured exclude patterns are those of the WORKSPACE's pyproject.toml: the same tree opened by the real binary at
    locations whose ANCESTORS carry configuration (or a .git directory) must be indexed identically"""
    import lsp
    C.build_server()
    tree = {"conftest.py": "fx_root", "tests/conftest.py": "fx_tc", "tests/test_a.py": "fx_a", "legacy/test_old.py": "fx_old",
            "legacy/conftest.py": "fx_lc"}
    anc_cfg = '[tool.pytest-language-server]\nexclude = ["legacy/*", "tests/**", "**/test_a.py"]\n'
    variants = [
        ("plain", {}, None, set(tree.values())),
        ("ancestor_with_config", {"pyproject.toml": anc_cfg}, None, set(tree.values())),
        ("ancestor_with_config_and_git_above", {"pyproject.toml": anc_cfg, "../.git/HEAD": "ref: refs/heads/main\n"}, None, set(tree.values())),
        ("ancestor_config_workspace_other_table", {"pyproject.toml": anc_cfg}, "[tool.black]\nline-length = 100\n", set(tree.values())),
        ("own_config", {}, '[tool.pytest-language-server]\nexclude = ["legacy/**"]\n', {"fx_root", "fx_tc", "fx_a"}),
        ("own_config_and_ancestor_config", {"pyproject.toml": '[tool.pytest-language-server]\nexclude = ["tests/**"]\n'},
         '[tool.pytest-language-server]\nexclude = ["legacy/**"]\n', {"fx_root", "fx_tc", "fx_a"}),
    ]

    def session(job):
        n, (name, anc_files, own_cfg, want) = job
        top = os.path.join(base, "bin%d" % n, "outer", "parent")
        ws = os.path.join(top, "ws")
        for rel, fx in tree.items():
            os.makedirs(os.path.dirname(os.path.join(ws, rel)), exist_ok=True)
            with open(os.path.join(ws, rel), "w") as fh:
                fh.write("import pytest\n\n\n@pytest.fixture\ndef %s():\n    return 1\n\n\ndef test_%s(%s):\n    pass\n" % (fx, fx, fx))
        for rel, text in anc_files.items():
            pth = os.path.normpath(os.path.join(top, rel))
            os.makedirs(os.path.dirname(pth), exist_ok=True)
            with open(pth, "w") as fh:
                fh.write(text)
        if own_cfg is not None:
            with open(os.path.join(ws, "pyproject.toml"), "w") as fh:
                fh.write(own_cfg)
        srv = lsp.Server(timeout=30)
        try:
            srv.initialize(ws)
            syms = srv.request("workspace/symbol", {"query": "fx_"}) or []
            return sorted({x["name"] for x in syms})
        except (lsp.ServerDied, lsp.Timeout) as e:
            return {"error": str(e)}
        finally:
            srv.close()

    jobs = list(enumerate(variants))
    for (n, (name, anc_files, own_cfg, want)), r in zip(jobs, lsp.run_parallel(jobs, session, workers=6)):
        V.count()
        V.nontriv("binary:" + name)
        ex = {"location": name, "files_above_the_workspace": sorted(anc_files), "workspace_pyproject": own_cfg, "indexed": r, "expected": sorted(want)}
        if r is None or isinstance(r, dict):
            V.violation(ex, "server died or did not answer after scanning the workspace")
        elif set(r) != want:
            V.violation(ex, "the set of indexed files depends on what lies ABOVE the workspace root (or the workspace's own exclude patterns are not applied)")
    return len(jobs)


# ------------------------------------------------------------------------------------------- C14
import render as R  # noqa: E402


def imp_universe(root):
    # pkg/http.py: a module whose name equals a standard-library module; `from .http import *` in pkg/__init__.py is a
    # RELATIVE import and must be followed like any other
    return R.Universe({"c": root + "/R/conftest.py", "cs": root + "/R/sub/conftest.py", "u": root + "/R/sub/test_u.py",
                       "ti": root + "/R/test_imp.py", "m1": root + "/R/mod1.py", "m2": root + "/R/mod2.py",
                       "pk": root + "/R/pkg/__init__.py", "m3": root + "/R/pkg/http.py",
                       "ri": root + "/R/__init__.py", "si": root + "/R/sub/__init__.py"})


def defid(d):
    return None if d is None or d.get("file") == "NOFILE" else (d["file"], d["idx"])


def c08_field_orders(V, tier):
    """C08 at FIELD level: what the index records for a definition (return type, docstring, scope, dependencies, autouse, yield
    line, flags) must not depend on the registration order either.  Override chains over three conftest levels and the test
    module, where an override leaves out what its parent spells (annotation, docstring, scope); every permutation of the files,
    each twice (fresh hash seeds); the full snapshot of definitions and usages is compared after sorting."""
    import itertools
    C.build_harness()
    PARENT = {"full": '@pytest.fixture(scope="session")\ndef engine() -> Engine:\n    """Parent engine."""\n    return Engine()\n',
              "bare": "@pytest.fixture\ndef engine():\n    return 1\n"}
    CHILD = {"plain": "@pytest.fixture\ndef engine(engine):\n    return engine\n",
             "annotated": "@pytest.fixture\ndef engine(engine) -> Wrapped:\n    return engine\n",
             "doc_only": '@pytest.fixture\ndef engine(engine):\n    """Child engine."""\n    return engine\n',
             "yielding": "@pytest.fixture\ndef engine(engine):\n    yield engine\n",
             "other_dep": "@pytest.fixture\ndef engine(engine, pool):\n    return engine\n"}
    HEAD = "import pytest\n\n\n"
    USE = "\n\ndef test_e(engine):\n    pass\n"
    root = "/vws08f/R"
    hcases, ctx = [], {}
    combos = [(pk, c1, c2) for pk in sorted(PARENT) for c1 in sorted(CHILD) for c2 in [None] + sorted(CHILD)]
    if tier == "quick":
        combos = combos[::2]
    n = 0
    for pk, c1, c2 in combos:
        files = {root + "/conftest.py": HEAD + PARENT[pk] + "\n\n@pytest.fixture\ndef pool():\n    return 2\n",
                 root + "/a/conftest.py": HEAD + CHILD[c1],
                 root + "/a/test_a.py": (HEAD + CHILD[c2] + USE) if c2 else USE.lstrip("\n"),
                 root + "/a/b/test_b.py": USE.lstrip("\n")}
        for perm in itertools.permutations(sorted(files)):
            for rep in range(2):
                ops = [{"op": "analyze", "path": p, "text": files[p]} for p in perm] + [{"op": "snapshot", "full": True}]
                hcases.append({"id": n, "ops": ops})
                ctx[n] = ((pk, c1, c2), perm, files)
                n += 1
    groups = {}
    for res in C.run_harness(hcases, threads=8):
        key, perm, files = ctx[res["id"]]
        snap = res["res"][-1]
        if not isinstance(snap, dict):
            V.violation({"workspace": list(key), "order": list(perm), "result": str(snap)[:300]}, "analysis panicked on an override chain")
            continue
        norm = {"defs": sorted(json.dumps(d, sort_keys=True) for lst in snap["defs"].values() for d in lst),
                "usages": {f: sorted(json.dumps(u, sort_keys=True) for u in us) for f, us in snap["usages"].items()}}
        groups.setdefault(key, []).append((perm, norm, files))
    for key, runs in groups.items():
        V.count(len(runs))
        V.nontriv(("field_orders",) + tuple(map(str, key)))
        p0, n0, files = runs[0]
        for perm, nm, _ in runs[1:]:
            if nm != n0:
                diff = sorted(set(nm["defs"]) ^ set(n0["defs"]))
                V.violation({"parent": key[0], "override_in_a_conftest": key[1], "override_in_test_module": key[2], "files": files,
                             "one_order": list(p0), "another_order": list(perm), "records_that_differ": diff[:6]},
                            "what the index records for a definition (or the usages) depends on the registration order of the files")
                break
    return n


NRUN = 6


def c08_own_imports(V, tier):
    """C08 on the import universe (Imports.tla): the workspaces whose using file is a TEST MODULE that imports fixtures itself,
    next to an unrelated conftest.py in a sibling directory that defines every name too.  Files are on disk (imports are
    resolved with Path::exists) and analysed through analyze_file in two registration orders -- the sibling first / the
    sibling last; navigation from every parameter and the per-file view must not depend on the order.  (What the answer
    SHOULD be is C14's subject; here only order independence is judged.)"""
    meta = C.run_tlc("Imports", "Imports.cfg", workers=12, timeout=3600)
    if not meta["ok"]:
        raise C.ToolError("TLC on Imports failed: %s" % meta["errors"])
    C.build_harness()
    base = os.path.join(C.BUILD, "ws", "c08imp-%d" % os.getpid())
    shutil.rmtree(base, ignore_errors=True)
    cases = [c for c in C.tlc_cases(meta) if c["using"] == "ti"]
    names = ["fa", "fb", "fc", "fp", "fz", "fr"]
    sib_text = "import pytest\n\n\n" + "".join("@pytest.fixture\ndef %s():\n    return 0\n\n\n" % nm for nm in names)
    hcases, ctx = [], {}
    for n, c in enumerate(cases):
        root = os.path.join(base, "i%d" % n)
        uni = imp_universe(root)
        files = {s: R.render_checked(uni, s, m) for s, m in c["ws"].items()}
        for s, r in files.items():
            os.makedirs(os.path.dirname(uni.paths[s]), exist_ok=True)
            with open(uni.paths[s], "w") as fh:
                fh.write(r.text)
        sib = os.path.join(root, "R", "other", "conftest.py")
        os.makedirs(os.path.dirname(sib), exist_ok=True)
        with open(sib, "w") as fh:
            fh.write(sib_text)
        order = sorted(files)
        it_idx = len(c["ws"]["ti"]["items"])
        queries = []
        for j in range(1, 7):
            ln, cs, ce = files["ti"].use_pos[(it_idx, "p", j)]
            queries.append({"op": "goto", "path": uni.paths["ti"], "line": ln - 1, "col": cs})
        queries.append({"op": "available", "path": uni.paths["ti"]})
        # a sibling TEST module in the importing module's directory requests the same names without importing them; the
        # references of every definition are part of the snapshot
        tsib = os.path.join(root, "R", "test_sibling.py")
        tsib_text = "def test_sibling(%s):\n    pass\n" % ", ".join(names)
        with open(tsib, "w") as fh:
            fh.write(tsib_text)
        col = len("def test_sibling(")
        for nm in names:
            queries.append({"op": "goto", "path": tsib, "line": 0, "col": col})
            col += len(nm) + 2
        for s, m in c["ws"].items():
            for i2, it in enumerate(m["items"]):
                if it["k"] == "def":
                    queries.append({"op": "refs", "path": uni.paths[s], "line1": files[s].item_line[i2 + 1], "name": it["name"]})
        # the CLI's unused list is part of the snapshot; every second workspace also has a conftest.py ABOVE the workspace that
        # defines every name (the sibling module then takes a name from there that the importing module takes from its import)
        queries.append({"op": "unused"})
        above = os.path.join(root, "conftest.py")
        has_above = n % 2 == 1
        if has_above:
            with open(above, "w") as fh:
                fh.write(sib_text)
        # each order three times: a fresh database has fresh hash seeds, so the maps iterate in another order
        for k in range(NRUN):
            first = k % 2 == 0
            seq = [("sib", sib, sib_text), ("tsib", tsib, tsib_text)] if first else []
            seq += [("above", above, sib_text)] if has_above and first else []
            seq += [(s, uni.paths[s], files[s].text) for s in order]
            if not first:
                seq += [("tsib", tsib, tsib_text), ("sib", sib, sib_text)] + ([("above", above, sib_text)] if has_above else [])
            ops = [{"op": "analyze", "path": p, "text": t} for _, p, t in seq] + queries
            hcases.append({"id": NRUN * n + k, "ops": ops})
        ctx[n] = (c, root, len(order) + 2 + (1 if has_above else 0), {s: f.text for s, f in files.items()}, has_above)
    res = {r["id"]: r["res"] for r in C.run_harness(hcases, threads=8)}
    for n, (c, root, nan, texts, has_above) in ctx.items():
        V.count()
        V.nontriv("ownimp" + json.dumps(c["shape"], sort_keys=True))
        for k in range(2, NRUN):
            x, y = res[NRUN * n + k][nan:], res[NRUN * n + k - 2][nan:]

            def norm0(v):
                if isinstance(v, list):
                    return sorted((d.get("name"), os.path.relpath(d.get("file", "?"), root), d.get("line"), d.get("sc")) for d in v)
                if isinstance(v, dict) and "file" in v:
                    return (os.path.relpath(v["file"], root), v.get("line"))
                return v
            if [norm0(v) for v in x] != [norm0(v) for v in y]:
                kk = next(i for i in range(len(x)) if norm0(x[i]) != norm0(y[i]))
                V.violation({"import_shape": c["shape"], "query_number": kk, "conftest_above_the_workspace": has_above,
                             "one_run": norm0(x[kk]), "another_run_same_order": norm0(y[kk]),
                             "files": dict(texts, **{"R/other/conftest.py": sib_text})},
                            "answers for a test module that imports fixtures itself differ between two runs of the SAME registration order "
                            "(fresh databases, fresh hash seeds)")
                break
        a, b = res[NRUN * n][nan:], res[NRUN * n + 1][nan:]

        def norm(x):
            if isinstance(x, list):
                return sorted((d.get("name"), os.path.relpath(d.get("file", "?"), root), d.get("line"), d.get("sc")) for d in x)
            if isinstance(x, dict) and "file" in x:
                return (os.path.relpath(x["file"], root), x.get("line"))
            return x
        na, nb = [norm(x) for x in a], [norm(x) for x in b]
        if na != nb:
            k = next(i for i in range(len(na)) if na[i] != nb[i])
            V.violation({"import_shape": c["shape"], "query_number": k,
                         "sibling_conftest_analysed_first": na[k], "sibling_conftest_analysed_last": nb[k],
                         "files": dict(texts, **{"R/other/conftest.py": sib_text})},
                        "answers for a test module that imports fixtures itself depend on the registration order of an unrelated "
                        "same-named definition")
    shutil.rmtree(base, ignore_errors=True)
    return len(ctx), meta


def c05_linked_conftests(V, tier):
    """C05 where a conftest.py is a SYMBOLIC LINK to a differently named file (one shared conftest linked into test directories).
    Pure agreement, no reference answer on what such a link should provide: for every requested name go-to-definition, the per-file
    view (completion, inlay hints) must denote ONE definition or both denote none."""
    C.build_harness()
    base = os.path.join(C.BUILD, "ws", "c05link-%d" % os.getpid())
    shutil.rmtree(base, ignore_errors=True)
    FX = "import pytest\n\n\n@pytest.fixture\ndef %s():\n    return 1\n"
    hcases, ctx = [], {}
    n = 0
    for link_at in ("tests/unit", "tests"):                       # the test's own directory / its parent
        for target in ("shared/base_conftest.py", "tests/_shared_fixtures.py", "shared/conftest.py"):
            for also_real in (False, True):                      # the linked file's name is ALSO defined by a real conftest above
                for opened in (False, True):                     # the test file re-analysed as a didOpen would
                    root = os.path.join(base, "k%d" % n, "R")
                    os.makedirs(os.path.join(root, "tests", "unit"), exist_ok=True)
                    os.makedirs(os.path.dirname(os.path.join(root, target)), exist_ok=True)
                    with open(os.path.join(root, target), "w") as fh:
                        fh.write(FX % "shared_db")
                    real = os.path.join(root, "conftest.py")
                    with open(real, "w") as fh:
                        fh.write(FX % "plain" + ("\n\n@pytest.fixture\ndef shared_db():\n    return 2\n" if also_real else ""))
                    link = os.path.join(root, link_at, "conftest.py")
                    os.symlink(os.path.relpath(os.path.join(root, target), os.path.dirname(link)), link)
                    tpath = os.path.join(root, "tests", "unit", "test_orders.py")
                    ttext = "def test_orders(plain, shared_db, missing_fx):\n    pass\n"
                    with open(tpath, "w") as fh:
                        fh.write(ttext)
                    ops = [{"op": "scan", "root": root}]
                    if opened:
                        ops.append({"op": "analyze", "path": tpath, "text": ttext})
                    k0 = len(ops)
                    for nm in ("plain", "shared_db", "missing_fx"):
                        ops.append({"op": "goto", "path": tpath, "line": 0, "col": ttext.index(nm) + 1})
                        ops.append({"op": "resolve_for_file", "path": tpath, "name": nm})
                    ops.append({"op": "available", "path": tpath})
                    ctx[n] = ({"link_at": link_at + "/conftest.py", "link_target": target, "name_also_in_root_conftest": also_real,
                               "test_file_opened": opened}, k0, root)
                    hcases.append({"id": n, "ops": ops})
                    n += 1
    for res in C.run_harness(hcases, threads=8):
        lay, k0, root = ctx[res["id"]]
        r = res["res"]
        avail = r[-1] if isinstance(r[-1], list) else None
        for j, nm in enumerate(("plain", "shared_db", "missing_fx")):
            V.count()
            V.nontriv(("linked_conftest", json.dumps(lay, sort_keys=True), nm))
            g, rf = r[k0 + 2 * j], r[k0 + 2 * j + 1]
            ent = [d for d in (avail or []) if d["name"] == nm]
            key = lambda d: None if not isinstance(d, dict) or "name" not in d else (os.path.relpath(d["file"], root), d["line"])
            # resolve_fixture_for_file is not compared here: its fallback to ANY definition of an invisible name is the recorded
            # finding rff_fallback_any, judged on the layout table
            answers = {"go-to-definition": key(g),
                       "per-file view (completion / inlay hints)": key(ent[0]) if ent else None}
            ex = {"layout": lay, "name": nm, "answers": {k: (list(v) if v else None) for k, v in answers.items()}}
            if avail is None or len(ent) > 1 or len(set(answers.values())) > 1:
                V.violation(ex, "below a conftest.py that is a symbolic link the features do not agree on the definition a name denotes")
            if nm == "plain" and answers["go-to-definition"] != ("conftest.py", 5):
                raise C.ToolError("linked-conftest workspace: the control name `plain` does not resolve to the root conftest: %r" % (ex,))
    shutil.rmtree(base, ignore_errors=True)
    return n


def c04_own_imports(V, tier):
    """C04 on the import universe: workspaces whose using file is a TEST MODULE that imports fixtures itself, plus a sibling test
    module in the same directory that requests the same names WITHOUT importing them.  On disk, scanned.  Pure agreement, no
    reference answer: `fixtures unused` (library) lists a project fixture exactly when no usage is among its references, and the
    references of a definition are exactly the usages whose go-to-definition lands on it."""
    meta = C.run_tlc("Imports", "Imports.cfg", workers=12, timeout=3600)
    if not meta["ok"]:
        raise C.ToolError("TLC on Imports failed: %s" % meta["errors"])
    C.build_harness()
    base = os.path.join(C.BUILD, "ws", "c04imp-%d" % os.getpid())
    shutil.rmtree(base, ignore_errors=True)
    cases = [c for c in C.tlc_cases(meta) if c["using"] == "ti"]
    names = ["fa", "fb", "fc", "fp", "fz", "fr"]
    sib_text = "def test_sibling(%s):\n    pass\n" % ", ".join(names)
    hcases, ctx = [], {}
    for n, c in enumerate(cases):
        root = os.path.join(base, "i%d" % n)
        uni = imp_universe(root)
        files = {s: R.render_checked(uni, s, m) for s, m in c["ws"].items()}
        for s, r in files.items():
            os.makedirs(os.path.dirname(uni.paths[s]), exist_ok=True)
            with open(uni.paths[s], "w") as fh:
                fh.write(r.text)
        sib = os.path.join(root, "R", "test_sibling.py")
        with open(sib, "w") as fh:
            fh.write(sib_text)
        ops = [{"op": "scan", "root": root + "/R"}, {"op": "unused"}]
        defs = []
        for s, m in c["ws"].items():
            for i, it in enumerate(m["items"]):
                if it["k"] == "def":
                    defs.append((s, i + 1, it["name"]))
                    ops.append({"op": "refs", "path": uni.paths[s], "line1": files[s].item_line[i + 1], "name": it["name"]})
        # go-to-definition from every parameter of the importing module's test and of the sibling's
        it_idx = len(c["ws"]["ti"]["items"])
        gotos = []
        for j in range(1, 7):
            ln, cs, ce = files["ti"].use_pos[(it_idx, "p", j)]
            gotos.append((uni.paths["ti"], ln, cs))
        col = len("def test_sibling(")
        for nm in names:
            gotos.append((sib, 1, col))
            col += len(nm) + 2
        for p, ln, cs in gotos:
            ops.append({"op": "goto", "path": p, "line": ln - 1, "col": cs})
        ctx[n] = (c, root, uni, files, defs, gotos)
        hcases.append({"id": n, "ops": ops})
    for res in C.run_harness(hcases, threads=8):
        c, root, uni, files, defs, gotos = ctx[res["id"]]
        r = res["res"]
        V.count()
        V.nontriv("ownimp04" + json.dumps(c["shape"], sort_keys=True))
        unused = {(os.path.relpath(x["file"], root), x["name"]) for x in r[1]} if isinstance(r[1], list) else None
        refs = {}
        for k, (s, idx, nm) in enumerate(defs):
            a = r[2 + k]
            if isinstance(a, dict) and a.get("nodef"):
                continue            # the module was not discovered by the scan (nobody imports it): no such definition in the index
            refs[(s, idx, nm)] = {(os.path.relpath(u["file"], root), u["line"], u["sc"]) for u in a} if isinstance(a, list) else None
        nav = {}
        for k, (p, ln, cs) in enumerate(gotos):
            a = r[2 + len(defs) + k]
            if isinstance(a, dict) and "file" in a:
                nav.setdefault((os.path.relpath(a["file"], root), a["line"]), set()).add((os.path.relpath(p, root), ln, cs))
        ex = {"import_shape": c["shape"], "files": dict({os.path.relpath(uni.paths[s2], root): f.text for s2, f in files.items()},
                                                         **{"R/test_sibling.py": sib_text})}
        if unused is None or any(v is None for v in refs.values()):
            V.violation(dict(ex, result=str(r)[:400]), "a query panicked on a workspace whose test module imports fixtures itself")
            continue
        for (s, idx, nm), rs in refs.items():
            rel = os.path.relpath(uni.paths[s], root)
            want_refs = nav.get((rel, files[s].item_line[idx]), set())
            test_refs = {x for x in rs if x[0] in ("R/test_imp.py", "R/test_sibling.py")}
            if test_refs != want_refs:
                V.violation(dict(ex, definition=[rel, nm], references_from_the_two_test_modules=sorted(test_refs),
                                 usages_navigating_to_it=sorted(want_refs)),
                            "references of a definition are not the usages whose go-to-definition lands on it (test module importing fixtures itself)")
                break
            entry_refs = set().union(*[v for (s2, _, n2), v in refs.items() if s2 == s and n2 == nm])
            listed = (rel, nm) in unused
            if listed != (not entry_refs):
                V.violation(dict(ex, definition=[rel, nm], listed_as_unused=listed, references=sorted(entry_refs)),
                            "`fixtures unused` (library) disagrees with the reference lists (test module importing fixtures itself)")
                break
    shutil.rmtree(base, ignore_errors=True)
    return len(ctx)


def check_c14(tier):
    V = C.Verdict("C14", tier, "model_checking")
    meta = C.run_tlc("Imports", "Imports.cfg", workers=12, timeout=3600)
    if not meta["ok"]:
        raise C.ToolError("TLC on Imports failed: %s" % meta["errors"])
    metav = C.run_tlc("Plugins", "Plugins.cfg", workers=4, timeout=3600)
    if not metav["ok"]:
        raise C.ToolError("TLC on Plugins failed: %s" % metav["errors"])
    C.build_harness()
    base = os.path.join(C.BUILD, "ws", "c14-%d" % os.getpid())
    shutil.rmtree(base, ignore_errors=True)
    cases = list(C.tlc_cases(meta))
    hcases, ctx = [], {}
    for n, c in enumerate(cases):
        root = os.path.join(base, "i%d" % n)
        uni = imp_universe(root)
        files = {s: R.render_checked(uni, s, m) for s, m in c["ws"].items()}
        for s, r in files.items():
            os.makedirs(os.path.dirname(uni.paths[s]), exist_ok=True)
            with open(uni.paths[s], "w") as fh:
                fh.write(r.text)
        using = c["using"]
        ops = [{"op": "scan", "root": root + "/R"}]
        it_idx = len(c["ws"][using]["items"])
        for j in range(1, 7):
            ln, cs, ce = files[using].use_pos[(it_idx, "p", j)]
            ops.append({"op": "goto", "path": uni.paths[using], "line": ln - 1, "col": cs})
        ops.append({"op": "available", "path": uni.paths[using]})
        ops.append({"op": "snapshot", "full": True})
        ctx[n] = (c, uni, files)
        hcases.append({"id": n, "ops": ops})
    results = list(C.run_harness(hcases, threads=8))
    order = ["fa", "fb", "fc", "fp", "fz", "fr"]
    for res in results:
        c, uni, files = ctx[res["id"]]
        rows = {r["name"]: r for r in c["rows"]}
        r = res["res"]
        snap = r[8]
        texts = {uni.paths[s][len(os.path.dirname(uni.paths["c"])) - 1:]: f.text for s, f in files.items()}

        def dec(d):
            if d is None:
                return None
            if "panic" in d:
                return ("PANIC", d["panic"])
            slot = uni.slot_of_path.get(d["file"])
            return (slot, files[slot].line_item.get(d["line"], -d["line"])) if slot else ("?", d["file"])

        # which modules did the scan discover?
        analysed = {uni.slot_of_path.get(p) for p in snap["cached"]} if isinstance(snap, dict) else set()
        want_disc = set(c["discovered"])
        V.count()
        if isinstance(snap, dict) and not want_disc <= analysed:
            V.violation({"shape": c["shape"], "missing": sorted(want_disc - analysed), "files": texts},
                        "a module reachable through imports was not discovered by the workspace scan")
        avail = {d["name"]: dec(d) for d in r[7]} if isinstance(r[7], list) else {}
        for j, nm in enumerate(order):
            row = rows[nm]
            V.count()
            py = {defid(x) and tuple(defid(x)) for x in row["py"]}
            impl = defid(row["impl"]) and tuple(defid(row["impl"]))
            actual = dec(r[1 + j])
            if len(py - {None}) > 0 or impl:
                V.nontriv((json.dumps(c["shape"], sort_keys=True), nm))
            ex = {"shape": c["shape"], "using": c["using"], "name": nm, "expected_any_of": sorted(map(str, py)),
                  "actual": str(actual), "model_predicts": str(impl), "blame": row["blame"], "files": texts}
            if actual not in py:
                if actual == impl:
                    V.classify(row["blame"], ex, "an imported fixture is not available / not resolved to its defining module where the importing file provides it")
                else:
                    V.drift += 1
                    V.violation(ex, "resolution of an imported fixture differs from the reference and from the model")
            # the completion view must agree on availability (C14 'available exactly where ...')
            a = avail.get(nm)
            if (a is not None) != (None not in py) and actual in py:
                V.classify(sorted(set(row["blame"]) | {"test_module_imports_ignored"}) if c["using"] == "ti" else row["blame"],
                           dict(ex, view_entry=str(a)), "the available-fixtures view disagrees on whether an imported fixture is available")
    # ---- part B: installed plugins (venv layouts)
    vcases = list(C.tlc_cases(metav))
    hcases, vctx = [], {}
    for n, c in enumerate(vcases):
        root = os.path.join(base, "v%d" % n)
        ws = os.path.join(root, "proj")
        sp = os.path.join(ws, ".venv", "lib", "python3.11", "site-packages")
        os.makedirs(sp, exist_ok=True)
        os.makedirs(os.path.join(ws, "tests"), exist_ok=True)
        with open(os.path.join(ws, "tests", "test_x.py"), "w") as fh:
            fh.write("def test_x(plug_fx, sub_fx, builtin_fx, imp_fx, ext_fx):\n    pass\n")
        plug_src = "import pytest\n\n\n@pytest.fixture\ndef plug_fx():\n    return 1\n"
        sub_src = "import pytest\n\n\n@pytest.fixture\ndef sub_fx():\n    return 1\n"
        if c["builtin"]:
            os.makedirs(os.path.join(sp, "_pytest"), exist_ok=True)
            with open(os.path.join(sp, "_pytest", "fixtures_b.py"), "w") as fh:
                fh.write("import pytest\n\n\n@pytest.fixture\ndef builtin_fx():\n    return 1\n")
        pkgname = c["pkg"]                      # distribution name as written in dist-info
        norm = pkgname.replace("-", "_").replace(".", "_")
        meta_dir = os.path.join(sp, "%s-1.0.%s" % (pkgname, "dist-info" if c["meta"] == "dist-info" else "egg-info"))
        os.makedirs(meta_dir, exist_ok=True)
        with open(os.path.join(meta_dir, "entry_points.txt"), "w") as fh:
            fh.write("[console_scripts]\nfoo = x:y\n\n[pytest11]\n%s = %s\n" % (norm, "plugmod" if c["target"] != "package" else "plugpkg"))
        if c["install"] == "regular":
            src_root = sp
        elif c["install"] == "editable_in":
            src_root = os.path.join(ws, "plugsrc")
        elif c["install"] == "editable_sibling":
            src_root = os.path.join(root, "proj-plugins")
        else:
            src_root = os.path.join(root, "elsewhere", "plugsrc")
        os.makedirs(src_root, exist_ok=True)
        if c["install"] != "regular":
            with open(os.path.join(meta_dir, "direct_url.json"), "w") as fh:
                json.dump({"url": "file://" + src_root, "dir_info": {"editable": True}}, fh)
            stem = {"editable": "__editable__.%s-1.0" % norm, "under": "_%s" % norm, "plain": norm,
                    "rawdash": "__editable__.%s-1.0" % pkgname}[c["pth"]]
            with open(os.path.join(sp, stem + ".pth"), "w") as fh:
                fh.write("# comment\nimport nothing\n%s\n" % src_root)
        onward = ""
        if c["target"] != "missing":
            onward = {"none": "", "star_rel": "from .plugfx import *\n", "star_abs": "from plugfx import *\n",
                      "plugins": 'pytest_plugins = ["plugfx"]\n'}[c.get("onward", "none")]
            if onward:
                with open(os.path.join(src_root, "plugfx.py"), "w") as fh:
                    fh.write("import pytest\n\n\n@pytest.fixture\ndef imp_fx():\n    return 1\n")
        if c["target"] == "module":
            with open(os.path.join(src_root, "plugmod.py"), "w") as fh:
                fh.write(plug_src + ("\n\n" + onward if onward else ""))
        elif c["target"] == "package":
            os.makedirs(os.path.join(src_root, "plugpkg"), exist_ok=True)
            with open(os.path.join(src_root, "plugpkg", "__init__.py"), "w") as fh:
                # with an onward edge the package's __init__ only re-exports: no fixture of its own
                fh.write(onward if onward else plug_src)
            if onward:
                with open(os.path.join(src_root, "plugpkg", "core.py"), "w") as fh:
                    fh.write(plug_src)
            with open(os.path.join(src_root, "plugpkg", "sub.py"), "w") as fh:
                fh.write(sub_src)
        if c.get("confplug"):
            os.makedirs(os.path.join(src_root, "extfx"), exist_ok=True)
            open(os.path.join(src_root, "extfx", "__init__.py"), "w").close()
            with open(os.path.join(src_root, "extfx", "db.py"), "w") as fh:
                fh.write("import pytest\n\n\n@pytest.fixture\ndef ext_fx():\n    return 1\n")
            with open(os.path.join(ws, "conftest.py"), "w") as fh:
                fh.write('pytest_plugins = ["extfx.db"]\n')
        ops = [{"op": "scan", "root": ws}, {"op": "snapshot", "full": True}, {"op": "unused"},
               {"op": "goto", "path": os.path.join(ws, "tests", "test_x.py"), "line": 0, "col": 11},
               {"op": "goto", "path": os.path.join(ws, "tests", "test_x.py"), "line": 0, "col": 20},
               {"op": "goto", "path": os.path.join(ws, "tests", "test_x.py"), "line": 0, "col": 28},
               {"op": "goto", "path": os.path.join(ws, "tests", "test_x.py"), "line": 0, "col": 40},
               {"op": "goto", "path": os.path.join(ws, "tests", "test_x.py"), "line": 0, "col": 48}]
        vctx[n] = c
        hcases.append({"id": n, "ops": ops})
    for res in C.run_harness(hcases, threads=8):
        c = vctx[res["id"]]
        snap, unused = res["res"][1], res["res"][2]
        V.count()
        V.nontriv(json.dumps({k: v for k, v in c.items() if k != "expect"}, sort_keys=True))
        got = {}
        if isinstance(snap, dict):
            for name, lst in snap["defs"].items():
                for d in lst:
                    got[name] = "third" if d["third"] else ("plugin" if d["plugin"] else "project")
        want = {k: v for k, v in c["expect"].items() if v != "absent"}
        ex = {"layout": {k: v for k, v in c.items() if k != "expect"}, "classification": got, "expected": want}
        if got != want:
            V.violation(ex, "installed plugin fixtures are not found / not classified as the layout demands")
        listed = {x["name"] for x in unused} if isinstance(unused, list) else set()
        if any(want.get(nm) == "third" for nm in listed):
            V.violation(dict(ex, unused=sorted(listed)), "a third-party fixture is listed by `fixtures unused`")
        for j, nm in enumerate(["plug_fx", "sub_fx", "builtin_fx", "imp_fx", "ext_fx"]):
            g = res["res"][3 + j]
            if (g is not None and "name" in g) != (nm in want):
                V.violation(dict(ex, name=nm, goto=g), "a usage of an installed plugin fixture does not resolve exactly when the plugin provides it")
    # ---- part B through the real binary: "never listed as project symbols".  The project now also OVERRIDES the plugin's
    # fixture name in tests/conftest.py; workspace/symbol must list the project's definition and no installed plugin's
    import lsp
    C.build_server()
    pick = [n for n, c in enumerate(vcases) if c["target"] != "missing"]
    pick = pick[:: max(1, len(pick) // (40 if tier == "quick" else 400))]

    def sym_session(n):
        c = vcases[n]
        root = os.path.join(base, "v%d" % n)
        ws = os.path.join(root, "proj")
        with open(os.path.join(ws, "tests", "conftest.py"), "w") as fh:
            fh.write("import pytest\n\n\n@pytest.fixture\ndef plug_fx():\n    return \"project override\"\n")
        srv = lsp.Server(timeout=30)
        try:
            srv.initialize(ws)
            syms = srv.request("workspace/symbol", {"query": ""}) or []
            syms2 = srv.request("workspace/symbol", {"query": "plug"}) or []
            return {"all": [(x["name"], os.path.relpath(lsp.uri_to_path(x["location"]["uri"]), root)) for x in syms],
                    "plug": [(x["name"], os.path.relpath(lsp.uri_to_path(x["location"]["uri"]), root)) for x in syms2]}
        except (lsp.ServerDied, lsp.Timeout) as e:
            return {"error": str(e)}
        finally:
            srv.close()

    for n, r in zip(pick, lsp.run_parallel(pick, sym_session, workers=6)):
        c = vcases[n]
        V.count()
        V.nontriv("symbols" + json.dumps({k: v for k, v in c.items() if k != "expect"}, sort_keys=True))
        if r is None or "__exception__" in r:
            raise C.ToolError("LSP session failed: %r" % (r,))
        ex = {"layout": {k: v for k, v in c.items() if k != "expect"}, "symbols": r}
        if "error" in r:
            V.violation(ex, "server died or stopped answering workspace/symbol on a venv layout")
            continue
        third_roots = ("proj/.venv/", "elsewhere/", "proj-plugins/")
        for key in ("all", "plug"):
            listed_third = [x for x in r[key] if x[1].startswith(third_roots)]
            if listed_third:
                V.violation(dict(ex, third_party_listed=listed_third), "workspace/symbol lists a fixture of an installed (third-party) plugin as a project symbol")
            if ("plug_fx", "proj/tests/conftest.py") not in r[key]:
                V.violation(ex, "workspace/symbol does not list the project's own fixture that overrides an installed plugin's name")
    shutil.rmtree(base, ignore_errors=True)
    V.sample({"shape": cases[0]["shape"]})
    V.sample({"venv_layout": {k: v for k, v in vcases[0].items()}})
    cov = {"states": meta["distinct"] + metav["distinct"], "transitions": meta["transitions"] + metav["transitions"],
           "traces_validated_against_impl": len(cases) + len(vcases), "exhaustive": True,
           "tlc": [{"module": "Imports", "wall_s": meta["wall_s"]}, {"module": "Plugins", "wall_s": metav["wall_s"]}]}
    return V.finish(
        coverage_extra=cov,
        rule="A: importer in {conftest.py, sub/conftest.py, test module} x first edge {star, explicit, aliased, pytest_plugins "
             "(last assignment wins)} x spelling {relative level 1/2, absolute} x target {module, package __init__, module in "
             "package} x onward chains {none, star, self import, 2-cycle, explicit re-export, pytest_plugins, two star imports}, "
             "materialised on disk and scanned; every name is resolved from the using file and compared with PyProvides; the "
             "scan must have discovered the import closure. B: venv layouts {dist-info, egg-info} x entry target {module, "
             "package with submodule, missing} x {regular, editable inside / outside the workspace} x .pth naming x _pytest "
             "built-ins; classification third-party / workspace plugin and resolution from a test",
        assumptions=["absolute imports are judged only where the target sits next to the importer (rootdir-insertion semantics)",
                     "'never listed as project symbols' is judged on workspace/symbol of the real binary (sampled venv layouts, with the project overriding the plugin's name)"])
