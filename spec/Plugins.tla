------------------------------- MODULE Plugins -------------------------------
(***************************************************************************)
(* C14 part B: fixtures of installed plugins (pytest11 entry points in     *)
(* dist-info / egg-info metadata, pytest's own _pytest package, editable   *)
(* installs found through direct_url.json + .pth files) are found and      *)
(* classified by where their SOURCE lives:                                 *)
(*    site-packages                     -> third-party                    *)
(*    editable, source outside the workspace -> third-party               *)
(*    editable, source inside the workspace  -> workspace plugin          *)
(* (scanner.rs:447-1048, mod.rs:256-277).  One TLC state per layout.       *)
(***************************************************************************)
EXTENDS Naturals, Sequences, TLC, Json

VARIABLES meta, target, install, pth, builtin, pkg, onward, confplug
vars == <<meta, target, install, pth, builtin, pkg, onward, confplug>>

Init == /\ meta \in {"dist-info", "egg-info"}
        /\ target \in {"module", "package", "missing"}
        /\ install \in {"regular", "editable_in", "editable_out", "editable_sibling"}   \* sibling: <base>/proj-plugins next to workspace <base>/proj
        /\ pth \in {"editable", "under", "plain", "rawdash"}
        /\ builtin \in BOOLEAN
        /\ pkg \in {"myplug", "my-plug", "my.plug"}
        /\ (install = "regular" => pth = "editable")         \* .pth naming only matters for editable installs
        /\ (pth = "rawdash" => pkg = "my-plug")
        \* direct_url.json lives in dist-info only (scanner.rs:793): editable egg-info installs are not a layout pip produces
        /\ (install # "regular" => meta = "dist-info")
        \* what the entry MODULE pulls in from a sibling module that only it refers to (phase 4 of the scan must start
        \* its import walk from installed plugin entry modules too): nothing, `from .plugfx import *`, `from plugfx import *`,
        \* `pytest_plugins = ["plugfx"]`.  A package target is scanned as a directory; there the onward edge leaves the
        \* package: its __init__.py defines NO fixture of its own (plug_fx lives in plugpkg/core.py) and only re-exports the
        \* top-level module plugfx next to the package (absolute star import or pytest_plugins).
        /\ onward \in {"none", "star_rel", "star_abs", "plugins"}
        /\ (target = "missing" => onward = "none")
        /\ (target = "package" => onward # "star_rel")
        \* the workspace's own conftest.py names a module of the editable install in `pytest_plugins` ("extfx.db": the import
        \* package is called otherwise than the distribution); resolved through the install's source root OUTSIDE the workspace
        /\ confplug \in BOOLEAN
        /\ (confplug => install \in {"editable_out", "editable_sibling"})
Next == UNCHANGED vars
Spec == Init /\ [][Next]_vars

ClassOf == CASE install = "regular" -> "third"
             [] install = "editable_out" -> "third"
             [] install = "editable_sibling" -> "third"
             [] install = "editable_in" -> "plugin"

Expect == [plug_fx |-> IF target = "missing" THEN "absent" ELSE ClassOf,
           sub_fx |-> IF target = "package" THEN ClassOf ELSE "absent",
           builtin_fx |-> IF builtin THEN "third" ELSE "absent",
           imp_fx |-> IF target # "missing" /\ onward # "none" THEN ClassOf ELSE "absent",
           ext_fx |-> IF confplug THEN "third" ELSE "absent"]

\* third-party fixtures are never project fixtures
ThirdNeverProject == \A n \in DOMAIN Expect : Expect[n] # "project"
EmitCase == PrintT("CASE " \o ToJson([meta |-> meta, target |-> target, install |-> install, pth |-> pth,
                                     builtin |-> builtin, pkg |-> pkg, onward |-> onward, confplug |-> confplug, expect |-> Expect]))
=============================================================================
