"""C09 / C10 / C12: interleavings at DashMap-operation grain.  spec/Conc.tla refines the atomic
AnalyzeFn of Index.tla; TLC checks serializability over ALL interleavings, placements and scenarios,
and its simulated behaviours (thread-id sequences) are replayed on REAL threads through the
instrumented DashMap's cooperative scheduler (harness/vendor/dashmap/src/verif.rs)."""
import json
import os
import re
import random
import subprocess

import common as C
import render as R

UNI = R.Universe({"fa": "/vws/D/test_fa.py", "fb": "/vws/D/test_fb.py"})
YIELD = ["definitions", "file_definitions", "usages", "usage_by_fixture"]


CONC_WATCHDOG = int(os.environ.get("VERIF_CONC_WATCHDOG", "240"))


def set_watchdog(tier):
    global CONC_WATCHDOG
    if "VERIF_CONC_WATCHDOG" not in os.environ:
        CONC_WATCHDOG = 240 if tier == "quick" else 2400


def run_conc(cases, procs=8):
    os.makedirs(os.path.join(C.BUILD, "tmp"), exist_ok=True)
    chunks = [cases[i::procs] for i in range(procs)]
    ps = []
    for i, ch in enumerate(chunks):
        if not ch:
            continue
        path = os.path.join(C.BUILD, "tmp", "conc-%d-%d.ndjson" % (os.getpid(), i))
        with open(path, "w") as fh:
            for c in ch:
                fh.write(json.dumps(c) + "\n")
        p = subprocess.Popen(["timeout", str(CONC_WATCHDOG), C.HARNESS_BIN, "conc", path], env=C.scrubbed_env(),
                             stdout=subprocess.PIPE, stderr=subprocess.PIPE)
        ps.append((p, path, len(ch)))
    out = {}
    for p, path, n in ps:
        so, se = p.communicate()
        lines = so.decode().splitlines()
        cases_in = [json.loads(l) for l in open(path)]
        os.unlink(path)
        for l in lines:
            try:
                r = json.loads(l)
            except ValueError:
                continue
            out[r["id"]] = r
        if p.returncode == 124:
            out["__hang__"] = {"what": "an execution did not finish within the %d s watchdog" % CONC_WATCHDOG,
                               "case": cases_in[min(len(lines), len(cases_in) - 1)]}
        elif p.returncode != 0:
            # the code under test took the harness process down (stack overflow / abort): that is data.
            culprit = cases_in[min(len(lines), len(cases_in) - 1)]
            out["__crash__"] = {"what": "harness process died with status %s: %s" % (p.returncode, se.decode()[-400:]),
                                "case": culprit}
            rest = [c for c in cases_in[len(lines) + 1:]]
            if rest:
                sub = run_conc(rest, procs=1)
                for k, v in sub.items():
                    out.setdefault(k, v)
        elif len(lines) != n:
            raise C.ToolError("conc harness returned %d results for %d cases" % (len(lines), n))
    return out


def simulate(cfg, num, depth=120):
    seed = C.seed() or 1
    meta = C.run_tlc("Conc", cfg, workers=1, timeout=1800, simulate="num=%d" % num,
                     extra_args=("-depth", str(depth), "-seed", str(seed)))
    if not meta["ok"]:
        raise C.ToolError("TLC simulation Conc/%s failed: %s" % (cfg, meta["errors"]))
    return meta


def text_of(slot, mod):
    return R.render_checked(UNI, slot, mod).text


def bag(x):
    return sorted(json.dumps(v, sort_keys=True) for v in x)


def proj_real(snap, rendered):
    """real snapshot -> the abstract per-key bags of Conc.tla's ProjJ"""
    def did(d):
        slot = UNI.slot_of_path.get(d["file"])
        return [slot, rendered_line(rendered, slot, d["line"])]

    def uid(u):
        slot = UNI.slot_of_path.get(u["file"])
        rs = rendered.get(slot, [])
        for r in rs:
            for key, (ln, cs, ce) in r.use_pos.items():
                if ln == u["line"] and cs == u["sc"] and ce == u["ec"]:
                    return [slot, key[0], key[1], key[2]]
        return [slot, "?", u["line"], u["sc"]]

    return {"defs": {k: bag(did(d) for d in v) for k, v in snap["defs"].items() if v},
            "fdefs": {UNI.slot_of_path.get(k): sorted(v) for k, v in snap["fdefs"].items() if v},
            "usages": {UNI.slot_of_path.get(k): bag(uid(u) for u in v) for k, v in snap["usages"].items() if v},
            "ubf": {k: bag(uid(u) for u in v) for k, v in snap["ubf"].items() if v}}


def rendered_line(rendered, slot, line):
    for r in rendered.get(slot, []):
        if line in r.line_item:
            return r.line_item[line]
    return -line


def proj_model(p):
    return {"defs": {k: bag([d["file"], d["idx"]] for d in (v or [])) for k, v in p["defs"].items() if v},
            "fdefs": {k: sorted(v) for k, v in p["fdefs"].items() if v},
            "usages": {k: bag([u["file"], u["idx"], u["uk"], u["ui"]] for u in (v or [])) for k, v in p["usages"].items() if v},
            "ubf": {k: bag([u["file"], u["idx"], u["uk"], u["ui"]] for u in (v or [])) for k, v in p["ubf"].items() if v}}


def build_case(cid, rep, one_shard, schedule=None, extra_post=None, log=False):
    sc = rep["sc"]
    pre = []
    rendered = {}
    for f in sorted(sc["prev"]):
        m = sc["prev"][f]
        if m["present"]:
            r = R.render_checked(UNI, f, m)
            rendered.setdefault(f, []).append(r)
            pre.append({"op": "analyze", "path": UNI.paths[f], "text": r.text})
    threads = []
    jobs = sc["job"]
    jl = jobs if isinstance(jobs, list) else [jobs[k] for k in sorted(jobs, key=int)]
    for j in jl:
        r = R.render_checked(UNI, j["f"], j["m"])
        rendered.setdefault(j["f"], []).append(r)
        threads.append([{"op": "analyze", "path": UNI.paths[j["f"]], "text": r.text, "fresh": not j["cleanup"]}])
    post = [{"op": "snapshot"}] + (extra_post or [])
    case = {"id": cid, "one_shard": one_shard, "mode": "sched", "yield_maps": YIELD, "pre": pre,
            "threads": threads, "schedule": schedule if schedule is not None else rep["sched"], "post": post,
            "log": log}
    return case, rendered, jl


def sequential_outcomes(reps):
    """for every scenario: the real library's result of each sequential order of the jobs"""
    cases, keys = [], {}
    for rep in reps:
        k = json.dumps(rep["sc"], sort_keys=True)
        if k in keys:
            continue
        keys[k] = []
        n = len(rep["sc"]["job"])
        orders = [[1, 2], [2, 1]] if n == 2 else [[a, b, c] for a in (1, 2, 3) for b in (1, 2, 3) for c in (1, 2, 3) if len({a, b, c}) == 3]
        for o in orders:
            case, rendered, jl = build_case(len(cases), rep, False)
            ops = list(case["pre"])
            for t in o:
                ops += case["threads"][t - 1]
            ops.append({"op": "snapshot"})
            keys[k].append((len(cases), o, rendered))
            cases.append({"id": len(cases), "ops": ops})
    res = list(C.run_harness(cases))
    out = {}
    for k, lst in keys.items():
        out[k] = [(o, proj_real(res[i]["res"][-1], rendered)) for i, o, rendered in lst]
    return out


def exhaustive(cfg):
    meta = C.run_tlc("Conc", cfg, workers=12, timeout=3600)
    if not meta["ok"]:
        raise C.ToolError("TLC on Conc/%s failed: %s" % (cfg, meta["errors"]))
    return meta


def conc_trace_validate(V, runs, tag):
    """B2: the lock-acquisition logs of scheduled real executions are behaviours of Conc.tla (spec/ConcTrace.tla).
    runs: [(scenario, log events)].  A log the specification cannot explain is MODEL DRIFT (reported in the evidence, DESIGN 4
    C09: the verdict stays with the sequential-outcome oracle, so that a harmless change of the locking shape raises no alarm);
    an invariant of Conc.tla violated in a validated state is a violation."""
    import re
    import subprocess
    import time
    os.makedirs(os.path.join(C.BUILD, "tmp"), exist_ok=True)
    path = os.path.join(C.BUILD, "tmp", "conc-trace-%s-%d.ndjson" % (tag, os.getpid()))

    def norm_sc(sc):
        jobs = sc["job"]
        jl = jobs if isinstance(jobs, list) else [jobs[k] for k in sorted(jobs, key=int)]
        return {"prev": sc["prev"], "job": jl}

    def write(rs):
        spans, n = [], 0
        with open(path, "w") as fh:
            for sc, log in rs:
                evs = [dict(ev="reset", t=0, map="-", mode="-", shard=0, **norm_sc(sc))]
                evs += [{"ev": "lock", "t": e["t"], "map": e["map"], "mode": e["mode"], "shard": e["shard"], "prev": {}, "job": []}
                        for e in log if e["ph"] == "acq" and e["t"] in (1, 2)]
                evs.append({"ev": "end", "t": 0, "map": "-", "mode": "-", "shard": 0, "prev": {}, "job": []})
                spans.append((n + 1, n + len(evs)))
                n += len(evs)
                for e in evs:
                    fh.write(json.dumps(e) + "\n")
        return spans, n

    def tlc():
        env = C.scrubbed_env({"TRACE": path, "JAVA_TOOL_OPTIONS": "-Xss512m -Dtlc2.tool.queue.IStateQueue=StateDeque"})
        metadir = path + ".states"
        p = subprocess.run(["timeout", "1800", "tlc", "-workers", "1", "-metadir", metadir, "-cleanup", "-noGenerateSpecTE",
                            "-config", "ConcTrace_c10.cfg" if tag == "c10" else "ConcTrace.cfg", "ConcTrace.tla"], cwd=C.SPEC, env=env,
                           stdout=subprocess.PIPE, stderr=subprocess.STDOUT, text=True)
        subprocess.run(["rm", "-rf", metadir])
        out = p.stdout
        m = re.search(r"longest explained prefix \(lines\)\",\s*(\d+)", out)
        inv = re.search(r"Invariant (\w+) is violated", out)
        st = re.search(r"(\d+) states generated, (\d+) distinct states found", out)
        ok = "Model checking completed. No error has been found" in out and not m and not inv
        return {"ok": ok, "prefix": int(m.group(1)) if m else None, "invariant": inv.group(1) if inv else None,
                "states": int(st.group(2)) if st else 0, "tail": out[-1500:]}

    t0 = time.time()
    total_events = accepted = 0
    drift, rounds = [], 0
    rest = list(runs)
    states = 0
    while rest and rounds < 6:
        rounds += 1
        spans, n = write(rest)
        r = tlc()
        states += r["states"]
        if r["ok"]:
            accepted += len(rest)
            total_events += n
            break
        if r["invariant"]:
            V.violation({"invariant": r["invariant"], "tlc": r["tail"][-600:]},
                        "an invariant of Conc.tla is violated in a state of a validated real execution")
            break
        if r["prefix"] is None:
            raise C.ToolError("TLC trace validation (ConcTrace) failed to run: %s" % r["tail"])
        k = next((i for i, (a, b) in enumerate(spans) if a <= r["prefix"] + 1 <= b), len(spans) - 1)
        accepted += k
        total_events += spans[k][0] - 1
        sc, log = rest[k]
        drift.append({"scenario": norm_sc(sc), "unexplained_event_in_run": r["prefix"] + 2 - spans[k][0],
                      "acquisitions": [[e["t"], e["map"], e["mode"], e["shard"]] for e in log if e["ph"] == "acq" and e["t"] in (1, 2)][:80]})
        rest = rest[k + 1:]
    try:
        os.unlink(path)
    except OSError:
        pass
    V.notes["conc_trace_validation"] = {"executions": len(runs), "accepted": accepted, "events": total_events, "tlc_states": states,
                                        "model_drift_runs": len(drift), "first_drift": drift[:1], "wall_s": round(time.time() - t0, 1)}
    V.drift += len(drift)
    return accepted


def check_c09(tier):
    set_watchdog(tier)
    V = C.Verdict("C09", tier, "model_checking")
    meta = exhaustive("Conc_c09.cfg")
    C.build_harness()
    sim = simulate("Conc_c09_sim.cfg", 1500 if tier == "quick" else 20000)
    reps = list(C.tlc_cases(sim, prefix="REPLAY"))
    seq = sequential_outcomes(reps)
    cases, info = [], {}
    rnd = random.Random(C.seed())
    for n, rep in enumerate(reps):
        for one in (False, True):
            cid = len(cases)
            # after quiescence every file is re-analysed ONCE MORE, sequentially, with the same text: the reverse usage index
            # must again mirror the per-file usages (a cleanup that relies on how concurrent pushes happened to interleave
            # leaves stale entries behind)
            again = []
            for j in (rep["sc"]["job"] if isinstance(rep["sc"]["job"], list) else [rep["sc"]["job"][k] for k in sorted(rep["sc"]["job"], key=int)]):
                again.append({"op": "analyze", "path": UNI.paths[j["f"]], "text": R.render_checked(UNI, j["f"], j["m"]).text})
            again.append({"op": "snapshot", "raw": True})
            case, rendered, jl = build_case(cid, rep, one, log=(n % (3 if tier == "quick" else 1) == 0), extra_post=again)
            info[cid] = (rep, rendered, one, "tlc")
            cases.append(case)
        # one additional seeded random schedule per behaviour (beyond what TLC sampled)
        cid = len(cases)
        rs = [rnd.choice([1, 2]) for _ in range(60)]
        case, rendered, jl = build_case(cid, rep, False, schedule=rs)
        info[cid] = (rep, rendered, False, "random")
        cases.append(case)
    res = run_conc(cases)
    for k in ("__hang__", "__crash__"):
        if k in res:
            V.violation(res.pop(k), "a scheduled concurrent analysis crashed the process or did not terminate")
    exact = 0
    for cid, r in res.items():
        rep, rendered, one, kind = info[cid]
        V.count()
        k = json.dumps(rep["sc"], sort_keys=True)
        jobs = rep["sc"]["job"]
        V.nontriv((k, tuple(r["granted"]), one))
        ex = {"scenario": rep["sc"], "schedule": r["granted"], "one_shard": one,
              "texts": {p: [x.text for x in v] for p, v in rendered.items()}}
        if r["deadlock"] or any(r["panics"]):
            V.violation(dict(ex, panics=r["panics"], hazards=r["hazards"]), "deadlock or panic under a scheduled interleaving")
            continue
        real = proj_real(r["post"][0], rendered)
        outcomes = [p for _, p in seq[k]]
        if len(r["post"]) > 1 and isinstance(r["post"][-1], dict) and "ubf" in r["post"][-1]:
            snap2 = r["post"][-1]
            a = sorted(json.dumps({kk: vv for kk, vv in x.items() if kk != "key_file"}, sort_keys=True)
                       for lst in snap2["ubf"].values() for x in lst)
            b = sorted(json.dumps(x, sort_keys=True) for lst in snap2["usages"].values() for x in lst)
            if a != b:
                V.violation(dict(ex, usages=snap2["usages"], usage_by_fixture=snap2["ubf"]),
                            "after concurrent analyses and one further sequential re-analysis of each file the reverse usage index does not mirror the usages")
                continue
        if real not in outcomes:
            V.violation(dict(ex, result=real, sequential_outcomes=[{"order": o, "result": p} for o, p in seq[k]]),
                        "the index after concurrent analyses equals no sequential execution of them")
            continue
        if kind == "tlc" and not one:
            if r["granted"][:len(rep["sched"])] == rep["sched"]:
                exact += 1
                if proj_model(rep["final"]) != real:
                    V.drift += 1
    if reps:
        V.sample({"scenario": reps[0]["sc"], "sched": reps[0]["sched"]})
    # B2: the lock-acquisition logs of the executions are behaviours of Conc.tla (ConcTrace.tla)
    logged = [(info[cid][0]["sc"], r["log"]) for cid, r in sorted(res.items()) if isinstance(r, dict) and r.get("log")]
    n_acc = conc_trace_validate(V, logged, "c09") if logged else 0
    cov = {"states": meta["distinct"], "transitions": meta["transitions"], "traces_validated_against_impl": len(res),
           "lock_logs_validated_by_tlc": n_acc,
           "schedules_followed_exactly": exact, "tlc_behaviours": len(reps), "exhaustive": True,
           "tlc": {"cfg": "Conc_c09.cfg", "wall_s": meta["wall_s"], "cached": meta.get("cached", False)}}
    return V.finish(
        coverage_extra=cov,
        rule="TLC: all interleavings of two analyses of DIFFERENT files at DashMap-operation grain x key->shard "
             "placements x scenarios (previous versions incl. last-definition removal, cleanup and no-cleanup paths), "
             "invariants Serializable / NoDanglingC / MirrorC; real: TLC-simulated behaviours replayed on two real "
             "threads under the instrumented DashMap's scheduler (natural 2-shard placement and all-keys-in-one-shard) "
             "plus one seeded random schedule each; result compared as per-key bags with both sequential orders on the "
             "real library; distinct by (scenario, granted schedule, placement mode)",
        assumptions=["schedules are thread-id sequences over acquisitions of the four shared maps; other maps are per-file",
                     "instrumented dashmap 6.1.0 is behaviourally upstream plus hooks (harness/vendor/dashmap/VERIF_PATCH.md)"])


def check_c10(tier):
    set_watchdog(tier)
    V = C.Verdict("C10", tier, "model_checking")
    meta = exhaustive("Conc_c10.cfg")
    C.build_harness()
    sim = simulate("Conc_c10_sim.cfg", 1200 if tier == "quick" else 15000)
    reps = list(C.tlc_cases(sim, prefix="REPLAY"))
    menu = []
    for rep in reps:
        for j in (rep["sc"]["job"] if isinstance(rep["sc"]["job"], list) else list(rep["sc"]["job"].values())):
            if j["m"] not in menu:
                menu.append(j["m"])
    # the coarse orders first: scan entirely before / after the notification
    cases, info = [], {}
    for n, rep in enumerate(reps):
        variants = [("tlc", rep["sched"], False), ("tlc1", rep["sched"], True)]
        if n < 400:
            variants += [("scan_first", [1] * 80, False), ("editor_first", [2] * 80, False)]
        for kind, sched, one in variants:
            cid = len(cases)
            # one further change notification (each menu text) must restore the single-analysis state
            extra = []
            for m2 in menu:
                extra.append({"op": "analyze", "path": UNI.paths["fa"], "text": text_of("fa", m2)})
                extra.append({"op": "snapshot"})
            case, rendered, jl = build_case(cid, rep, one, schedule=sched, extra_post=extra,
                                            log=(n % (3 if tier == "quick" else 1) == 0))
            for m2 in menu:
                rendered.setdefault("fa", []).append(R.render_checked(UNI, "fa", m2))
            info[cid] = (rep, rendered, kind, jl)
            cases.append(case)
    # single-analysis references
    ref_cases = [{"id": i, "ops": [{"op": "analyze", "path": UNI.paths["fa"], "text": text_of("fa", m)}, {"op": "snapshot"}]}
                 for i, m in enumerate(menu)]
    refs = {}
    for i, r in enumerate(C.run_harness(ref_cases)):
        refs[json.dumps(menu[i], sort_keys=True)] = proj_real(r["res"][-1], {"fa": [R.render_checked(UNI, "fa", menu[i])]})
    res = run_conc(cases)
    for k in ("__hang__", "__crash__"):
        if k in res:
            V.violation(res.pop(k), "scan/editor interleaving crashed the process or did not terminate")
    for cid, r in res.items():
        rep, rendered, kind, jl = info[cid]
        V.count()
        V.nontriv((json.dumps(rep["sc"], sort_keys=True), tuple(r["granted"])))
        buf = jl[1]["m"]
        ex = {"disk": jl[0]["m"], "buffer": buf, "schedule": r["granted"], "kind": kind,
              "texts": {"disk": text_of("fa", jl[0]["m"]), "buffer": text_of("fa", buf)}}
        if r["deadlock"] or any(r["panics"]):
            V.violation(dict(ex, panics=r["panics"]), "deadlock or panic while scan and editor analyse the same file")
            continue
        real = proj_real(r["post"][0], rendered)
        want = refs[json.dumps(buf, sort_keys=True)]
        # second half: one further change restores the exact single-analysis state
        for i, m2 in enumerate(menu):
            after = proj_real(r["post"][2 + 2 * i], rendered)
            if after != refs[json.dumps(m2, sort_keys=True)]:
                V.violation(dict(ex, further_change=text_of("fa", m2), state=after,
                                 expected=refs[json.dumps(m2, sort_keys=True)]),
                            "one further change notification does not restore the single-analysis state")
                break
        if real == want:
            continue
        # first half violated.  The known finding (scan visit not ordered before the notification) is matched
        # by SHAPE, not by exact state, so that a harmless reordering of map updates cannot raise an alarm:
        #  - when the scan finished BEFORE the notification (coarse order scan_first) the editor must win: any
        #    other state is a violation;
        #  - otherwise the state must consist only of records of the two analyses of F (editor's buffer and
        #    on-disk text), each at most as often as the two analyses together produce it.
        followed = r["granted"][:len(rep["sched"])] == rep["sched"]
        if kind.startswith("tlc") and followed and proj_model(rep["final"]) != real:
            V.drift += 1
        disk_only = refs[json.dumps(jl[0]["m"], sort_keys=True)]

        def within_union(state):
            for sect in ("defs", "usages", "ubf"):
                keys = set(state[sect]) | set(want[sect]) | set(disk_only[sect])
                for k in keys:
                    have = list(state[sect].get(k, []))
                    allowed = list(want[sect].get(k, [])) + list(disk_only[sect].get(k, []))
                    for x in have:
                        if x in allowed:
                            allowed.remove(x)
                        else:
                            return False
            return True

        e2 = dict(ex, state=real, expected=want, blame=["scan_no_cleanup_same_file"])
        if kind == "scan_first":
            V.violation(e2, "the notification arrived after the scan's visit, yet the index does not reflect the editor's content exactly once")
        elif kind == "editor_first" and (real["usages"] != disk_only["usages"] or real["ubf"] != disk_only["ubf"]):
            # the deviation is about DEFINITIONS only (analyzer.rs: the fresh path skips the definitions cleanup);
            # Conc.tla's scan visit still clears the file's usages and their reverse index before re-recording them,
            # so after the sequential order editor -> scan both must be exactly the on-disk text's
            V.violation(e2, "after notification then scan visit the usage maps are not those of the scan's analysis (forward map and reverse index must both be replaced)")
        elif within_union(real):
            V.classify(["scan_no_cleanup_same_file"], e2, "after scan and editor notification the index does not reflect the editor's content exactly once")
        else:
            V.violation(e2, "index after scan/editor interleaving contains records of neither the editor's nor the on-disk content")
    # ---- coarse-grained confirmation through the REAL binary: didOpen right after initialize (racing the
    # background scan, which is kept busy by filler files) vs after "Workspace scan complete"
    # B2: the lock-acquisition logs of the executions (scan worker and editor on the SAME file) are behaviours of Conc.tla
    logged = [(info[cid][0]["sc"], r["log"]) for cid, r in sorted(res.items()) if isinstance(r, dict) and r.get("log")]
    if logged:
        conc_trace_validate(V, logged, "c10")
    nbin = c10_binary(V, tier)
    if reps:
        V.sample({"scenario": reps[0]["sc"], "sched": reps[0]["sched"], "editorWins": reps[0]["editorWins"]})
    cov = {"states": meta["distinct"], "transitions": meta["transitions"], "traces_validated_against_impl": len(res) + nbin,
           "tlc_behaviours": len(reps), "binary_sessions": nbin, "exhaustive": True,
           "tlc": {"cfg": "Conc_c10.cfg", "wall_s": meta["wall_s"], "cached": meta.get("cached", False)}}
    return V.finish(
        coverage_extra=cov,
        rule="TLC: all interleavings of {scan worker: analyze(F, disk, no cleanup)} and {editor: analyze(F, buffer, "
             "cleanup)} on the SAME file at DashMap-operation grain, disk/buffer over 5 texts each, invariant "
             "RestoreAfterChange; real: simulated behaviours and both coarse orders replayed on real threads under the "
             "scheduler, then every menu text sent as one further change; final state compared with the single analysis",
        assumptions=["the scan's visit is the verif_analyze_file_fresh hook (the function scanner.rs:186 calls)"])


# ------------------------------------------------------------------------------------------- C12

ALL_QUERY_OPS = ["goto", "goto_or_def", "name_at", "refs_at", "available", "resolve_for_file", "imported",
                 "is_imported", "cycles", "cycles_in_file", "scope_mismatch", "undeclared", "completion_ctx",
                 "param_insert", "containing_fn", "unused", "refs", "def_at_line", "refs_by_name", "snapshot"]


def query_ops_for(paths_texts, names):
    """every public library entry point, at positions that exist in the texts"""
    ops = []
    for path, text in paths_texts.items():
        lines = text.split("\n")
        for ln, line in enumerate(lines):
            for nm in names:
                col = line.find(nm + ")") if (nm + ")") in line else line.find(nm + ",")
                if col >= 0 and ("def " in line):
                    for op in ("goto", "goto_or_def", "name_at", "refs_at", "completion_ctx"):
                        ops.append({"op": op, "path": path, "line": ln, "col": col})
            if line.startswith("def ") or line.startswith("    def "):
                col = line.index("def ") + 4
                nm = line[col:].split("(")[0]
                ops.append({"op": "refs_at", "path": path, "line": ln, "col": col})
                ops.append({"op": "goto_or_def", "path": path, "line": ln, "col": col})
                ops.append({"op": "refs", "path": path, "line1": ln + 1, "name": nm})
                ops.append({"op": "def_at_line", "path": path, "line1": ln + 1, "name": nm})
                ops.append({"op": "param_insert", "path": path, "line1": ln + 1})
                ops.append({"op": "containing_fn", "path": path, "line1": ln + 2})
                ops.append({"op": "completion_ctx", "path": path, "line": ln + 1, "col": 4})
        for op in ("available", "imported", "cycles_in_file", "scope_mismatch", "undeclared"):
            ops.append({"op": op, "path": path})
        for nm in names:
            ops.append({"op": "resolve_for_file", "path": path, "name": nm})
            ops.append({"op": "is_imported", "path": path, "name": nm})
    for nm in names:
        ops.append({"op": "refs_by_name", "name": nm})
    ops += [{"op": "cycles"}, {"op": "unused"}, {"op": "snapshot"}]
    return ops


def nav_first(q, path):
    """the position-based navigation queries of one document first (they resolve a name while holding their own guards), the rest after"""
    nav = [o for o in q if o.get("path") == path and o["op"] in ("goto", "goto_or_def", "refs_at", "name_at")]
    return nav + [o for o in q if o not in nav]


def broken_round(texts):
    paths = list(texts)
    p0 = next((p for p in paths if p.endswith("conftest.py")), paths[0])
    ops = [{"op": "analyze", "path": p0, "text": texts[p0] + "\n\ndef broken(:\n    pass\n"}]
    ops += [q for q in query_ops_for(texts, ["n", "w", "x"])
            if q["op"] in ("goto", "goto_or_def", "available", "imported", "is_imported", "completion_ctx", "refs_at", "undeclared", "cycles")]
    ops.append({"op": "analyze", "path": p0, "text": texts[p0]})
    return ops


def import_graph_cases():
    """every import graph over three helper modules (incl. self loops, cycles, diamonds), star / plugins"""
    import itertools
    uni = R.Universe({"c": "/vws/G/conftest.py", "ha": "/vws/G/mod_a.py", "hb": "/vws/G/mod_b.py",
                      "hc": "/vws/G/mod_c.py", "t": "/vws/G/test_t.py"})
    mods = ["ha", "hb", "hc"]
    out = []

    def item(k, name="-", mod="-", deps=()):
        return {"k": k, "name": name, "deps": list(deps), "scope": 0, "autouse": False, "mod": mod, "marks": [], "cmarks": [], "ind": []}

    subsets = [s for r in range(4) for s in itertools.combinations(mods, r)]
    for ea in subsets:
        for eb in subsets:
            for ec in subsets:
                for kind in ("star", "plugins"):
                    edges = {"ha": ea, "hb": eb, "hc": ec}
                    files = {}
                    for m in mods:
                        its = [item("def", name="f" + m[1], deps=())]
                        if kind == "star":
                            its += [item("star", mod=x) for x in edges[m]]
                        elif edges[m]:
                            # pytest_plugins: one assignment listing all (the renderer emits one per item; last wins)
                            its += [item("plugins", mod=edges[m][-1])]
                        files[m] = {"present": True, "valid": True, "items": its}
                    files["c"] = {"present": True, "valid": True, "items": [item("star", mod="ha")]}
                    files["t"] = {"present": True, "valid": True, "items": [item("test", name="test_1", deps=("fa", "fb", "fc"))]}
                    eff = dict(edges)
                    if kind == "plugins":
                        eff = {m: ((edges[m][-1],) if edges[m] else ()) for m in mods}
                    out.append((uni, files, eff, kind))
    return out


def reachable(eff, start):
    seen, todo = {start}, [start]
    while todo:
        x = todo.pop()
        for y in eff.get(x, ()):
            if y not in seen:
                seen.add(y)
                todo.append(y)
    return seen


def gen_locks_mc(templates, modname="MC_Locks_gen"):
    def rec(s):
        m, mode = s.split(":")
        return '[map |-> "%s", mode |-> "%s"]' % (m, mode)
    tps = []
    for t in templates:
        held = ", ".join(rec(h) for h in t["held"])
        tps.append("[held |-> <<%s>>, req |-> %s]" % (held, rec(t["req"])))
    body = "---- MODULE %s ----\nEXTENDS Locks\nGenTemplates == <<\n  %s\n>>\n====\n" % (modname, ",\n  ".join(tps))
    return body


def c12_bare_chains(V, tier):
    import lsp
    import shutil
    C.build_server()
    base = os.path.join(C.BUILD, "ws", "c12bare-%d" % os.getpid())
    shutil.rmtree(base, ignore_errors=True)
    H = "import pytest\n\n\n"
    BARE = "@pytest.fixture\ndef engine(engine):\n    return engine\n"
    # the outermost definition DOES spell a type (handlers skip names nobody annotates)
    # ... and an unrelated annotated fixture is visible everywhere (a handler that gives up when NO visible fixture has a type must go on)
    ROOT = ("class Engine:\n    pass\n\n\n@pytest.fixture\ndef engine() -> Engine:\n    return Engine()\n\n\n"
            "@pytest.fixture\ndef clock() -> int:\n    return 0\n")
    USE = "def test_e(engine, clock):\n    pass\n"
    W = {
        "twice_in_one_conftest": {"conftest.py": H + ROOT, "a/conftest.py": H + BARE + "\n\n" + BARE, "a/test_a.py": USE},
        "twice_in_test_module": {"conftest.py": H + ROOT, "a/test_a.py": H + BARE + "\n\n" + BARE + "\n\n" + USE},
        "star_imported_override": {"conftest.py": H + ROOT, "a/conftest.py": "from .helpers import *\n", "a/helpers.py": H + BARE,
                                   "a/b/conftest.py": H + BARE, "a/b/test_b.py": USE, "a/test_a.py": USE},
        "three_levels": {"conftest.py": H + ROOT, "a/conftest.py": H + BARE,
                         "a/b/conftest.py": H + BARE, "a/b/test_b.py": H + BARE + "\n\n" + USE},
        "no_parent_at_all": {"conftest.py": H + "@pytest.fixture\ndef clock() -> int:\n    return 0\n", "a/conftest.py": H + BARE,
                             "a/test_a.py": H + BARE + "\n\n" + USE},
        "three_levels_bare_root": {"conftest.py": H + BARE.replace("(engine)", "()").replace("return engine", "return 0"), "a/conftest.py": H + BARE,
                                   "a/b/conftest.py": H + BARE, "a/b/test_b.py": H + BARE + "\n\n" + USE},
        "mutual_star_imports": {"conftest.py": "from .m1 import *\n", "m1.py": "from .m2 import *\n" + H + ROOT + "\n\n" + BARE,
                                "m2.py": "from .m1 import *\n" + H + BARE, "test_m.py": USE},
    }

    def session(job):
        name, files = job
        root = os.path.join(base, name)
        for rel, t in files.items():
            os.makedirs(os.path.dirname(os.path.join(root, rel)), exist_ok=True)
            with open(os.path.join(root, rel), "w") as fh:
                fh.write(t)
        open(os.path.join(root, "__init__.py"), "w").close()
        srv = lsp.Server(timeout=8.0)
        asked = []
        try:
            srv.initialize(root)
            for rel, t in sorted(files.items()):
                p = os.path.join(root, rel)
                srv.did_open(p, t)
                lines = t.split("\n")
                whole = {"range": {"start": {"line": 0, "character": 0}, "end": {"line": len(lines), "character": 0}}}
                for method, extra in (("textDocument/inlayHint", whole), ("textDocument/codeLens", None), ("textDocument/documentSymbol", None)):
                    asked.append((rel, method))
                    srv.doc_request(method, p, extra)
                for i, l in enumerate(lines):
                    for col in [m.start() for m in re.finditer(r"\bengine\b", l)]:
                        for method in ("textDocument/hover", "textDocument/definition", "textDocument/implementation", "textDocument/references",
                                       "textDocument/prepareCallHierarchy", "textDocument/completion"):
                            asked.append((rel, method, i, col))
                            a = srv.pos_request(method, p, i, col + 1, {"context": {"includeDeclaration": True}} if method.endswith("references") else None)
                            if method.endswith("prepareCallHierarchy") and isinstance(a, list) and a:
                                asked.append((rel, "callHierarchy/*", i, col))
                                srv.request("callHierarchy/outgoingCalls", {"item": a[0]})
                                srv.request("callHierarchy/incomingCalls", {"item": a[0]})
            return {"asked": len(asked), "alive": srv.alive()}
        except (lsp.ServerDied, lsp.Timeout) as e:
            return {"error": str(e), "last_request": list(asked[-1]) if asked else None, "asked": len(asked)}
        finally:
            srv.close()
            shutil.rmtree(root, ignore_errors=True)

    jobs = sorted(W.items())
    for (name, files), r in zip(jobs, lsp.run_parallel(jobs, session, workers=6)):
        V.count()
        V.nontriv(("bare_chain", name))
        if r is None or "__exception__" in r:
            raise C.ToolError("LSP session failed: %r" % (r,))
        if "error" in r or not r.get("alive"):
            V.violation({"workspace": name, "files": files, "result": r},
                        "a request on a chain of overrides that spell nothing themselves is never answered (or the server died)")
    shutil.rmtree(base, ignore_errors=True)
    return len(jobs)


def check_c12(tier):
    set_watchdog(tier)
    import layouts as L
    V = C.Verdict("C12", tier, "model_checking")
    C.build_harness()
    # ---- (1) lock traces of every library entry point, natural placement and all-keys-in-one-shard
    meta_l = L.load_cases("Layouts_chain.cfg")
    cases, info = [], {}
    rnd = random.Random(C.seed())
    all_cases = list(C.tlc_cases(meta_l))
    rnd.shuffle(all_cases)
    sample = all_cases[:150 if tier == "quick" else 1500]
    for case in sample:
        ctx = L.CaseCtx(case)
        texts = ctx.texts()
        setup = ctx.setup_ops()
        for one in (False, True):
            cid = len(cases)
            cases.append({"id": cid, "one_shard": one, "mode": "trace", "pre": [],
                          "threads": [setup + query_ops_for(texts, ["n", "w", "x"]) +
                                      [{"op": "close", "path": p} for p in list(texts)[:1]] +
                                      [{"op": "analyze", "path": p, "text": t} for p, t in list(texts.items())[:2]] +
                                      [{"op": "analyze", "path": p, "text": t, "fresh": True} for p, t in list(texts.items())[:1]] +
                                      # a second round after the re-analysis (stale-cache branches of the memoised queries)
                                      [q for q in query_ops_for(texts, ["n", "w", "x"]) if q["op"] in ("goto", "available", "imported", "cycles", "is_imported")] +
                                      # a third round while a conftest (else the first file) holds UNPARSABLE text: the parse-failure
                                      # branches of every cached step (AST cache, line index, imported-fixture cache) under the lock tracer
                                      broken_round(texts)],
                          "schedule": [], "post": []})
            info[cid] = ("layout", case["shape"], one)
    # ---- cache pressure: more than MAX_FILE_CACHE_SIZE (2000) analysed files make every further analysis run the
    # eviction pass; then closes and queries.  Under the tracer a guard kept across the eviction's own removals is a hazard
    # report instead of a hang
    for one in (False, True):
        cid = len(cases)
        fill = [{"op": "analyze", "path": "/vwsp/fill/test_fill_%d.py" % k, "text": "def test_f%d(px):\n    pass\n" % k} for k in range(2050)]
        cases.append({"id": cid, "one_shard": one, "mode": "trace", "pre": [],
                      "threads": [[{"op": "analyze", "path": "/vwsp/conftest.py", "text": "import pytest\n\n\n@pytest.fixture\ndef px():\n    return 1\n"}]
                                  + fill + [{"op": "goto", "path": "/vwsp/fill/test_fill_7.py", "line": 0, "col": 12},
                                            {"op": "available", "path": "/vwsp/fill/test_fill_2049.py"},
                                            {"op": "close", "path": "/vwsp/fill/test_fill_2049.py"}, {"op": "unused"}, {"op": "cycles"}]],
                      "schedule": [], "post": []})
        info[cid] = ("cache_pressure", {"files": 2051}, one)
    graphs = import_graph_cases()
    if tier == "quick":
        rnd.shuffle(graphs)
        graphs = graphs[:300]
    graph_info = {}
    for uni, files, eff, kind in graphs:
        rendered = {s: R.render_checked(uni, s, m) for s, m in files.items()}
        texts = {uni.paths[s]: r.text for s, r in rendered.items()}
        setup = [{"op": "analyze", "path": uni.paths[s], "text": rendered[s].text} for s in ("t", "c", "ha", "hb", "hc")]
        for one in (False, True):
            cid = len(cases)
            cases.append({"id": cid, "one_shard": one, "mode": "trace", "pre": [],
                          "threads": [setup + [{"op": "imported", "path": uni.paths["c"]}] +
                                      query_ops_for(texts, ["fa", "fb", "fc"]) +
                                      [{"op": "analyze", "path": uni.paths["t"], "text": rendered["t"].text},
                                       {"op": "imported", "path": uni.paths["c"]}, {"op": "available", "path": uni.paths["t"]},
                                       {"op": "imported", "path": uni.paths["hb"]}, {"op": "imported", "path": uni.paths["c"]}]],
                          "schedule": [], "post": []})
            info[cid] = ("imports", {"edges": eff, "kind": kind}, one)
            graph_info[cid] = (eff, len(setup))
    # ---- (1b) the same import graphs ON DISK: the real workspace scan (phase 1 + the import fixpoint of
    # scan_imported_fixture_modules), with the first helper optionally registered as an entry-point plugin (plugin status
    # propagates along star imports / pytest_plugins, also around cycles); and a server that analysed only conftest and
    # test file, so that every query meets imported modules that exist on disk but were never analysed
    import shutil
    disk_base = os.path.join(C.BUILD, "ws", "c12-%d" % os.getpid())
    shutil.rmtree(disk_base, ignore_errors=True)
    disk_graphs = graphs[:: max(1, len(graphs) // (70 if tier == "quick" else 700))]
    for gi, (uni0, files, eff, kind) in enumerate(disk_graphs):
        root = os.path.join(disk_base, "g%d" % gi)
        uni = R.Universe({sl: pth.replace("/vws/G", root + "/G") for sl, pth in uni0.paths.items()})
        rendered = {sl: R.render_checked(uni, sl, m) for sl, m in files.items()}
        os.makedirs(root + "/G", exist_ok=True)
        for sl, r in rendered.items():
            with open(uni.paths[sl], "w") as fh:
                fh.write(r.text)
        texts = {uni.paths[sl]: r.text for sl, r in rendered.items()}
        q = query_ops_for(texts, ["fa", "fb", "fc"])
        # a conftest in an unrelated directory defines the same names: they are KNOWN to the index although the modules the
        # using file's conftest imports were never analysed
        other_p = root + "/G/other/conftest.py"
        other_t = "import pytest\n" + "".join("\n\n@pytest.fixture\ndef f%s():\n    return 0\n" % x for x in "abc")
        os.makedirs(os.path.dirname(other_p), exist_ok=True)
        with open(other_p, "w") as fh:
            fh.write(other_t)
        variants = [("scan", [{"op": "scan", "root": root + "/G"}]),
                    ("scan_plugin", [{"op": "mark_plugin", "path": uni.paths["ha"]}, {"op": "scan", "root": root + "/G"}]),
                    ("unscanned_modules", [{"op": "analyze", "path": uni.paths[sl], "text": rendered[sl].text} for sl in ("c", "t")] +
                     [{"op": "analyze", "path": other_p, "text": other_t}])]
        for vname, setup in variants:
            cid = len(cases)
            cases.append({"id": cid, "one_shard": gi % 2 == 0, "mode": "trace", "pre": [],
                          # (with never-analysed modules the navigation queries come FIRST: they meet the modules while holding
                          # their own guards; the bare imported-fixtures query would visit them guard-free)
                          "threads": [setup + (nav_first(q, uni.paths["t"]) + [{"op": "imported", "path": uni.paths["c"]}] if vname == "unscanned_modules"
                                               else [{"op": "imported", "path": uni.paths["c"]}] + q)], "schedule": [], "post": []})
            info[cid] = ("disk_" + vname, {"edges": eff, "kind": kind}, gi % 2 == 0)
            if vname != "unscanned_modules":
                graph_info[cid] = (eff, len(setup))
    res = run_conc(cases)
    shutil.rmtree(disk_base, ignore_errors=True)
    for k in ("__hang__", "__crash__"):
        if k in res:
            V.violation(res.pop(k), "an operation crashed the process (stack overflow / abort) or did not terminate")
    templates = {}
    ops_seen = set()
    for cid, r in res.items():
        kind, shape, one = info[cid]
        V.count()
        V.nontriv((kind, json.dumps(shape, sort_keys=True), one))
        for c in cases[cid]["threads"][0]:
            ops_seen.add(c["op"])
        panics = [x for x in r["threads"][0] if isinstance(x, dict) and "panic" in x]
        if r["hazards"] or r["deadlock"] or panics:
            V.violation({"universe": kind, "shape": shape, "one_shard": one, "hazards": r["hazards"][:5], "panics": panics[:3],
                         "ops": [c for c in cases[cid]["threads"][0] if c["op"] != "analyze"][:40],
                         "texts": [c.get("text") for c in cases[cid]["threads"][0] if c["op"] == "analyze"]},
                        "lock re-entrancy that self-deadlocks for some key placement (or did in this one)")
        for t in r["templates"]:
            templates[json.dumps(t, sort_keys=True)] = t
        if cid in graph_info:
            eff, ns = graph_info[cid]
            got = r["threads"][0][ns] if len(r["threads"][0]) > ns else None
            want = sorted("f" + m[1] for m in reachable(eff, "ha"))
            if got != want:
                V.violation({"edges": eff, "imported": got, "expected": want, "kind": shape["kind"]},
                            "fixtures re-exported through an import graph with cycles differ from the reachable modules' fixtures")
    missing = [o for o in ALL_QUERY_OPS if o not in ops_seen and o not in ("snapshot",)]
    if missing:
        raise C.ToolError("C12 self-test: entry points never exercised: %s" % missing)
    tlist = sorted(templates.values(), key=lambda t: json.dumps(t, sort_keys=True))
    # ---- (2) TLC: the observed nesting templates under every schedule and placement.  A template that holds nothing while
    # it requests its lock can never be part of a wait cycle (it waits holding nothing, and once it holds it requests nothing):
    # only NESTING templates are handed to TLC.  The generated module is private to this process (concurrent checks).
    nesting = [t for t in tlist if t["held"]]
    gmod = "MC_Locks_gen_%d" % os.getpid()
    gtla, gcfg = os.path.join(C.SPEC, gmod + ".tla"), os.path.join(C.SPEC, gmod + ".cfg")
    with open(gtla, "w") as fh:
        fh.write(gen_locks_mc(nesting, gmod) if nesting else
                 "---- MODULE %s ----\nEXTENDS Locks\nGenTemplates == <<[held |-> <<>>, req |-> [map |-> \"definitions\", mode |-> \"R\"]]>>\n====\n" % gmod)
    # quick: 2 threads x 2 shards.  thorough: 2 threads x 3 shards, and 3 threads on one shard (a wait cycle through three
    # maps; 3 threads x 2 shards does not finish within an hour)
    configs = [("{1, 2}", "{0, 1}")] if tier == "quick" else [("{1, 2}", "{0, 1, 2}"), ("{1, 2, 3}", "{0}")]
    meta = None
    try:
        for threads, shards in configs:
            with open(gcfg, "w") as fh:
                fh.write("CONSTANTS\n  Templates <- GenTemplates\n  Threads = %s\n  Shards = %s\nSPECIFICATION Spec\nCHECK_DEADLOCK FALSE\nINVARIANTS\n  NoDeadlock\n" % (threads, shards))
            m1 = C.run_tlc(gmod, gmod + ".cfg", workers=8, timeout=3600, cache=False)
            if meta is None:
                meta = m1
            else:
                meta = dict(m1, distinct=meta["distinct"] + m1["distinct"], transitions=meta["transitions"] + m1["transitions"],
                            wall_s=meta["wall_s"] + m1["wall_s"], ok=meta["ok"] and m1["ok"], errors=meta["errors"] + m1["errors"])
            if not m1["ok"]:
                break
    finally:
        for f in (gtla, gcfg):
            if os.path.exists(f):
                os.unlink(f)
    if not meta["ok"]:
        if any("Invariant NoDeadlock is violated" in e for e in meta["errors"]):
            V.violation({"templates": tlist, "tlc": meta["errors"]},
                        "TLC: the observed lock nestings admit a deadlock under some schedule / key placement")
        else:
            raise C.ToolError("TLC on the generated lock templates failed: %s" % meta["errors"])
    # ---- (3) termination of the recursive / iterative algorithms on every import graph
    meta_iw = C.run_tlc("ImportWalk", "ImportWalk.cfg", workers=8, timeout=3600)
    if not meta_iw["ok"]:
        raise C.ToolError("TLC on ImportWalk failed: %s" % meta_iw["errors"])
    # ---- (4) scheduled concurrent notification + requests on real threads: no deadlock, every op returns
    sched_cases, sinfo = [], {}
    for case in sample[:60 if tier == "quick" else 600]:
        ctx = L.CaseCtx(case)
        texts = ctx.texts()
        setup = ctx.setup_ops()
        q = query_ops_for(texts, ["n", "w", "x"])
        first = list(texts.items())[0]
        for one in (False, True):
            cid = len(sched_cases)
            sched_cases.append({"id": cid, "one_shard": one, "mode": "sched", "pre": setup,
                                "yield_maps": [],
                                "threads": [[{"op": "analyze", "path": first[0], "text": first[1]},
                                             {"op": "analyze", "path": first[0], "text": first[1], "fresh": True}],
                                            q[:80], list(reversed(q))[:80]],
                                "schedule": [rnd.choice([1, 2, 3]) for _ in range(4000)], "post": []})
            sinfo[cid] = (case["shape"], one)
    sres = run_conc(sched_cases)
    for k in ("__hang__", "__crash__"):
        if k in sres:
            V.violation(sres.pop(k), "concurrent notification and requests crashed the process or did not terminate")
    for cid, r in sres.items():
        V.count()
        V.nontriv(("sched", json.dumps(sinfo[cid][0], sort_keys=True), sinfo[cid][1]))
        panics = [p for p in r["panics"] if p] + [x for t in r["threads"] for x in t if isinstance(x, dict) and "panic" in x]
        if r["deadlock"] or r["hazards"] or panics:
            V.violation({"shape": sinfo[cid][0], "one_shard": sinfo[cid][1], "hazards": r["hazards"][:5],
                         "panics": panics[:3], "granted": r["granted"][:200]},
                        "deadlock / lock hazard / panic while a notification and requests run concurrently")
    # ---- (5) the real binary with a SLOW client: the server's own requests to the client (inlay-hint refresh after every change)
    # are answered late, while the client keeps sending notifications and requests for the same and for other documents; every
    # request must still be answered (the handlers share one task with the reader: a handler that blocks wedges everything)
    nslow = c12_slow_client(V, tier)
    V.notes["slow_client_sessions"] = nslow
    # ---- (6) handlers that WALK override chains (inlay hints, hover, call hierarchy): chains of pass-through overrides that spell
    # nothing themselves (no annotation, no docstring), the same override twice in one file, an override delivered by a star import
    # next to another override -- every request must be answered
    V.notes["bare_override_chain_sessions"] = c12_bare_chains(V, tier)
    V.sample({"templates": tlist})
    cov = {"states": meta["distinct"] + meta_iw["distinct"], "transitions": meta["transitions"] + meta_iw["transitions"],
           "traces_validated_against_impl": len(res) + len(sres), "templates": tlist, "entry_points": sorted(ops_seen),
           "exhaustive": True,
           "tlc": [{"module": "Locks (generated templates)", "wall_s": meta["wall_s"]}, {"module": "ImportWalk", "wall_s": meta_iw["wall_s"]}]}
    return V.finish(
        coverage_extra=cov,
        rule="(1) every public library entry point is run on sampled override-chain layouts and on every import graph "
             "over three modules (self loops, 2-/3-cycles, diamonds; star imports and pytest_plugins) with the instrumented "
             "DashMap tracing all shard locks, under natural placement AND all keys in one shard; a held-lock re-entrancy "
             "involving a writer on the same map is a violation; (2) the observed nesting templates are checked by TLC "
             "(Locks.tla, reader-preferring RwLock, all schedules and placements) for deadlock; (3) ImportWalk.tla: "
             "termination (<>Done under WF) of the memoised import recursion and scanner fixpoint on all graphs; "
             "(4) an analysis and two request streams run on real threads under seeded random schedules",
        assumptions=["handlers of the binary crate are covered through the library entry points they call (code lens / inlay hint "
                     "hold a definitions.iter / usages.get guard across calls: read-under-read templates)",
                     "watchdog = %d s per harness process (a batch normally finishes in < 20 s)" % CONC_WATCHDOG])


def c12_slow_client(V, tier):
    import shutil
    import lsp
    C.build_server()
    base = os.path.join(C.BUILD, "ws", "c12b-%d" % os.getpid())
    shutil.rmtree(base, ignore_errors=True)
    conf = "import pytest\n\n\n@pytest.fixture\ndef fx():\n    return 1\n"
    tx = "def test_x(fx):\n    pass\n"
    scripts = {
        "change_then_close_same": ["open x", "change x", "close x", "hover y"],
        "change_then_open_others": ["open x", "change x", "open y", "open z", "close y", "hover x"],
        "changes_back_to_back": ["open x", "open y", "change x", "change y", "change x", "close x", "open x", "hover y"],
        "close_reopen_during_refresh": ["open x", "change x", "close x", "open x", "change x", "close x", "hover y"],
    }
    jobs = [(name, d) for name in scripts for d in ((0.4, 1.5) if tier == "quick" else (0.2, 0.4, 1.0, 2.5))]

    def session(job):
        name, delay = job
        root = os.path.join(base, "%s_%s" % (name, str(delay).replace(".", "_")))
        os.makedirs(root, exist_ok=True)
        with open(os.path.join(root, "conftest.py"), "w") as fh:
            fh.write(conf)
        paths = {k: os.path.join(root, "test_%s.py" % k) for k in "xyz"}
        for p in paths.values():
            with open(p, "w") as fh:
                fh.write(tx)
        srv = lsp.Server(timeout=25, reply_delay=delay)
        ver = {}
        try:
            srv.initialize(root)
            srv.did_open(paths["y"], tx)
            answered = 0
            for step in scripts[name]:
                op, k = step.split()
                if op == "open":
                    ver[k] = 1
                    srv.did_open(paths[k], tx, wait_diag=False)
                elif op == "change":
                    ver[k] = ver.get(k, 1) + 1
                    srv.did_change(paths[k], tx + "\n# edit %d\n" % ver[k], version=ver[k], wait_diag=False)
                elif op == "close":
                    srv.did_close(paths[k])
                elif op == "hover":
                    srv.pos_request("textDocument/hover", paths[k], 0, 12)
                    answered += 1
            srv.pos_request("textDocument/definition", paths["y"], 0, 12)
            return {"answered": answered + 1, "alive": srv.alive()}
        except (lsp.ServerDied, lsp.Timeout) as e:
            return {"error": str(e)}
        finally:
            srv.close()
            shutil.rmtree(root, ignore_errors=True)

    for job, r in zip(jobs, lsp.run_parallel(jobs, session, workers=8)):
        V.count()
        V.nontriv(("slow_client",) + job)
        if r is None or "__exception__" in r:
            raise C.ToolError("LSP session failed: %r" % (r,))
        if "error" in r or not r.get("alive"):
            V.violation({"script": scripts[job[0]], "client_answers_server_requests_after_s": job[1], "result": r},
                        "the server stopped answering while the client was slow to answer the server's own requests")
    shutil.rmtree(base, ignore_errors=True)
    return len(jobs)


def c10_binary(V, tier):
    import shutil
    import lsp
    C.build_server()
    base = os.path.join(C.BUILD, "ws", "c10-%d" % os.getpid())
    shutil.rmtree(base, ignore_errors=True)
    disk = "import pytest\n\n\n@pytest.fixture\ndef on_disk():\n    return 1\n\n\ndef test_d(on_disk):\n    pass\n"
    buf = "import pytest\n\n\n@pytest.fixture\ndef in_buffer():\n    return 1\n\n\ndef test_b(in_buffer):\n    pass\n"
    buf2 = "import pytest\n\n\n@pytest.fixture\ndef second():\n    return 2\n"
    bufm = "import pytest\n\n\n@pytest.fixture\ndef mid_edit():\n    return 3\n\n\ndef test_m(mid_edit):\n    pass\n"
    # link: the document is a SYMLINK inside the workspace to a file outside it (the scan meets the link while walking,
    # the editor names it by URI): both must address one and the same index entry
    jobs = [(i, early, same, link) for i in range(12 if tier == "quick" else 100) for early in (True, False) for same in (True, False)
            for link in ((False, True) if i % 3 == 0 else (False,))]
    # "opened OR EDITED while the scan is still running": didOpen and a didChange go out back to back right after initialize,
    # nothing is awaited until the scan has finished (early = "edit")
    jobs += [(i, "edit", same, False) for i in range(8 if tier == "quick" else 60) for same in (True, False)]

    def session(job):
        i, early, same, link = job
        root = os.path.join(base, "s%d_%s_%d_%d" % (i, early, same, link), "ws")
        os.makedirs(os.path.join(root, "pkg"), exist_ok=True)
        for k in range(150):
            with open(os.path.join(root, "pkg", "test_fill_%d.py" % k), "w") as fh:
                fh.write("import pytest\n\n\n@pytest.fixture\ndef fill_%d():\n    return 1\n\n\ndef test_f(fill_%d):\n    pass\n" % (k, k))
        f = os.path.join(root, "test_f.py")
        if i % 4 == 1 and not link:
            # the document lives in a sub-directory whose NAME is one of the workspace's exclude patterns (a bare name is a
            # glob that matches only a path equal to it: the document is neither excluded from the scan nor from the editor)
            os.makedirs(os.path.join(root, "pkgdoc"), exist_ok=True)
            f = os.path.join(root, "pkgdoc", "test_f.py")
            with open(os.path.join(root, "pyproject.toml"), "w") as fh:
                fh.write('[tool.pytest-language-server]\nexclude = ["pkgdoc", "unrelated_dir/**"]\n')
        if link:
            shared = os.path.join(os.path.dirname(root), "shared")
            os.makedirs(shared, exist_ok=True)
            with open(os.path.join(shared, "test_f.py"), "w") as fh:
                fh.write(disk)
            os.symlink(os.path.join("..", "shared", "test_f.py"), f)
        else:
            with open(f, "w") as fh:
                fh.write(disk)
        text = disk if same else buf
        srv = lsp.Server(timeout=40)
        try:
            srv.initialize(root, wait_scan=not early)
            if early == "edit":
                import time
                srv.did_open(f, text, wait_diag=False)
                srv.did_change(f, bufm, version=2, wait_diag=False)
                srv.wait_log("Workspace scan complete", also_fail="Workspace scan failed")
                deadline = time.time() + 30
                while time.time() < deadline and len(srv.diagnostics.get(lsp.path_to_uri(f), [])) < 2:
                    time.sleep(0.02)
            else:
                srv.did_open(f, text)
            if early is True:
                srv.wait_log("Workspace scan complete", also_fail="Workspace scan failed")

            def names():
                # the document's own symbols AND every workspace symbol that is not a filler: an entry of this document
                # recorded under another key (another spelling of its path) shows up only in the second list
                syms = srv.doc_request("textDocument/documentSymbol", f) or []
                ws = srv.request("workspace/symbol", {"query": ""}) or []
                both = sorted(s["name"] for s in syms)
                rest = sorted(s["name"] for s in ws if not s["name"].startswith("fill_"))
                return both if both == rest else {"document": both, "workspace": rest}
            first = names()
            # "one further change notification": first one that carries the SAME text again (format-on-save, undo/redo under
            # full sync), then one with new content
            srv.did_change(f, bufm if early == "edit" else text, version=3)
            same_again = names()
            srv.did_change(f, buf2, version=4)
            after = names()
            return {"first": first, "same_again": same_again, "after": after, "alive": srv.alive()}
        except (lsp.ServerDied, lsp.Timeout) as e:
            return {"error": str(e)}
        finally:
            srv.close()
            shutil.rmtree(os.path.dirname(root), ignore_errors=True)

    for job, r in zip(jobs, lsp.run_parallel(jobs, session, workers=6)):
        i, early, same, link = job
        V.count()
        V.nontriv(("bin", early, same, link, i))
        if r is None or "__exception__" in r:
            raise C.ToolError("LSP session failed: %r" % (r,))
        ex = {"didOpen_before_scan_completes": early, "buffer_equals_disk": same, "document_is_symlink": link, "result": r}
        if "error" in r:
            V.violation(ex, "server died while a document was opened during the workspace scan")
            continue
        want = ["mid_edit"] if early == "edit" else ["on_disk"] if same else ["in_buffer"]
        if r["same_again"] != want:
            V.violation(ex, "a further change notification carrying the same text does not restore the single-analysis state (real binary)")
        if r["after"] != ["second"]:
            V.violation(ex, "one further change notification does not restore the single-analysis state (real binary)")
        if r["first"] != want:
            # the scan visited the file after the notification: editor's definitions plus the on-disk ones
            predicted = early and isinstance(r["first"], list) and sorted(r["first"]) == sorted(want + ["on_disk"])
            if predicted:
                V.classify(["scan_no_cleanup_same_file"], ex, "after scan and didOpen the document's symbols are not the editor's content exactly once")
            else:
                V.violation(ex, "document symbols after scan + didOpen match neither the editor's content nor the known scan-after-notification shape")
    shutil.rmtree(base, ignore_errors=True)
    return len(jobs)
