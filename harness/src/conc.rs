//! Scheduled multi-threaded executions and lock tracing against the instrumented DashMap
//! (C09, C10, C12).  Cases are executed one at a time (the scheduler state is global); the Python
//! side runs several harness processes in parallel.
//!
//!   plsverif conc <cases.ndjson>
//!
//! case = {"id", "one_shard": bool, "mode": "sched"|"trace",
//!         "pre": [ops], "threads": [[ops], ..], "schedule": [tid..], "post": [ops], "log": bool}
use crate::ops;
use dashmap::verif;
use pytest_language_server::FixtureDatabase;
use serde_json::{json, Value};
use std::collections::BTreeSet;
use std::io::{BufRead, Write};
use std::sync::Arc;

fn register(db: &FixtureDatabase) {
    db.definitions.verif_register("definitions");
    db.file_definitions.verif_register("file_definitions");
    db.usages.verif_register("usages");
    db.usage_by_fixture.verif_register("usage_by_fixture");
    db.file_cache.verif_register("file_cache");
    db.undeclared_fixtures.verif_register("undeclared_fixtures");
    db.imports.verif_register("imports");
    db.canonical_path_cache.verif_register("canonical_path_cache");
    db.line_index_cache.verif_register("line_index_cache");
    db.ast_cache.verif_register("ast_cache");
    db.cycle_cache.verif_register("cycle_cache");
    db.available_fixtures_cache.verif_register("available_fixtures_cache");
    db.imported_fixtures_cache.verif_register("imported_fixtures_cache");
    db.plugin_fixture_files.verif_register("plugin_fixture_files");
}

fn run_ops(db: &FixtureDatabase, list: &[Value]) -> Vec<Value> {
    let mut out = Vec::new();
    for op in list {
        let r = std::panic::catch_unwind(std::panic::AssertUnwindSafe(|| ops::exec_op(db, op)));
        match r {
            Ok(v) => out.push(v),
            Err(e) => {
                let msg = e
                    .downcast_ref::<&str>()
                    .map(|s| s.to_string())
                    .or_else(|| e.downcast_ref::<String>().cloned())
                    .unwrap_or_else(|| "<panic>".to_string());
                let loc = ops::LAST_PANIC_LOC.with(|c| c.borrow().clone());
                out.push(json!({"panic": msg, "at": loc}));
                if msg.contains("VERIF-DEADLOCK-UNWIND") {
                    break;
                }
            }
        }
    }
    out
}

fn arr(v: &Value, k: &str) -> Vec<Value> {
    v.get(k).and_then(|x| x.as_array()).cloned().unwrap_or_default()
}

/// nesting templates: (set of held (map, mode)) -> requested (map, mode), from the acquire log
fn templates(log: &[verif::Event]) -> Vec<Value> {
    use std::collections::HashMap;
    let mut held: HashMap<u32, Vec<(String, u32, bool)>> = HashMap::new();
    let mut out: BTreeSet<String> = BTreeSet::new();
    for e in log {
        let h = held.entry(e.thread).or_default();
        match e.what {
            "acq" => {
                if !h.is_empty() {
                    let hs: Vec<String> = h
                        .iter()
                        .map(|(m, _, w)| format!("{}:{}", m, if *w { "W" } else { "R" }))
                        .collect();
                    let same_shard = h.iter().any(|(m, s, _)| *m == e.map && *s == e.shard);
                    out.insert(
                        json!({"held": hs, "req": format!("{}:{}", e.map, if e.write { "W" } else { "R" }),
                               "same_shard_seen": same_shard})
                        .to_string(),
                    );
                }
                h.push((e.map.clone(), e.shard, e.write));
            }
            "rel" => {
                if let Some(pos) = h.iter().rposition(|(m, s, w)| *m == e.map && *s == e.shard && *w == e.write) {
                    h.remove(pos);
                }
            }
            _ => {}
        }
    }
    out.into_iter().map(|s| serde_json::from_str(&s).unwrap()).collect()
}

fn event_json(e: &verif::Event) -> Value {
    json!({"t": e.thread, "seq": e.seq, "map": e.map, "shard": e.shard,
           "mode": if e.write { "W" } else { "R" }, "ph": e.what, "note": e.note})
}

pub fn main(args: &[String]) {
    let path = args.first().expect("cases file");
    let reader = std::io::BufReader::new(std::fs::File::open(path).expect("open cases"));
    let out = std::io::stdout();
    let mut out = std::io::BufWriter::new(out.lock());
    verif::set_shard_amount(2);
    for line in reader.lines() {
        let line = line.expect("read");
        if line.trim().is_empty() {
            continue;
        }
        let case: Value = serde_json::from_str(&line).expect("case json");
        let sched = case.get("mode").and_then(|m| m.as_str()).unwrap_or("sched") == "sched";
        let one_shard = case.get("one_shard").and_then(|b| b.as_bool()).unwrap_or(false);
        verif::reset();
        verif::set_one_shard(one_shard);
        verif::set_mode(if sched { verif::MODE_SCHED } else { verif::MODE_TRACE });
        verif::set_thread(0);
        verif::set_yield_maps(
            arr(&case, "yield_maps").iter().filter_map(|x| x.as_str()).map(|x| x.to_string()).collect(),
        );
        let db = Arc::new(FixtureDatabase::new());
        register(&db);
        let pre = run_ops(&db, &arr(&case, "pre"));
        let _ = verif::take_log();
        let threads = arr(&case, "threads");
        let schedule: Vec<u32> = arr(&case, "schedule").iter().filter_map(|x| x.as_u64()).map(|x| x as u32).collect();
        let results: Arc<std::sync::Mutex<Vec<Vec<Value>>>> =
            Arc::new(std::sync::Mutex::new(vec![Vec::new(); threads.len()]));
        let (granted, deadlock, panics) = if sched && !threads.is_empty() {
            let mut bodies: Vec<Box<dyn FnOnce() + Send>> = Vec::new();
            for (i, t) in threads.iter().enumerate() {
                let db = Arc::clone(&db);
                let list = t.as_array().cloned().unwrap_or_default();
                let results = Arc::clone(&results);
                bodies.push(Box::new(move || {
                    let r = run_ops(&db, &list);
                    results.lock().unwrap()[i] = r;
                }));
            }
            verif::run_scheduled(schedule, bodies)
        } else {
            // trace mode: the thread programs run one after another on this thread
            for (i, t) in threads.iter().enumerate() {
                verif::set_thread((i + 1) as u32);
                let list = t.as_array().cloned().unwrap_or_default();
                let r = run_ops(&db, &list);
                results.lock().unwrap()[i] = r;
            }
            verif::set_thread(0);
            (Vec::new(), verif::deadlocked(), Vec::new())
        };
        let log = verif::take_log();
        verif::set_mode(verif::MODE_OFF);
        // NB: the placement mode must stay as it was while this database lives (keys were stored
        // under it); it is reset by the next case before a new database is created
        let post = run_ops(&db, &arr(&case, "post"));
        drop(db);
        verif::set_one_shard(false);
        let hazards: Vec<Value> = log.iter().filter(|e| e.what == "hazard" || e.what == "deadlock").map(event_json).collect();
        let results_v = results.lock().unwrap().clone();
        let mut res = json!({
            "id": case.get("id").cloned().unwrap_or(Value::Null),
            "granted": granted, "deadlock": deadlock || verif::deadlocked(),
            "panics": panics, "pre": pre, "threads": results_v, "post": post,
            "hazards": hazards, "templates": templates(&log), "acquisitions": log.iter().filter(|e| e.what == "acq").count(),
        });
        if case.get("log").and_then(|b| b.as_bool()).unwrap_or(false) {
            res["log"] = Value::Array(log.iter().map(event_json).collect());
        }
        writeln!(out, "{}", res).unwrap();
    }
    out.flush().unwrap();
}
