CONSTANTS
  MaxLen = 2
  Part = "slots"
SPECIFICATION Spec
CHECK_DEADLOCK FALSE
INVARIANTS
  TypeOK
  EmitCase
