------------------------------ MODULE History ------------------------------
(***************************************************************************)
(* M1 behaviours of the index under edit histories, cached queries, closes *)
(* and evictions (properties C06 C07 C19-model).  The state is the history *)
(* itself plus the implementation model's state after it, so every         *)
(* reachable state is one distinct history, and TLC visits ALL histories   *)
(* up to the length bound.  Everything is a pure function of the history   *)
(* (`Run`), which lets an invariant re-run a history under another set of  *)
(* enabled deviations (blame) or without its queries/closes (cold twin).   *)
(***************************************************************************)
EXTENDS Index, Json

CONSTANTS MaxLen,          \* bound on the history length
          EventKinds,      \* subset of {"edit","avail","goto","imported","close","evict","scan"}
          VersionsOf,      \* [Files -> Seq(Module)]
          DiskOf,          \* [Files -> Module or NoMod]: what is on disk (constant in a behaviour)
          HNames,
          MaxQueries       \* bound on the number of non-edit events in a history

VARIABLES hist, st

RECURSIVE SetToSeqH(_)
SetToSeqH(S) == IF S = {} THEN <<>> ELSE LET x == CHOOSE y \in S : TRUE IN <<x>> \o SetToSeqH(S \ {x})
vars == <<hist, st>>

\* the server starts by scanning what is on disk (scanner.rs phase 2: analyze_file_fresh per file)
ScanOrder == SetToSeqH({ f \in Files : DiskOf[f] # NoMod })
RECURSIVE ScanAll(_, _)
ScanAll(ix, o) == IF o = <<>> THEN ix ELSE ScanAll(AnalyzeFnD(ix, AllDevs, Head(o), DiskOf[Head(o)], FALSE), Tail(o))
\* with "scan" among the event kinds the server starts UNSCANNED and the workspace scan is an event of the
\* history (once): documents can be opened, edited and queried before the scan reaches the files
StartScanned == "scan" \notin EventKinds
InitSt == [ix |-> IF StartScanned THEN ScanAll(EmptyIndex(HNames, DiskOf), ScanOrder) ELSE EmptyIndex(HNames, DiskOf),
           scanned |-> StartScanned,
           lastValid |-> [f \in Files |-> IF DiskOf[f] # NoMod /\ DiskOf[f].valid THEN DiskOf[f] ELSE Absent],
           okOrder |-> ScanOrder, ans |-> <<>>]

IdView(val) == [n \in DOMAIN val |-> IdOf(val[n])]

Step(s, D, ev) ==
    CASE ev.t = "edit" ->
           LET m == VersionsOf[ev.f][ev.v]
           IN  [ix |-> AnalyzeFnD(s.ix, D, ev.f, m, TRUE),
                lastValid |-> IF m.valid THEN [s.lastValid EXCEPT ![ev.f] = m] ELSE s.lastValid,
                okOrder |-> IF m.valid THEN Append(SelectSeq(s.okOrder, LAMBDA g : g # ev.f), ev.f) ELSE s.okOrder,
                scanned |-> s.scanned,
                ans |-> <<>>]
      [] ev.t = "scan" -> [s EXCEPT !.ix = ScanFn(s.ix, D), !.scanned = TRUE, !.ans = <<>>]
      [] ev.t = "avail" ->
           \* get_available_fixtures (resolver.rs:463-492): version check, compute, store
           LET hit == s.ix.availC[ev.f].ver = s.ix.version
               r == ImplAvailableM(s.ix, D, s.ix.impC, ev.f)
               val == IF hit THEN s.ix.availC[ev.f].val ELSE IdView(r.val)
           IN  [s EXCEPT !.ix.availC[ev.f] = [ver |-> s.ix.version, val |-> val],
                         !.ix.impC = IF hit THEN @ ELSE r.memo,
                         !.ans = val]
      [] ev.t = "goto" ->
           LET r == ImplClosestM(s.ix, D, s.ix.impC, ev.f, ev.n, NoDef)
           IN  [s EXCEPT !.ix.impC = r.memo, !.ans = IdOf(r.rec)]
      [] ev.t = "imported" ->
           LET r == ImplImportedM(s.ix, D, s.ix.impC, ev.f)
           IN  [s EXCEPT !.ix.impC = r.memo, !.ans = r.set]
      [] ev.t = "cycles" ->
           \* detect_fixture_cycles (resolver.rs): cycle_cache is valid while the definitions version is unchanged
           LET hit == s.ix.cycC.ver = s.ix.version
               val == IF hit THEN s.ix.cycC.val ELSE ImplCycleNames(s.ix)
           IN  [s EXCEPT !.ix.cycC = [ver |-> s.ix.version, val |-> val], !.ans = val]
      \* didOpen of a document whose text is what is on disk (an UNMODIFIED document): main.rs analyses it like any other
      \* notification, i.e. the file's definitions are removed and registered again -- at the END of their vectors
      [] ev.t = "open" -> [s EXCEPT !.ix = AnalyzeFnD(s.ix, D, ev.f, DiskOf[ev.f], TRUE), !.ans = <<>>]
      [] ev.t = "close" -> [s EXCEPT !.ix = CloseFn(@, D, ev.f), !.ans = <<>>]
      \* didClose of a MODIFIED document (edits never saved): the same code path.  What a fresh server would answer afterwards is
      \* not judged (the index keeps the buffer's records, imports are read from disk again); judged is only that an EARLIER
      \* QUERY is invisible: the cold twin performs the same edits AND this close (EditsOf keeps it)
      [] ev.t = "closem" -> [s EXCEPT !.ix = CloseFn(@, D, ev.f), !.ans = <<>>]
      [] ev.t = "evict" -> [s EXCEPT !.ix = DropCaches(@, ev.f), !.ans = <<>>]

RECURSIVE RunFrom(_, _, _)
RunFrom(s, D, h) == IF h = <<>> THEN s ELSE RunFrom(Step(s, D, Head(h)), D, Tail(h))
Run(h, D) == RunFrom(InitSt, D, h)

IsQuery(ev) == ev.t \in {"avail", "goto", "imported", "cycles"}
EditsOf(h) == SelectSeq(h, LAMBDA ev : ev.t \in {"edit", "scan", "closem"})
NonEdits(h) == Len(SelectSeq(h, LAMBDA ev : ev.t \notin {"edit", "scan"}))

Ev(t, f, v, n) == [t |-> t, f |-> f, v |-> v, n |-> n]

Events(s) ==
    (IF "edit" \in EventKinds
     THEN UNION { { Ev("edit", f, v, "-") : v \in 1..Len(VersionsOf[f]) } : f \in Files }
     ELSE {})
    \cup (IF "avail" \in EventKinds THEN { Ev("avail", f, 0, "-") : f \in { g \in Files : RoleOf[g] \in {"test", "conftest"} } } ELSE {})
    \cup (IF "goto" \in EventKinds THEN { Ev("goto", f, 0, n) : f \in { g \in Files : RoleOf[g] = "test" }, n \in HNames } ELSE {})
    \cup (IF "imported" \in EventKinds THEN { Ev("imported", f, 0, "-") : f \in { g \in Files : RoleOf[g] = "conftest" } } ELSE {})
    \cup (IF "cycles" \in EventKinds THEN { Ev("cycles", "-", 0, "-") } ELSE {})
    \cup (IF "close" \in EventKinds
          THEN { Ev("close", f, 0, "-") : f \in { g \in Files : s.ix.cached[g] # NoMod /\ s.ix.cached[g] = DiskOf[g] } } ELSE {})
    \cup (IF "open" \in EventKinds
          THEN { Ev("open", f, 0, "-") : f \in { g \in Files : DiskOf[g] # NoMod /\ DiskOf[g].valid
                                                               /\ (s.ix.cached[g] = NoMod \/ s.ix.cached[g] = DiskOf[g]) } } ELSE {})
    \cup (IF "closem" \in EventKinds
          THEN { Ev("closem", f, 0, "-") : f \in { g \in Files : s.ix.cached[g] # NoMod /\ s.ix.cached[g] # DiskOf[g] } } ELSE {})
    \cup (IF "evict" \in EventKinds
          THEN { Ev("evict", f, 0, "-") : f \in { g \in Files : s.ix.cached[g] # NoMod /\ s.ix.cached[g] = DiskOf[g] } } ELSE {})
    \cup (IF "scan" \in EventKinds /\ ~s.scanned THEN { Ev("scan", "-", 0, "-") } ELSE {})

ValidEvent(ev) == ev.t # "edit" \/ ev.v \in 1..Len(VersionsOf[ev.f])

Init == hist = <<>> /\ st = InitSt
Next == /\ Len(hist) < MaxLen
        /\ \E ev \in { e \in Events(st) : ValidEvent(e) } :
             /\ (ev.t \notin {"edit", "scan"} => NonEdits(hist) < MaxQueries)
             /\ hist' = Append(hist, ev)
             /\ st' = Step(st, AllDevs, ev)
Spec == Init /\ [][Next]_vars

----------------------------------------------------------------------------
(* Projections *)
PrimaryOf(ix) == [defs |-> ix.defs, fdefs |-> ix.fdefs, usages |-> ix.usages,
                  ubfBag |-> [n \in DOMAIN ix.ubf |-> [f \in Files |-> SelectSeq(ix.ubf[n], LAMBDA x : x.file = f)]]]

\* the index a server started fresh on the latest valid content builds (files in the order of
\* their last successful analysis -- DESIGN.md section 3, interpretation of C06/C08)
FreshOf(s, D) ==
    LET RECURSIVE B(_, _)
        B(ix, o) == IF o = <<>> THEN ix ELSE B(AnalyzeFnD(ix, D, Head(o), s.lastValid[Head(o)], TRUE), Tail(o))
    IN  B(EmptyIndex(HNames, DiskOf), s.okOrder)

\* C06 (model): after ANY history the primary maps equal those of the fresh index
HistoryIndependent == PrimaryOf(st.ix) = PrimaryOf(FreshOf(st, AllDevs))

\* C06, second clause (model): the undeclared-fixture findings of the document changed last are those a fresh server
\* produces when it analyses that document last (okOrder ends with it)
UndeclIndependent ==
    (hist # <<>> /\ hist[Len(hist)].t = "edit" /\ VersionsOf[hist[Len(hist)].f][hist[Len(hist)].v].valid) =>
        st.ix.undecl[hist[Len(hist)].f] = FreshOf(st, AllDevs).undecl[hist[Len(hist)].f]

\* C04 (model): the reverse index mirrors the per-file usages in every reachable state
MirrorAlways ==
    \A n \in HNames : \A f \in Files :
        SelectSeq(st.ix.ubf[n], LAMBDA x : x.file = f) = SelectSeq(st.ix.usages[f], LAMBDA x : x.name = n)
NoDangling ==
    \A f \in Files : st.ix.fdefs[f] = { n \in HNames : \E j \in 1..Len(st.ix.defs[n]) : st.ix.defs[n][j].file = f }

\* Refinement: the SET abstraction of the four shared maps moves by the actions of MirrorInd.tla (whose Mirror / DefKeyed
\* Apalache proves inductive): every step of a history that is not the multi-analysis `scan` event is one AnalyzeCleanup,
\* a parse failure, or leaves the abstraction unchanged.  Checked by TLC as an action property on every transition.
AbsDefs(ix)  == UNION { { <<n, ix.defs[n][j].file>> : j \in 1..Len(ix.defs[n]) } : n \in HNames }
AbsFdefs(ix) == UNION { { <<f, n>> : n \in ix.fdefs[f] } : f \in Files }
AbsUses(ix)  == UNION { { <<f, ix.usages[f][j].name>> : j \in 1..Len(ix.usages[f]) } : f \in Files }
AbsUbf(ix)   == UNION { { <<n, ix.ubf[n][j].file>> : j \in 1..Len(ix.ubf[n]) } : n \in HNames }
MI == INSTANCE MirrorInd WITH Files <- Files, Names <- HNames, defs <- AbsDefs(st.ix), fdefs <- AbsFdefs(st.ix),
                              uses <- AbsUses(st.ix), ubf <- AbsUbf(st.ix)
RefinesMirrorInd ==
    [][ (hist' # hist /\ hist'[Len(hist')].t # "scan") => (MI!Next \/ UNCHANGED MI!vars) ]_vars
AbsInv == MI!Mirror /\ MI!DefKeyed

\* C07 (repaired design): the answer of the LAST event, if it is a query, equals the answer of the
\* same query after only the edits of the history (no earlier queries, closes, evictions), all
\* under the repaired design D = {}
LastEv == hist[Len(hist)]
ColdAnswer(D) == Step(Run(EditsOf(SubSeq(hist, 1, Len(hist) - 1)), D), D, LastEv).ans
WarmAnswer(D) == Run(hist, D).ans
WarmEqualsColdRepaired ==
    (hist # <<>> /\ IsQuery(LastEv)) => WarmAnswer({}) = ColdAnswer({})

\* C06 (repaired design): navigation answers equal layer R on the latest valid content
WsNow == st.lastValid
RepairedHistoryEqualsR ==
    (hist # <<>> /\ LastEv.t = "goto" /\ st.scanned /\ StartScanned) =>
        Run(hist, {}).ans \in PyResolveSet(WsNow, LastEv.f, LastEv.n, NoDef)

----------------------------------------------------------------------------
(* Emission for the replayer: one line per history that ends in a query (C07) or per history     *)
(* of edits (C06)                                                                                *)
BlameH(good(_)) ==
    LET single == { d \in AllDevs : good(AllDevs \ {d}) }
    IN  IF single # {} THEN single ELSE { d \in AllDevs : ~good({d}) }

QueryJson ==
    LET impl == st.ans
        cold == ColdAnswer(AllDevs)
    IN  [hist |-> hist, kind |-> "query", impl |-> impl, cold |-> cold,
         blame |-> IF impl = cold THEN {} ELSE BlameH(LAMBDA D : WarmAnswer(D) = ColdAnswer(D))]

\* what the long-lived index and the fresh index answer (model of the code as it is), per
\* view file and per (test file, name), and which deviations make them differ
ViewFiles == { f \in Files : RoleOf[f] \in {"test", "conftest"} }
TestFiles == { f \in Files : RoleOf[f] = "test" }
AvailOn(ix, D, f) == IdView(ImplAvailable(ix, D, f))
GotoOn(ix, D, f, n) == IdOf(ImplClosest(ix, D, f, n, NoDef))
EditJson ==
    LET fresh == FreshOf(st, AllDevs)
        SameUnder(D) == LET s2 == Run(hist, D)
                            f2 == FreshOf(s2, D)
                        IN  /\ \A f \in ViewFiles : AvailOn(s2.ix, D, f) = AvailOn(f2, D, f)
                            /\ \A f \in TestFiles : \A n \in HNames : GotoOn(s2.ix, D, f, n) = GotoOn(f2, D, f, n)
        same == /\ \A f \in ViewFiles : AvailOn(st.ix, AllDevs, f) = AvailOn(fresh, AllDevs, f)
                /\ \A f \in TestFiles : \A n \in HNames : GotoOn(st.ix, AllDevs, f, n) = GotoOn(fresh, AllDevs, f, n)
    IN  [hist |-> hist, kind |-> "edits", okOrder |-> st.okOrder,
         lastValid |-> [f \in { g \in Files : st.lastValid[g].present } |-> st.lastValid[f]],
         defs |-> [n \in HNames |-> [j \in 1..Len(st.ix.defs[n]) |-> IdOf(st.ix.defs[n][j])]],
         availImpl |-> [f \in ViewFiles |-> AvailOn(st.ix, AllDevs, f)],
         availFresh |-> [f \in ViewFiles |-> AvailOn(fresh, AllDevs, f)],
         gotoImpl |-> [f \in TestFiles |-> [n \in HNames |-> GotoOn(st.ix, AllDevs, f, n)]],
         gotoFresh |-> [f \in TestFiles |-> [n \in HNames |-> GotoOn(fresh, AllDevs, f, n)]],
         blame |-> IF same THEN {} ELSE BlameH(SameUnder)]

\* C06 (repaired design): answers after any history equal the fresh server's
RepairedHistoryIndependent ==
    LET s2 == Run(hist, {})
        f2 == FreshOf(s2, {})
    IN  /\ \A f \in ViewFiles : AvailOn(s2.ix, {}, f) = AvailOn(f2, {}, f)
        /\ \A f \in TestFiles : \A n \in HNames : GotoOn(s2.ix, {}, f, n) = GotoOn(f2, {}, f, n)

EmitTables ==
    hist = <<>> => /\ PrintT("VERSIONS " \o ToJson(VersionsOf))
                   /\ PrintT("DISK " \o ToJson([f \in { g \in Files : DiskOf[g] # NoMod } |-> DiskOf[f]]))

EmitHist ==
    hist # <<>> =>
      IF IsQuery(LastEv) THEN PrintT("CASE " \o ToJson(QueryJson))
      ELSE IF "edit" \in EventKinds /\ NonEdits(hist) = 0 /\ MaxQueries = 0 THEN PrintT("CASE " \o ToJson(EditJson))
      ELSE TRUE

----------------------------------------------------------------------------
(* Model constants: conftest c (R/a), helper h (R/a, imported by c), test t (R/a/b) *)
HFiles == {"c", "h", "t"}
HDirs  == {"Ra", "Rab"}
HDirOf == [f \in HFiles |-> IF f = "t" THEN "Rab" ELSE "Ra"]
HParentOf == [d \in HDirs |-> IF d = "Rab" THEN "Ra" ELSE "NODIR"]
HRoleOf == [f \in HFiles |-> CASE f = "c" -> "conftest" [] f = "t" -> "test" [] OTHER -> "module"]
HNamesMC == {"n", "x"}

\* versions chosen to add / remove / rename / move fixtures and usages, change only imports,
\* break and repair syntax, re-send identical text (the same v twice)
HVersions ==
    [f \in HFiles |->
       CASE f = "c" -> << Module(<<PlainDef("n", <<>>)>>),
                          Module(<<PlainDef("n", <<>>), PlainDef("x", <<"n">>)>>),
                          Module(<<PlainDef("x", <<>>)>>),
                          Module(<<Star("h")>>),
                          Broken(<<Star("h")>>),
                          Module(<<PlainDef("x", <<>>), PlainDef("n", <<>>)>>) >>
         [] f = "t" -> << Module(<<Test("test_1", <<"n">>)>>),
                          Module(<<PlainDef("n", <<>>), Test("test_1", <<"n">>)>>),
                          Module(<<Test("test_1", <<"x">>)>>),
                          Broken(<<Test("test_1", <<"n">>)>>),
                          Module(<<Test("test_1", <<"n">>), Test("test_2", <<"n", "x">>)>>),
                          \* bodies that USE names without declaring them (undeclared-fixture findings are index state):
                          \* with no same-file fixture; below a same-file fixture of another name
                          \* (a same-file fixture counts only once it has been recorded: the one BELOW the use does not)
                          Module(<<TestB("test_1", <<>>, <<"n", "x">>)>>),
                          Module(<<PlainDef("x", <<>>), TestB("test_1", <<>>, <<"n", "x">>), PlainDef("n", <<>>)>>) >>
         [] f = "h" -> << Module(<<PlainDef("n", <<>>)>>),
                          Module(<<PlainDef("x", <<>>)>>),
                          Module(<<>>),
                          Broken(<<PlainDef("n", <<>>)>>),
                          Module(<<PlainDef("n", <<>>), PlainDef("x", <<>>)>>) >>]
HNoDisk == [f \in HFiles |-> NoMod]

\* C07: files are on disk (so a closed or evicted document is read back from disk);
\* c star-imports h, h defines n; mutually importing variant in HVersionsCyc
HVersions7 ==
    [f \in HFiles |->
       CASE f = "c" -> << Module(<<Star("h")>>),
                          Module(<<PlainDef("x", <<>>), Star("h")>>),
                          Module(<<PlainDef("n", <<>>)>>),
                          Module(<<>>),
                          \* the same fixture NAMES with and without a dependency cycle between them
                          Module(<<PlainDef("n", <<"x">>), PlainDef("x", <<"n">>)>>),
                          Module(<<PlainDef("n", <<"x">>), PlainDef("x", <<>>)>>),
                          \* the importing conftest goes UNPARSABLE (its star import is still in the text): whatever a query made
                          \* of the parsable version before must not be served now
                          Broken(<<Star("h")>>) >>
         \* the test module ON DISK imports the fixture BY NAME itself (`from ..helperh import n`): whatever a server makes of
         \* a module's own imports must survive closing the unmodified document (close events need the disk version)
         [] f = "t" -> << Module(<<Spelled(Imp("h", "n"), 2), Test("test_1", <<"n">>)>>),
                          Module(<<PlainDef("x", <<>>), Test("test_1", <<"n", "x">>)>>) >>
         [] f = "h" -> << Module(<<PlainDef("n", <<>>)>>),
                          Module(<<PlainDef("n", <<>>), Star("c")>>),
                          Module(<<PlainDef("x", <<>>)>>),
                          Module(<<Star("c")>>) >>]
HDisk7 == [f \in HFiles |-> HVersions7[f][1]]
HKindsEdit == {"edit"}
HKinds7 == {"edit", "avail", "goto", "imported", "cycles", "close", "evict"}
HKinds7Mod == {"edit", "avail", "goto", "imported", "closem"}
HKinds7Scan == {"avail", "goto", "imported", "close", "evict", "scan", "edit"}

\* C07, conftest CHAIN universe: c0 (R) and c1 (R/a) both star-import the shared module m (R/a), which
\* re-exports the base module d (R/a); tests t0 (R, sees only c0) and t1 (R/a, sees c1 then c0).  A walk
\* for t1 passes through m twice (once per conftest); what it memoises must not change what t0 is told.
H2Files == {"c0", "c1", "m", "d", "t0", "t1"}
H2Dirs  == {"R", "Ra"}
H2DirOf == [f \in H2Files |-> IF f \in {"c0", "t0"} THEN "R" ELSE "Ra"]
H2ParentOf == [d \in H2Dirs |-> IF d = "Ra" THEN "R" ELSE "NODIR"]
H2RoleOf == [f \in H2Files |-> CASE f \in {"c0", "c1"} -> "conftest" [] f \in {"t0", "t1"} -> "test" [] OTHER -> "module"]
H2Versions ==
    [f \in H2Files |->
       CASE f = "c0" -> << Module(<<Star("m")>>) >>
         [] f = "c1" -> << Module(<<Star("m")>>), Module(<<PlainDef("x", <<>>), Star("m")>>), Module(<<Star("d")>>) >>
         [] f = "m"  -> << Module(<<PlainDef("x", <<>>), Star("d")>>), Module(<<Star("d")>>) >>
         [] f = "d"  -> << Module(<<PlainDef("n", <<>>)>>) >>
         [] f = "t0" -> << Module(<<Test("test_1", <<"n", "x">>)>>) >>
         [] f = "t1" -> << Module(<<Test("test_1", <<"n", "x">>)>>) >>]
H2Disk == [f \in H2Files |-> H2Versions[f][1]]
HKinds2 == {"edit", "avail", "goto", "imported", "close", "open"}
=============================================================================
