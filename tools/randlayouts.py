"""Seeded random workspaces for spec/RandomLayouts.tla (same file slots as the Layouts table, arbitrary compositions
inside the judged universe of DESIGN.md Appendix A.3).  TLC evaluates layer R, layer I and the blame on each of them and
prints the same case lines as Layouts.tla, so the replayers of tools/layouts.py judge them unchanged."""
import hashlib
import json
import os
import random

import common as C

NAMES = ["n", "w", "x"]
CONF = ["c0", "c1", "c2"]
HELP = {"c0": "h0", "c1": "h1", "c2": "h2"}


def item(k, name="-", deps=(), scope=0, autouse=False, mod="-", marks=(), cmarks=(), ind=()):
    return {"k": k, "name": name, "deps": list(deps), "scope": scope, "autouse": autouse, "mod": mod,
            "marks": list(marks), "cmarks": list(cmarks), "ind": list(ind)}


def module(items):
    return {"present": True, "valid": True, "items": items}


def rand_def(rnd, name, allow_self=True):
    deps = []
    r = rnd.random()
    if r < 0.25 and allow_self:
        deps = [name]                                       # self-requesting override
    elif r < 0.45:
        deps = [rnd.choice([m for m in NAMES if m != name])]
    elif r < 0.52 and allow_self:
        deps = [rnd.choice([m for m in NAMES if m != name]), name]
    return item("def", name=name, deps=deps, scope=rnd.choice([0, 0, 0, 2, 4]), autouse=rnd.random() < 0.08)


def rand_uses(rnd, k):
    out = []
    for j in range(k):
        r = rnd.random()
        nm = rnd.sample(NAMES, rnd.randint(1, 2))
        if r < 0.55:
            out.append(item("test", name="test_%d" % (j + 1), deps=nm))
        elif r < 0.70:
            out.append(item("test", name="test_%d" % (j + 1), deps=[], marks=nm))
        elif r < 0.80:
            out.append(item("test", name="test_%d" % (j + 1), deps=[], cmarks=nm[:1]))
        elif r < 0.88:
            out.append(item("test", name="test_%d" % (j + 1), deps=nm[:1], marks=nm[:1], ind=nm[:1]))
        elif not any(x["k"] == "pmark" for x in out):
            out.append(item("pmark", marks=nm[:1]))            # at most one pytestmark assignment per module
            out.append(item("test", name="test_%d" % (j + 1), deps=[]))
        else:
            out.append(item("test", name="test_%d" % (j + 1), deps=nm))
    return out


def gen_workspace(rnd):
    ws = {}
    helper_defs = {}
    # helper modules first (what an import can deliver)
    for c in CONF:
        h = HELP[c]
        if rnd.random() < 0.45:
            names = rnd.sample(NAMES, rnd.randint(1, 2))
            items = [rand_def(rnd, nm, allow_self=False) for nm in names]
            if h == "h1" and rnd.random() < 0.3:
                hh_names = rnd.sample(NAMES, rnd.randint(1, 2))
                ws["hh"] = module([rand_def(rnd, nm, allow_self=False) for nm in hh_names])
                # h1 re-exports hh: star, or an explicit import of a name hh defines that h1 does not define itself
                # a module that imports does not itself request names (what a NON-conftest module's own imports deliver to
                # its own usages is C14's subject, not this table's)
                for it in items:
                    it["deps"] = []
                free = [nm for nm in hh_names if nm not in names]
                if rnd.random() < 0.5:
                    if not (set(hh_names) & set(names)):
                        items.append(item("star", mod="hh"))
                        names = names + hh_names
                elif free:
                    items.append(item("imp", name=free[0], mod="hh"))
                    names = names + [free[0]]
            ws[h] = module(items)
            helper_defs[h] = names
    for c in CONF:
        r = rnd.random()
        if r < 0.25:
            continue
        items = []
        h = HELP[c]
        provided = set()
        if h in ws and rnd.random() < 0.7:
            r2 = rnd.random()
            if r2 < 0.5:
                items.append(item("star", mod=h))
                provided |= set(helper_defs[h])
            elif r2 < 0.85 or c != "c0":
                nm = rnd.choice(helper_defs[h])
                items.append(item("imp", name=nm, mod=h))
                provided.add(nm)
            else:
                items.append(item("plugins", mod=h))          # pytest_plugins: rootmost conftest only
                provided |= set(helper_defs[h])
        own = [nm for nm in NAMES if nm not in provided and rnd.random() < 0.5]
        defs = []
        for nm in own:
            defs.append(rand_def(rnd, nm))
            if rnd.random() < 0.12:
                defs.append(rand_def(rnd, nm))                 # redefinition in the same conftest: the last one counts
        rnd.shuffle(defs)
        # imports before or after the definitions
        items = (items + defs) if rnd.random() < 0.7 else (defs + items)
        if c == "c2" and rnd.random() < 0.25:
            items = items + rand_uses(rnd, 1)                  # the conftest itself as a using file
        if items:
            ws[c] = module(items)
    # unused helper modules disappear (nobody imports them) unless kept as unrelated definers
    for c in CONF:
        h = HELP[c]
        if h in ws and not any(it["mod"] == h for it in ws.get(c, {"items": []})["items"]):
            if rnd.random() < 0.6:
                del ws[h]
                if h == "h1":
                    ws.pop("hh", None)
    if "hh" in ws and "h1" not in ws:
        del ws["hh"]
    # the using test module: own definitions mixed with its usages
    own = [rand_def(rnd, nm) for nm in NAMES if rnd.random() < 0.3]
    if own and rnd.random() < 0.2:
        own.append(rand_def(rnd, own[0]["name"]))
    uses = rand_uses(rnd, rnd.randint(1, 3))
    mixed = own + uses
    if rnd.random() < 0.4:
        rnd.shuffle(mixed)
        # a pytestmark item must stay directly in front of the test it was generated with: re-pair
        mixed = [x for x in mixed if x["k"] != "pmark"]
    ws["u"] = module(mixed)
    for slot, p in (("o", 0.3), ("t0", 0.3), ("t1", 0.3)):
        if rnd.random() < p:
            its = [rand_def(rnd, nm) for nm in NAMES if rnd.random() < (0.4 if slot == "o" else 0.15)]
            ws[slot] = module(its + rand_uses(rnd, rnd.randint(1, 2)))
    for slot, p in (("cs", 0.35), ("m", 0.2), ("pl", 0.3), ("tp", 0.35), ("tp2", 0.12)):
        if rnd.random() < p:
            names = rnd.sample(NAMES, rnd.randint(1, 2))
            ws[slot] = module([rand_def(rnd, nm, allow_self=(slot in ("cs", "pl"))) for nm in names])
    if rnd.random() < 0.1:
        ws["tpi"] = module([item("def", name="w", deps=["n"])])
    return ws


def gen_cases(seed, n_ws, orders):
    rnd = random.Random(seed * 104729 + 17)
    out = []
    for i in range(n_ws):
        ws = gen_workspace(rnd)
        files = sorted(ws)
        seen = set()
        for k in range(orders):
            o = list(files)
            if k == 1:
                o.reverse()
            elif k >= 2:
                rnd.shuffle(o)
            if tuple(o) in seen:
                continue
            seen.add(tuple(o))
            out.append({"shape": {"random_workspace": i, "seed": seed}, "order": o, "ws": ws})
    return out


def load_cases(tier, tag="rl"):
    """-> run_tlc meta of RandomLayouts on the seeded workspaces of this tier"""
    n_ws, orders = (1200, 2) if tier == "quick" else (20000, 3)
    cases = gen_cases(C.seed(), n_ws, orders)
    blob = "".join(json.dumps(c, sort_keys=True) + "\n" for c in cases)
    h = hashlib.sha256(blob.encode()).hexdigest()[:16]
    d = os.path.join(C.BUILD, "tmp")
    os.makedirs(d, exist_ok=True)
    path = os.path.join(d, "rcases-%s.ndjson" % h)
    if not os.path.exists(path):
        with open(path + ".%d" % os.getpid(), "w") as fh:
            fh.write(blob)
        os.replace(path + ".%d" % os.getpid(), path)
    meta = C.run_tlc("RandomLayouts", "RandomLayouts.cfg", workers=12, timeout=7200, env_extra={"RCASES": path, "JAVA_TOOL_OPTIONS": "-Xss512m"})
    if not meta["ok"]:
        raise C.ToolError("TLC on RandomLayouts failed: %s" % meta["errors"])
    return meta


if __name__ == "__main__":
    import sys
    cs = gen_cases(int(sys.argv[1]) if len(sys.argv) > 1 else 0, 5, 1)
    import render as R
    for c in cs:
        print("=" * 70, c["order"])
        for s, m in c["ws"].items():
            print("---", s)
            print(R.render_checked(R.LAYOUT_UNIVERSE, s, m).text)
