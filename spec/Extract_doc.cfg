CONSTANTS
  Group = "doc"
SPECIFICATION Spec
CHECK_DEADLOCK FALSE
INVARIANTS
  RulesConsistent
  EmitCase
