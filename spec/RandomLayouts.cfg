CONSTANTS
  Files <- MCFiles
  Dirs <- MCDirs
  DirOf <- MCDirOf
  ParentOf <- MCParentOf
  RoleOf <- MCRoleOf
  MaxDefiners = 99
  Emit <- MCEmitAll
  Levels <- MCLevelsFull
  LevelsB <- MCLevelsSmall
  SameKinds <- MCSameKinds
  ExtraSets <- MCExtraAll
  ExtraSetsB <- MCExtraFew
  UseKinds <- MCUseKinds
  UFiles <- MCUFiles
  ExtraUsers = FALSE
  Revs <- MCRevNo
  OrderMode = "all"
INIT RInit
NEXT RNext
CHECK_DEADLOCK FALSE
INVARIANTS
  RefNegativeClause
  RepairedEqualsR
  RepairedViewsAgree
  Mirror
  RefsInverse
  IndexComplete
  EmitCase
