---------------------------- MODULE HistoryTrace ----------------------------
(***************************************************************************)
(* B2: implementation -> specification.  Executions of the REAL library    *)
(* that were not produced by TLC (seeded random histories, longer and over *)
(* more versions than the exhaustive bound of History.tla) are recorded as *)
(* ndjson, one event per public call with its arguments and the projected  *)
(* state / the answer, and validated here: every event must be explained   *)
(* by the corresponding action of Index.tla (layer I, the code as it is),  *)
(* the projected state must EQUAL the model's state after every analysis,  *)
(* every query answer must equal the model's answer, and the invariants of *)
(* IndexProps are evaluated in every state of the validated trace.         *)
(*   TRACE=<file> tlc -config HistoryTrace.cfg HistoryTrace.tla            *)
(***************************************************************************)
EXTENDS Index, Json, IOUtils

CONSTANTS TNames

\* model constants: two conftest levels, helper, two test files (more than History.tla's exhaustive universe)
TFiles == {"c0", "c", "h", "t", "t2"}
TDirs == {"R", "Ra", "Rab"}
TDirOf == [f \in TFiles |-> CASE f = "c0" -> "R" [] f \in {"c", "h", "t2"} -> "Ra" [] f = "t" -> "Rab"]
TParentOf == [d \in TDirs |-> CASE d = "Rab" -> "Ra" [] d = "Ra" -> "R" [] OTHER -> "NODIR"]
TRoleOf == [f \in TFiles |-> CASE f \in {"c0", "c"} -> "conftest" [] f \in {"t", "t2"} -> "test" [] OTHER -> "module"]
TNamesMC == {"n", "x", "y"}

Rec == ndJsonDeserialize(IOEnv.TRACE)

VARIABLES ix, l
vars == <<ix, l>>

Fresh == EmptyIndex(TNames, [f \in Files |-> NoMod])
RangeOf(s) == { s[i] : i \in 1..Len(s) }

\* the projection the harness logs after an analysis (tools/histories.py project())
DefsView(x) == [n \in TNames |-> [j \in 1..Len(x.defs[n]) |-> [file |-> x.defs[n][j].file, idx |-> x.defs[n][j].idx]]]
UsesView(x) == [f \in Files |-> [j \in 1..Len(x.usages[f]) |->
                   [idx |-> x.usages[f][j].idx, uk |-> x.usages[f][j].uk, ui |-> x.usages[f][j].ui, name |-> x.usages[f][j].name]]]
UbfBag(x, n, f) == LET s == SelectSeq(x.ubf[n], LAMBDA u : u.file = f) IN
                   [j \in 1..Len(s) |-> [idx |-> s[j].idx, uk |-> s[j].uk, ui |-> s[j].ui, name |-> s[j].name]]

\* What is compared and what is merely ADOPTED from the log.  The properties speak about which
\* definitions / usages exist and about answers, not about vector order or the numeric value of the
\* version counter.  So after an analysis the per-key BAGS of the model and of the logged projection
\* must be equal; the logged vector ORDER and version NUMBER are adopted into the model state (they
\* then drive the model's order-dependent picks and cache hits exactly like the code's), with one
\* obligation: whenever the model invalidates (bumps the version) the logged version must have grown.
BagOf(seq) == [v \in RangeOf(seq) |-> Cardinality({ i \in 1..Len(seq) : seq[i] = v })]
SameBag(a, b) == BagOf(a) = BagOf(b)

Matches(x, post, prevVersion) ==
    /\ \A n \in TNames : SameBag(DefsView(x)[n], post.defs[n])
    /\ \A f \in Files : x.fdefs[f] = RangeOf(post.fdefs[f])
    /\ \A f \in Files : SameBag(UsesView(x)[f], post.usages[f])
    /\ \A n \in TNames : \A f \in Files : SameBag(UbfBag(x, n, f), post.ubf[n][f])
    \* undeclared-fixture findings (computed while the module is walked, against the index as it is then)
    /\ \A f \in Files : SameBag(x.undecl[f], post.undecl[f])
    /\ post.version >= prevVersion
    /\ (x.version > prevVersion => post.version > prevVersion)

\* reorder a model sequence like the logged one (same bag): the k-th logged id takes the model record
\* with that id (records with equal ids are identical)
PickDef(seq, id) == seq[CHOOSE j \in 1..Len(seq) : seq[j].file = id.file /\ seq[j].idx = id.idx]
PickUse(seq, u)  == seq[CHOOSE j \in 1..Len(seq) : seq[j].idx = u.idx /\ seq[j].uk = u.uk /\ seq[j].ui = u.ui /\ seq[j].name = u.name]
Adopt(x, post) ==
    [x EXCEPT !.defs = [n \in TNames |-> [j \in 1..Len(post.defs[n]) |-> PickDef(x.defs[n], post.defs[n][j])]],
              !.usages = [f \in Files |-> [j \in 1..Len(post.usages[f]) |-> PickUse(x.usages[f], post.usages[f][j])]],
              !.version = post.version]

Init == ix = Fresh /\ l = 1

Step ==
    /\ l <= Len(Rec)
    /\ l' = l + 1
    /\ LET e == Rec[l] IN
       CASE e.ev = "reset" -> ix' = Fresh
         [] e.ev = "analyze" ->
              LET m1 == AnalyzeFnD(ix, AllDevs, e.f, e.m, e.cleanup)
              IN  /\ Matches(m1, e.post, ix.version)
                  /\ ix' = Adopt(m1, e.post)
         [] e.ev = "close" -> ix' = CloseFn(ix, AllDevs, e.f)
         [] e.ev = "evict" -> ix' = DropCaches(ix, e.f)       \* one victim of evict_cache_if_needed (mod.rs:336-343)
         [] e.ev = "refs" ->
              \* find_references_for_definition of the definition recorded at (e.f, e.idx) under name e.n
              LET cands == { j \in 1..Len(ix.defs[e.n]) : ix.defs[e.n][j].file = e.f /\ ix.defs[e.n][j].idx = e.idx }
              IN  /\ cands # {}
                  /\ LET r == ix.defs[e.n][CHOOSE j \in cands : TRUE]
                         s == ImplRefsSeq(ix, AllDevs, r)
                     IN  SameBag([j \in 1..Len(s) |-> [file |-> s[j].file, idx |-> s[j].idx, uk |-> s[j].uk, ui |-> s[j].ui]], e.ans)
                  /\ ix' = ix
         [] e.ev = "unused" ->
              /\ ImplUnused(ix, AllDevs) = RangeOf(e.ans)
              /\ ix' = ix
         [] e.ev = "goto" ->
              \* find_fixture_definition at the logged usage (self-named fixture parameters resolve outward)
              LET r == ImplGotoAtM(ix, AllDevs, ix.impC, UseRec(e.f, e.idx, "p", e.ui, e.n))
              IN  /\ [file |-> r.rec.file, idx |-> r.rec.idx] = e.ans
                  /\ ix' = [ix EXCEPT !.impC = r.memo]
         [] e.ev = "avail" ->
              LET hit == ix.availC[e.f].ver = ix.version
                  r == ImplAvailableM(ix, AllDevs, ix.impC, e.f)
                  val == IF hit THEN ix.availC[e.f].val ELSE [n \in TNames |-> IdOf(r.val[n])]
              IN  /\ \A n \in TNames : val[n] = e.ans[n]
                  /\ ix' = [ix EXCEPT !.availC[e.f] = [ver |-> ix.version, val |-> val],
                                      !.impC = IF hit THEN @ ELSE r.memo]
         [] e.ev = "imported" ->
              LET r == ImplImportedM(ix, AllDevs, ix.impC, e.f)
              IN  /\ r.set = RangeOf(e.ans)
                  /\ ix' = [ix EXCEPT !.impC = r.memo]
Next == Step
Spec == Init /\ [][Next]_vars

\* IndexProps evaluated in every state of the validated trace
TMirror ==
    \A n \in TNames : \A f \in Files :
        SelectSeq(ix.ubf[n], LAMBDA x : x.file = f) = SelectSeq(ix.usages[f], LAMBDA x : x.name = n)
TNoDangling ==
    \A f \in Files : ix.fdefs[f] = { n \in TNames : \E j \in 1..Len(ix.defs[n]) : ix.defs[n][j].file = f }
TVersionMonotone == ix.version >= 0

\* acceptance: every line of the trace was consumed
TraceAccepted ==
    LET d == TLCGet("stats").diameter - 1 IN
    IF d = Len(Rec) THEN TRUE
    ELSE Print(<<"TRACE-REJECTED first unmatched event (1-based line)", d + 1, Rec[d + 1]>>, FALSE)
=============================================================================
