CONSTANTS
  Mods = {"a", "b", "c"}
SPECIFICATION Spec
INVARIANTS
  BoundedStack
  VisitsReachable
PROPERTIES
  Terminates
CHECK_DEADLOCK FALSE
