CONSTANTS
  DevsOn <- MCDevsNow
SPECIFICATION Spec
CHECK_DEADLOCK FALSE
INVARIANTS
  RepairedRelocationInvariant
  FaultIsolation
  RepairedEqualsR
  EmitCase
  EmitAlphabet
