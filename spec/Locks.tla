-------------------------------- MODULE Locks --------------------------------
(***************************************************************************)
(* C12 (i): can the lock nestings the implementation performs deadlock     *)
(* under SOME schedule and SOME key->shard placement?                      *)
(*                                                                         *)
(* The shard lock is dashmap 6.1.0's RawRwLock (src/lock.rs): READER       *)
(* PREFERRING -- a reader is admitted whenever no writer HOLDS the lock,   *)
(* even if a writer is parked; a writer needs the lock free.               *)
(*                                                                         *)
(* Threads repeatedly execute NESTING TEMPLATES.  A template is            *)
(* [held : Seq([map, mode]), req : [map, mode]] : "while holding these     *)
(* guards (acquired in this order), request that lock".  The template set  *)
(* is NOT hand written: MC_Locks_gen.tla is generated at check time from   *)
(* the lock-event traces of the current code (tools/concchecks.py).  The   *)
(* shard of every acquisition is chosen nondeterministically, including    *)
(* "same shard as a lock already held on that map".                        *)
(***************************************************************************)
EXTENDS Naturals, Sequences, FiniteSets, TLC

CONSTANTS Templates, Threads, Shards

VARIABLES th,      \* per thread: [tpl, pos, held : Seq([map, shard, mode]), want : [map, shard, mode] or NoReq]
          locks    \* [<<map, shard>> -> [readers : Nat, writer : BOOLEAN]] as a function over used locks
vars == <<th, locks>>

NoReq == [map |-> "-", shard |-> 0, mode |-> "-"]
Idle  == [tpl |-> 0, pos |-> 0, held |-> <<>>, want |-> NoReq]
TplSeq == Templates      \* a sequence of templates
Maps == { TplSeq[i].req.map : i \in 1..Len(TplSeq) } \cup UNION { { TplSeq[i].held[j].map : j \in 1..Len(TplSeq[i].held) } : i \in 1..Len(TplSeq) }
LockIds == Maps \X Shards

Init == th = [t \in Threads |-> Idle] /\ locks = [l \in LockIds |-> [readers |-> 0, writer |-> FALSE]]

ReqAt(i, pos) == IF pos <= Len(TplSeq[i].held) THEN TplSeq[i].held[pos] ELSE TplSeq[i].req
Compatible(l, mode) == IF mode = "R" THEN ~locks[l].writer ELSE (~locks[l].writer /\ locks[l].readers = 0)

\* an idle thread starts a template and announces its first request (shard chosen freely)
Start(t) ==
    /\ th[t].tpl = 0
    /\ \E i \in 1..Len(TplSeq) : \E s \in Shards :
         th' = [th EXCEPT ![t] = [tpl |-> i, pos |-> 1, held |-> <<>>,
                                  want |-> [map |-> ReqAt(i, 1).map, shard |-> s, mode |-> ReqAt(i, 1).mode]]]
    /\ UNCHANGED locks

\* the pending request is granted
Acquire(t) ==
    LET w == th[t].want
        l == <<w.map, w.shard>>
        i == th[t].tpl
        np == th[t].pos + 1
    IN  /\ i # 0 /\ w # NoReq
        /\ Compatible(l, w.mode)
        /\ locks' = [locks EXCEPT ![l] = IF w.mode = "R" THEN [@ EXCEPT !.readers = @ + 1] ELSE [@ EXCEPT !.writer = TRUE]]
        /\ IF np <= Len(TplSeq[i].held) + 1
           THEN \E s \in Shards :
                  th' = [th EXCEPT ![t] = [@ EXCEPT !.pos = np, !.held = Append(@, w),
                                                    !.want = [map |-> ReqAt(i, np).map, shard |-> s, mode |-> ReqAt(i, np).mode]]]
           ELSE th' = [th EXCEPT ![t] = [@ EXCEPT !.pos = np, !.held = Append(@, w), !.want = NoReq]]

\* template finished: all guards are dropped
Release(t) ==
    /\ th[t].tpl # 0 /\ th[t].want = NoReq
    /\ LET h == th[t].held
           dec(l) == Cardinality({ j \in 1..Len(h) : <<h[j].map, h[j].shard>> = l /\ h[j].mode = "R" })
           wr(l) == \E j \in 1..Len(h) : <<h[j].map, h[j].shard>> = l /\ h[j].mode = "W"
       IN  locks' = [l \in LockIds |-> [readers |-> locks[l].readers - dec(l),
                                        writer |-> locks[l].writer /\ ~wr(l)]]
    /\ th' = [th EXCEPT ![t] = Idle]

Next == \E t \in Threads : Start(t) \/ Acquire(t) \/ Release(t)
Spec == Init /\ [][Next]_vars

----------------------------------------------------------------------------
Blocked(t) == th[t].want # NoReq /\ ~Compatible(<<th[t].want.map, th[t].want.shard>>, th[t].want.mode)
Holds(u, l) == \E j \in 1..Len(th[u].held) : <<th[u].held[j].map, th[u].held[j].shard>> = l
\* threads whose request can never be granted: blocked, and every holder of the wanted lock is stuck too
RECURSIVE Stuck(_)
Stuck(S) ==
    LET S2 == { t \in S : Blocked(t) /\ \A u \in Threads : Holds(u, <<th[t].want.map, th[t].want.shard>>) => u \in S }
    IN  IF S2 = S THEN S ELSE Stuck(S2)
NoDeadlock == Stuck({ t \in Threads : Blocked(t) }) = {}
=============================================================================
