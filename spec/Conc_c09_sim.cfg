CONSTANTS
  Files <- CFiles
  Dirs <- CDirs
  DirOf <- CDirOf
  ParentOf <- CParentOf
  RoleOf <- CRoleOf
  CNames <- CNamesMC
  Threads = {1, 2}
  Shards = {0, 1}
  Scenarios <- Scen09Sim
SPECIFICATION Spec
CHECK_DEADLOCK FALSE
INVARIANTS
  Serializable
  NoDanglingC
  MirrorC
  EmitSchedule
