SPECIFICATION Spec
CHECK_DEADLOCK FALSE
INVARIANTS
  SMirror
  SUbfKeyed
  SNoDangling
  SDefKeyed
  SRanges
POSTCONDITION TraceAccepted
