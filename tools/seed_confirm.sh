#!/bin/bash
# Confirms a seeded change delivered by a sub-agent, in a scratch worktree outside /repo and /verif:
#   usage: seed_confirm.sh <seed dir containing patch.diff, demo.rs|demo.py, meta.json>
# Checks: patch applies; full test-suite passes with it; demo fails with it; demo passes without it.
# Prints one line: CONFIRMED|REJECTED <dir> <details>
set -u
SD="$1"
WT=/tmp/seedverify
if [ ! -d "$WT" ]; then git -C /repo worktree add -q --detach "$WT" HEAD || exit 2; fi
cd "$WT" || exit 2
git checkout -q --detach "$(git -C /repo rev-parse HEAD)" 2>/dev/null
git checkout -q -- . ; rm -f tests/seed_demo_*.rs
export CARGO_NET_OFFLINE=true
ok_apply=no; tests_pass=no; demo_fails=no; demo_passes_clean=no
demo_rs="$SD/demo.rs"; demo_py="$SD/demo.py"
[ -f "$SD/demo_rebased.rs" ] && demo_rs="$SD/demo_rebased.rs"
[ -f "$SD/demo_rebased.py" ] && demo_py="$SD/demo_rebased.py"
PATCH="$SD/patch.diff"; [ -f "$SD/patch_rebased.diff" ] && PATCH="$SD/patch_rebased.diff"
run_demo() {
  if [ -f "$demo_rs" ]; then
    cp "$demo_rs" tests/seed_demo_x.rs
    cargo test --offline --test seed_demo_x >/tmp/seedverify.demo.log 2>&1; rc=$?
    rm -f tests/seed_demo_x.rs
    return $rc
  elif [ -f "$demo_py" ]; then
    cargo build --offline >/dev/null 2>&1
    python3 "$demo_py" "$WT/target/debug/pytest-language-server" >/tmp/seedverify.demo.log 2>&1
    return $?
  fi
  return 99
}
run_demo; r0=$?
[ $r0 -eq 0 ] && demo_passes_clean=yes
if git apply "$PATCH" 2>/tmp/seedverify.apply.log || git apply --3way "$PATCH" 2>>/tmp/seedverify.apply.log; then ok_apply=yes; fi
if [ $ok_apply = yes ]; then
  if cargo test --workspace --no-fail-fast --offline >/tmp/seedverify.test.log 2>&1; then tests_pass=yes; fi
  run_demo; r1=$?
  [ $r1 -ne 0 ] && [ $r1 -ne 99 ] && demo_fails=yes
fi
git checkout -q -- . ; git reset -q --hard >/dev/null 2>&1
if [ $ok_apply = yes ] && [ $tests_pass = yes ] && [ $demo_fails = yes ] && [ $demo_passes_clean = yes ]; then
  echo "CONFIRMED $SD"
else
  echo "REJECTED $SD apply=$ok_apply tests_pass=$tests_pass demo_fails=$demo_fails demo_passes_clean=$demo_passes_clean"
fi
