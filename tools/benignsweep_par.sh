#!/bin/bash
# parallel sweep: every quick check against every behaviour-preserving refactoring (benign/<i>), N scratch worktrees under /tmp
cd "$(dirname "$0")/.." || exit 2
N=${1:-3}
ids=( $(ls -d benign/*/ | xargs -n1 basename | sort -n) )
for k in $(seq 0 $((N-1))); do
  (
    for i in "${!ids[@]}"; do
      if [ $((i % N)) -eq $k ]; then
        BENIGN_WT=/tmp/benignrepo$k BENIGN_TAG=benign$k python3 tools/benignrun.py ${ids[$i]} 2>&1 | cut -c1-300
      fi
    done
  ) > /tmp/benignsweep_$k.log 2>&1 &
done
wait
