CONSTANTS
  MaxLen = 1
  Part = "stale"
SPECIFICATION Spec
CHECK_DEADLOCK FALSE
INVARIANTS
  TypeOK
  EmitCase
