----------------------------- MODULE Workspace -----------------------------
(***************************************************************************)
(* Abstract workspaces of Python test code and LAYER R: what the user of   *)
(* pytest-language-server is promised (written from the property           *)
(* statements C01..C20 and pytest's documented fixture semantics, never    *)
(* from the implementation).  See DESIGN.md section 2.1 and Appendix A.    *)
(*                                                                         *)
(* A workspace is a function from file slots to abstract modules.  A file  *)
(* slot has a fixed directory and role (constants), so "a layout" is only  *)
(* which slots are present and what they contain.                          *)
(***************************************************************************)
EXTENDS Naturals, Sequences, FiniteSets, TLC

CONSTANTS
    Files,      \* file slots (strings)
    Dirs,       \* directories (strings)
    DirOf,      \* [Files -> Dirs]
    ParentOf,   \* [Dirs -> Dirs \cup {"NODIR"}]
    RoleOf      \* [Files -> {"conftest","test","module","plugin","third"}]

NoDir  == "NODIR"
NoFile == "NOFILE"

(***************************************************************************)
(* Items of a module, in source order.  All items share one record shape   *)
(* so that TLC can compare them.                                           *)
(*   def     : fixture function  `@pytest.fixture(scope=..,autouse=..)`    *)
(*             `def name(deps..)`                                          *)
(*   test    : `def name(deps..)` with usefixtures marks on the function   *)
(*             (marks), on the enclosing class (cmarks) and indirect       *)
(*             parametrize names (ind)                                     *)
(*   star    : `from .mod import *`         imp : `from .mod import name`  *)
(*   plugins : `pytest_plugins = ["mod"]`   helper : plain `def name()`    *)
(*   pmark   : `pytestmark = pytest.mark.usefixtures(marks..)`             *)
(*   testb   : a test whose BODY uses names (`ind` field, as call targets)  *)
(*             without declaring them: material of the undeclared-fixture   *)
(*             scan (its findings are part of the index state)             *)
(***************************************************************************)
Item(k, name, deps, scope, autouse, mod, marks, cmarks, ind) ==
    [k |-> k, name |-> name, deps |-> deps, scope |-> scope, autouse |-> autouse,
     mod |-> mod, marks |-> marks, cmarks |-> cmarks, ind |-> ind]
Def(n, deps, sc, au) == Item("def", n, deps, sc, au, "-", <<>>, <<>>, <<>>)
PlainDef(n, deps)    == Def(n, deps, 0, FALSE)
Test(n, params)      == Item("test", n, params, 0, FALSE, "-", <<>>, <<>>, <<>>)
TestM(n, params, marks, cmarks, ind) == Item("test", n, params, 0, FALSE, "-", marks, cmarks, ind)
TestB(n, params, body) == Item("testb", n, params, 0, FALSE, "-", <<>>, <<>>, body)
Star(m)     == Item("star", "-", <<>>, 0, FALSE, m, <<>>, <<>>, <<>>)
Imp(m, n)   == Item("imp", n, <<>>, 0, FALSE, m, <<>>, <<>>, <<>>)
\* `from .mod import orig as alias`: name = alias, marks = <<orig>>
ImpAs(m, orig, alias) == Item("impas", alias, <<>>, 0, FALSE, m, <<orig>>, <<>>, <<>>)
\* spelled imports (C14): the `scope` field of an import item is the spelling code
\*   0 = relative level 1 (`.mod`), 1 = absolute (`mod`), 2 = relative level 2 (`..mod`)
Spelled(it, code) == [it EXCEPT !.scope = code]
Plugins(m)  == Item("plugins", "-", <<>>, 0, FALSE, m, <<>>, <<>>, <<>>)
Helper(n)   == Item("helper", n, <<>>, 0, FALSE, "-", <<>>, <<>>, <<>>)
PMark(ms)   == Item("pmark", "-", <<>>, 0, FALSE, "-", ms, <<>>, <<>>)

Module(items) == [present |-> TRUE, valid |-> TRUE, items |-> items]
Broken(items) == [present |-> TRUE, valid |-> FALSE, items |-> items]  \* unparsable text
Absent        == [present |-> FALSE, valid |-> TRUE, items |-> <<>>]

(* Identities.  A definition is (file, item index); "no definition" is a   *)
(* typed sentinel because TLC refuses to compare a record with a string.   *)
DefId(f, i) == [file |-> f, idx |-> i]
NoDef       == [file |-> NoFile, idx |-> 0]

(* A usage is (file, item index, usage kind, position in that list).       *)
(*   uk: "p" parameter, "m" usefixtures on function, "c" usefixtures on    *)
(*   class, "i" indirect parametrize, "pm" pytestmark                      *)
UseId(f, i, uk, ui) == [file |-> f, idx |-> i, uk |-> uk, ui |-> ui]

Max(S) == CHOOSE x \in S : \A y \in S : y <= x
Min(S) == CHOOSE x \in S : \A y \in S : x <= y

RECURSIVE Chain(_)
Chain(d) == IF d = NoDir THEN <<>> ELSE <<d>> \o Chain(ParentOf[d])   \* nearest first

ConftestAt(d) ==
    IF \E f \in Files : RoleOf[f] = "conftest" /\ DirOf[f] = d
    THEN CHOOSE f \in Files : RoleOf[f] = "conftest" /\ DirOf[f] = d
    ELSE NoFile

ItemIdx(ws, f) == 1..Len(ws[f].items)

AllUsages(ws) ==
    UNION { UNION { LET it == ws[f].items[i] IN
                    CASE it.k = "def"  -> { UseId(f, i, "p", j) : j \in 1..Len(it.deps) }
                      [] it.k = "test" -> { UseId(f, i, "p", j) : j \in 1..Len(it.deps) }
                                          \cup { UseId(f, i, "m", j) : j \in 1..Len(it.marks) }
                                          \cup { UseId(f, i, "c", j) : j \in 1..Len(it.cmarks) }
                                          \cup { UseId(f, i, "i", j) : j \in 1..Len(it.ind) }
                      [] it.k = "testb" -> { UseId(f, i, "p", j) : j \in 1..Len(it.deps) }
                      [] it.k = "pmark" -> { UseId(f, i, "pm", j) : j \in 1..Len(it.marks) }
                      [] OTHER -> {}
                  : i \in ItemIdx(ws, f) }
          : f \in {g \in Files : ws[g].present /\ ws[g].valid} }

UseName(ws, u) ==
    LET it == ws[u.file].items[u.idx] IN
    CASE u.uk = "p" -> it.deps[u.ui]
      [] u.uk = "m" -> it.marks[u.ui]
      [] u.uk = "pm" -> it.marks[u.ui]
      [] u.uk = "c" -> it.cmarks[u.ui]
      [] u.uk = "i" -> it.ind[u.ui]

(* A.1: a fixture requesting its own name excludes itself.                 *)
ExclOf(ws, u) ==
    LET it == ws[u.file].items[u.idx] IN
    IF it.k = "def" /\ u.uk = "p" /\ it.deps[u.ui] = it.name THEN DefId(u.file, u.idx) ELSE NoDef

AllDefs(ws) ==
    UNION { { DefId(f, i) : i \in { j \in ItemIdx(ws, f) : ws[f].items[j].k = "def" } }
          : f \in {g \in Files : ws[g].present /\ ws[g].valid} }
DefItem(ws, D) == ws[D.file].items[D.idx]

DefsIn(ws, f, n) ==
    IF ~ws[f].present THEN {}
    ELSE { i \in ItemIdx(ws, f) : ws[f].items[i].k = "def" /\ ws[f].items[i].name = n }

LastDefIn(ws, f, n, excl) ==
    LET S == { i \in DefsIn(ws, f, n) : DefId(f, i) # excl }
    IN  IF S = {} THEN NoDef ELSE DefId(f, Max(S))

(***************************************************************************)
(* A.2  What a module provides under a name: its own last definition,      *)
(* otherwise what its last delivering import statement delivers (least     *)
(* fixpoint over the import graph; `seen` cuts cycles).                    *)
(***************************************************************************)
LastPluginsIdx(ws, f) ==
    LET S == { i \in ItemIdx(ws, f) : ws[f].items[i].k = "plugins" }
    IN  IF S = {} THEN 0 ELSE Max(S)

RECURSIVE PyProvides(_, _, _, _), PyViaImports(_, _, _, _)
PyProvides(ws, f, n, seen) ==
    IF f = NoFile \/ f \in seen THEN NoDef
    ELSE IF ~ws[f].present THEN NoDef
    ELSE LET own == LastDefIn(ws, f, n, NoDef)
         IN  IF own # NoDef THEN own ELSE PyViaImports(ws, f, n, seen)
PyViaImports(ws, f, n, seen) ==
    LET its == ws[f].items
        Deliver(i) ==
            CASE its[i].k = "star" -> PyProvides(ws, its[i].mod, n, seen \cup {f})
              [] its[i].k = "imp" /\ its[i].name = n -> PyProvides(ws, its[i].mod, n, seen \cup {f})
              [] its[i].k = "impas" /\ its[i].name = n -> PyProvides(ws, its[i].mod, its[i].marks[1], seen \cup {f})
              [] its[i].k = "plugins" /\ i = LastPluginsIdx(ws, f)
                                      -> PyProvides(ws, its[i].mod, n, seen \cup {f})
              [] OTHER -> NoDef
        S == { i \in 1..Len(its) : Deliver(i) # NoDef }
    IN  IF S = {} THEN NoDef ELSE Deliver(Max(S))

(* files a module reaches through imports (for the negative clause of C01) *)
RECURSIVE ImportClosure(_, _, _)
ImportClosure(ws, f, seen) ==
    IF f = NoFile \/ f \in seen \/ ~ws[f].present THEN {}
    ELSE {f} \cup UNION { ImportClosure(ws, ws[f].items[i].mod, seen \cup {f})
                          : i \in { j \in ItemIdx(ws, f) : ws[f].items[j].k \in {"star", "imp", "impas"}
                                                           \/ (ws[f].items[j].k = "plugins" /\ j = LastPluginsIdx(ws, f)) } }

PluginFiles(ws) == { f \in Files : RoleOf[f] = "plugin" /\ ws[f].present }
ThirdFiles(ws)  == { f \in Files : RoleOf[f] = "third"  /\ ws[f].present }

(***************************************************************************)
(* A.3  Resolution.  The result is the SET of acceptable answers: a        *)
(* singleton except where the statement names no winner (several plugin or *)
(* several third-party definitions of one name).                           *)
(***************************************************************************)
PyLevel(ws, U, c, n) ==
    IF c = NoFile THEN NoDef
    ELSE IF ~ws[c].present THEN NoDef
    ELSE IF c = U THEN PyViaImports(ws, c, n, {})    \* own definitions were step 1
    ELSE PyProvides(ws, c, n, {})

PyResolveSet(ws, U, n, excl) ==
    LET own   == LastDefIn(ws, U, n, excl)
        \* a module's namespace also holds what the module itself imports (test modules: C14)
        same  == IF own # NoDef \/ RoleOf[U] = "conftest" THEN own ELSE PyViaImports(ws, U, n, {})
        chain == Chain(DirOf[U])
        lvl(j) == PyLevel(ws, U, ConftestAt(chain[j]), n)
        hits  == { j \in 1..Len(chain) : lvl(j) # NoDef }
        plug  == { LastDefIn(ws, f, n, excl) : f \in PluginFiles(ws) } \ {NoDef}
        third == { LastDefIn(ws, f, n, excl) : f \in ThirdFiles(ws) } \ {NoDef}
    IN  IF same # NoDef THEN {same}
        ELSE IF hits # {} THEN { lvl(Min(hits)) }
        ELSE IF plug # {} THEN plug
        ELSE IF third # {} THEN third
        ELSE {NoDef}

PyResolveUse(ws, u) == PyResolveSet(ws, u.file, UseName(ws, u), ExclOf(ws, u))

(* Negative clause: files whose definitions may ever be returned to U.     *)
VisibleFiles(ws, U) ==
    \* U itself and what U's own import statements reach (A.2: a module's namespace holds what it imports)
    {U} \cup ImportClosure(ws, U, {}) \cup UNION { ImportClosure(ws, ConftestAt(Chain(DirOf[U])[j]), {})
                     : j \in 1..Len(Chain(DirOf[U])) }
        \cup PluginFiles(ws) \cup ThirdFiles(ws)

(* A.4 derived notions *)
PyRefs(ws, D) == { u \in AllUsages(ws) : D \in PyResolveUse(ws, u) }
PyVisibleNames(ws, f, names) == { n \in names : PyResolveSet(ws, f, n, NoDef) # {NoDef} }

PyUnused(ws) ==
    { D \in AllDefs(ws) : RoleOf[D.file] # "third" /\ ~DefItem(ws, D).autouse /\ PyRefs(ws, D) = {} }

(* The CLI identifies a fixture by (file, name): a redefinition in the same file is one entry, and the fixture pytest    *)
(* registers for that entry is the LAST definition (the later binding replaces the earlier one in the module).          *)
(* Unused = project, the entry's last definition is not autouse, no usage resolves to any definition of the entry.      *)
PyUnusedNames(ws) ==
    { [file |-> D.file, name |-> DefItem(ws, D).name] : D \in
        { X \in AllDefs(ws) :
            /\ RoleOf[X.file] # "third"
            /\ ~DefItem(ws, LastDefIn(ws, X.file, DefItem(ws, X).name, NoDef)).autouse
            /\ \A Y \in AllDefs(ws) :
                  (Y.file = X.file /\ DefItem(ws, Y).name = DefItem(ws, X).name) => PyRefs(ws, Y) = {} } }

(* Dependency edges of a definition: each parameter resolved from its file *)
PyDepTargets(ws, D) ==
    LET it == DefItem(ws, D) IN
    { [dep |-> it.deps[j],
       to  |-> PyResolveSet(ws, D.file, it.deps[j], IF it.deps[j] = it.name THEN D ELSE NoDef)]
      : j \in 1..Len(it.deps) }
=============================================================================
