CONSTANTS
  Group = "fix"
SPECIFICATION Spec
CHECK_DEADLOCK FALSE
INVARIANTS
  NeverFlagInvisible
  ParamsLocalsNeverFlagged
  EmitCase
