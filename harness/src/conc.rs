//! Scheduled multi-threaded executions against the instrumented DashMap (C09, C10, C12).
pub fn main(_args: &[String]) {
    eprintln!("conc: not built yet");
    std::process::exit(2);
}
