CONSTANTS
  Group = "params"
SPECIFICATION Spec
CHECK_DEADLOCK FALSE
INVARIANTS
  RulesConsistent
  EmitCase
