"""Minimal LSP client driving the REAL server binary over stdio (DESIGN.md B1.3).
One server process per case; every request gets exactly one response or the watchdog fires."""
import json
import os
import queue
import subprocess
import threading
import time

import common as C

# Every session's message log (wire order per direction, causally consistent across directions: a client message is logged,
# under the same lock, BEFORE it is written; a server message when it has been read) is collected here when COLLECT is on
# and validated by TLC against spec/LspTrace.tla (tools/lsptrace.py).  No wall-clock time is involved.
COLLECT = True
SESSIONS = []
_SLOCK = threading.Lock()


# circuit breaker: a server that stops answering costs one watchdog period per request; once it has happened in
# FAIL_LIMIT sessions of a check the remaining sessions are not started (their result says so), so a check against a wedged
# server ends in minutes, not hours
FAIL_COUNT = [0]
FAIL_LIMIT = 24


class ServerDied(Exception):
    def __init__(self, *a):
        Exception.__init__(self, *a)
        FAIL_COUNT[0] += 1


class Timeout(Exception):
    def __init__(self, *a):
        Exception.__init__(self, *a)
        FAIL_COUNT[0] += 1


def path_to_uri(p):
    from urllib.parse import quote
    return "file://" + quote(p)


def uri_to_path(u):
    from urllib.parse import unquote
    assert u.startswith("file://"), u
    return unquote(u[len("file://"):])


class Server:
    def __init__(self, binary=None, env=None, cwd=None, timeout=20.0, trace=None, reply_delay=0.0):
        self.timeout = timeout
        self.reply_delay = reply_delay      # a slow client: server->client requests are answered only after this many seconds
        if trace is None and COLLECT:
            trace = []
        self.trace = trace          # optional list collecting {"dir","method","id",..} events
        self.tlock = threading.Lock()
        self.meta = {"root": False, "cfg": None}     # what LspTrace's reset event carries
        self.ended = False
        self.proc = subprocess.Popen([binary or C.SERVER_BIN], stdin=subprocess.PIPE, stdout=subprocess.PIPE,
                                     stderr=subprocess.DEVNULL, env=C.scrubbed_env(env), cwd=cwd)
        self.next_id = 1
        self.responses = {}
        self.cv = threading.Condition()
        self.diagnostics = {}       # uri -> list of published diagnostic lists (in order)
        self.logs = []
        self.eof = False
        self.server_requests = 0
        self.wlock = threading.Lock()
        self.reader = threading.Thread(target=self._read_loop, daemon=True)
        self.reader.start()

    # --- wire
    def _log(self, ev):
        if self.trace is not None:
            with self.tlock:
                self.trace.append(ev)

    def _send(self, msg, ev=None):
        data = json.dumps(msg, separators=(",", ":")).encode("utf-8")
        with self.wlock:
            if ev is not None:
                self._log(ev)
            try:
                self.proc.stdin.write(b"Content-Length: %d\r\n\r\n" % len(data) + data)
                self.proc.stdin.flush()
            except (BrokenPipeError, OSError):
                raise ServerDied("write failed")

    def _read_loop(self):
        f = self.proc.stdout
        try:
            while True:
                length = None
                while True:
                    line = f.readline()
                    if not line:
                        raise EOFError
                    line = line.strip()
                    if not line:
                        break
                    if line.lower().startswith(b"content-length:"):
                        length = int(line.split(b":")[1])
                body = f.read(length)
                if len(body) < length:
                    raise EOFError
                msg = json.loads(body)
                self._dispatch(msg)
        except (EOFError, ValueError, OSError):
            with self.cv:
                self.eof = True
                self.cv.notify_all()

    def _dispatch(self, msg):
        if "method" in msg and "id" in msg:
            # server -> client request (e.g. workspace/inlayHint/refresh): always answer
            self.server_requests += 1
            self._log({"dir": "s2c", "method": msg["method"], "id": msg["id"]})

            def reply(mid=msg["id"]):
                try:
                    self._send({"jsonrpc": "2.0", "id": mid, "result": None}, {"dir": "c2s", "method": "response", "id": mid})
                except (ServerDied, ValueError):      # ValueError: the session was closed before a delayed reply was due
                    pass
            if self.reply_delay:
                t = threading.Timer(self.reply_delay, reply)
                t.daemon = True
                t.start()
            else:
                reply()
            return
        with self.cv:
            if "method" in msg:
                m = msg["method"]
                ev = {"dir": "s2c", "method": m}
                if m == "textDocument/publishDiagnostics":
                    self.diagnostics.setdefault(msg["params"]["uri"], []).append(msg["params"]["diagnostics"])
                    ev["uri"] = msg["params"]["uri"]
                    ev["codes"] = [str(d.get("code")) for d in msg["params"]["diagnostics"]]
                elif m == "window/logMessage":
                    self.logs.append(msg["params"].get("message", ""))
                    ev["message"] = msg["params"].get("message", "")[:80]
                self._log(ev)
            elif "id" in msg:
                self._log({"dir": "s2c", "method": "response", "id": msg["id"], "error": "error" in msg})
                self.responses[msg["id"]] = msg
            self.cv.notify_all()

    # --- protocol
    def request(self, method, params, timeout=None):
        i = self.next_id
        self.next_id += 1
        self._send({"jsonrpc": "2.0", "id": i, "method": method, "params": params}, {"dir": "c2s", "method": method, "id": i})
        deadline = time.time() + (timeout or self.timeout)
        with self.cv:
            while i not in self.responses:
                if self.eof:
                    raise ServerDied("EOF while waiting for %s (exit status %r)" % (method, self.proc.poll()))
                left = deadline - time.time()
                if left <= 0:
                    raise Timeout("no response to %s within %.0fs" % (method, timeout or self.timeout))
                self.cv.wait(left)
            msg = self.responses.pop(i)
        if "error" in msg:
            return {"__error__": msg["error"]}
        return msg.get("result")

    def notify(self, method, params, tag=None):
        ev = {"dir": "c2s", "method": method}
        if isinstance(params, dict) and isinstance(params.get("textDocument"), dict):
            ev["uri"] = params["textDocument"].get("uri")
            ev["nchanges"] = len(params.get("contentChanges", [])) if "contentChanges" in params else 1
        if tag is not None:
            ev["tag"] = tag         # abstract (document, version) label of the specification, when the caller has one
        self._send({"jsonrpc": "2.0", "method": method, "params": params}, ev)

    def initialize(self, root=None, wait_scan=True):
        params = {"processId": None, "capabilities": {}, "rootUri": path_to_uri(root) if root else None}
        if root:
            params["workspaceFolders"] = [{"uri": path_to_uri(root), "name": "ws"}]
        self.meta["root"] = bool(root)
        r = self.request("initialize", params)
        self.notify("initialized", {})
        if root and wait_scan:
            self.wait_log("Workspace scan complete", also_fail="Workspace scan failed")
        return r

    def wait_log(self, text, also_fail=None, timeout=None):
        deadline = time.time() + (timeout or self.timeout)
        with self.cv:
            while True:
                for m in self.logs:
                    if text in m:
                        return True
                    if also_fail and also_fail in m:
                        return False
                if self.eof:
                    raise ServerDied("EOF while waiting for log %r" % text)
                left = deadline - time.time()
                if left <= 0:
                    raise Timeout("log message %r not seen" % text)
                self.cv.wait(left)

    def did_open(self, path, text, version=1, wait_diag=True, tag=None):
        uri = path_to_uri(path)
        n = len(self.diagnostics.get(uri, []))
        self.notify("textDocument/didOpen", {"textDocument": {"uri": uri, "languageId": "python", "version": version, "text": text}}, tag=tag)
        return self.wait_diag(uri, n) if wait_diag else None

    def did_change(self, path, text, version=2, wait_diag=True, tag=None):
        uri = path_to_uri(path)
        n = len(self.diagnostics.get(uri, []))
        self.notify("textDocument/didChange", {"textDocument": {"uri": uri, "version": version},
                                               "contentChanges": [{"text": text}]}, tag=tag)
        return self.wait_diag(uri, n) if wait_diag else None

    def did_close(self, path):
        self.notify("textDocument/didClose", {"textDocument": {"uri": path_to_uri(path)}})

    def wait_diag(self, uri, n_before, timeout=None):
        """every didOpen/didChange yields exactly one publishDiagnostics for that uri"""
        deadline = time.time() + (timeout or self.timeout)
        with self.cv:
            while len(self.diagnostics.get(uri, [])) <= n_before:
                if self.eof:
                    raise ServerDied("EOF while waiting for diagnostics")
                left = deadline - time.time()
                if left <= 0:
                    raise Timeout("no publishDiagnostics for %s" % uri)
                self.cv.wait(left)
            return self.diagnostics[uri][-1]

    def pos_request(self, method, path, line, col, extra=None):
        p = {"textDocument": {"uri": path_to_uri(path)}, "position": {"line": line, "character": col}}
        if extra:
            p.update(extra)
        return self.request(method, p)

    def doc_request(self, method, path, extra=None):
        p = {"textDocument": {"uri": path_to_uri(path)}}
        if extra:
            p.update(extra)
        return self.request(method, p)

    def alive(self):
        return self.proc.poll() is None and not self.eof

    def close(self):
        was_alive = self.alive()
        try:
            self._close()
        finally:
            if not self.ended:
                self.ended = True
                self._log({"dir": "end", "method": "end", "code": self.proc.poll(), "alive_before_close": was_alive})
                if COLLECT and self.trace is not None:
                    with _SLOCK:
                        SESSIONS.append({"meta": dict(self.meta), "trace": self.trace})

    def _close(self):
        try:
            if self.alive():
                try:
                    self.request("shutdown", None, timeout=10)
                    self.notify("exit", None)
                except Exception:
                    pass
            self.proc.stdin.close()
        except Exception:
            pass
        try:
            self.proc.wait(timeout=10)
        except Exception:
            self.proc.kill()
            self.proc.wait()
        try:
            self.proc.stdout.close()
        except Exception:
            pass


def run_parallel(jobs, fn, workers=8):
    """fn(job) -> result; keeps order"""
    results = [None] * len(jobs)
    q = queue.Queue()
    for i, j in enumerate(jobs):
        q.put((i, j))

    def work():
        while True:
            try:
                i, j = q.get_nowait()
            except queue.Empty:
                return
            if FAIL_COUNT[0] >= FAIL_LIMIT:
                results[i] = {"error": "session not started: the server already died or stopped answering %d times in this check" % FAIL_COUNT[0],
                              "skipped": True}
                continue
            try:
                results[i] = fn(j)
            except Exception as e:  # tool-level trouble is data for the caller
                results[i] = {"__exception__": "%s: %s" % (type(e).__name__, e)}

    ts = [threading.Thread(target=work) for _ in range(workers)]
    for t in ts:
        t.start()
    for t in ts:
        t.join()
    return results


def run_cli(args, cwd=None, env=None, timeout=60):
    p = subprocess.run([C.SERVER_BIN] + args, cwd=cwd, env=C.scrubbed_env(env), stdout=subprocess.PIPE,
                       stderr=subprocess.PIPE, timeout=timeout)
    return p.returncode, p.stdout.decode("utf-8", "replace"), p.stderr.decode("utf-8", "replace")
