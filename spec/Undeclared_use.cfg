CONSTANTS
  Group = "use"
SPECIFICATION Spec
CHECK_DEADLOCK FALSE
INVARIANTS
  NeverFlagInvisible
  ParamsLocalsNeverFlagged
  EmitCase
