------------------------------ MODULE LspTrace ------------------------------
(***************************************************************************)
(* B2 for the LSP layer: message logs of sessions of the REAL server       *)
(* binary (tools/lsp.py; one process per session) are validated against    *)
(*   (a) the protocol obligations of the server as src/main.rs implements  *)
(*       them -- one response per request and never a spurious one, one    *)
(*       publishDiagnostics per didOpen / didChange of a file document and *)
(*       never an unsolicited one, one workspace/inlayHint/refresh request *)
(*       per didChange, the scan's log messages in order and at most once, *)
(*       a clean exit (status 0) after shutdown with nothing unanswered;   *)
(*   (b) Lsp.tla's Notify action for the documents that carry an abstract  *)
(*       (document, version) label: the codes of every publishDiagnostics  *)
(*       must be exactly published'[d] of the specification (C19).         *)
(* A handler is atomic on the server side (tower-lsp polls the handlers on *)
(* one task and analysis is synchronous), but its messages reach the       *)
(* client later: expected publications are queued per document (expq) by   *)
(* the notification event and consumed by the publication event.           *)
(*                                                                         *)
(* Event log order: a client message is logged before it is written, a     *)
(* server message when it has been read, under one lock; there is no       *)
(* wall-clock time anywhere.                                               *)
(*   TRACE=<file> tlc -config LspTrace.cfg LspTrace.tla                    *)
(***************************************************************************)
EXTENDS Lsp, IOUtils

Rec == ndJsonDeserialize(IOEnv.TRACE)

VARIABLES l,          \* position in the log
          phase,      \* "none" | "fresh" | "initializing" | "running" | "down" | "ended"
          pending,    \* client requests not yet answered: set of [id, method]
          sreq,       \* server requests not yet answered by the client: set of ids
          owedPub,    \* uri -> publications still owed (function with a growing domain)
          owedRef,    \* inlay-hint refresh requests still owed (one per didChange of a file document)
          scan,       \* "none" | "running" | "done"
          rooted,     \* initialize carried a workspace root
          expq        \* [Docs -> Seq(SUBSET Codes)] : what Lsp.tla says the owed publications must contain
tvars == <<vars, l, phase, pending, sreq, owedPub, owedRef, scan, rooted, expq>>

SetOf(s) == { s[i] : i \in 1..Len(s) }
Owed(u) == IF u \in DOMAIN owedPub THEN owedPub[u] ELSE 0
SetOwed(u, n) == [k \in DOMAIN owedPub \cup {u} |-> IF k = u THEN n ELSE owedPub[k]]

LspUnchanged == UNCHANGED vars
ProtoUnchanged == UNCHANGED <<phase, pending, sreq, owedPub, owedRef, scan, rooted, expq>>

TInit == /\ l = 1 /\ phase = "none" /\ pending = {} /\ sreq = {} /\ owedPub = <<>> /\ owedRef = 0
         /\ scan = "none" /\ rooted = FALSE /\ expq = [d \in Docs |-> <<>>]
         /\ hist = <<>> /\ ver = [d \in Docs |-> 0] /\ tValid = 0
         /\ cfg = [kind |-> "absent", codes |-> {}]
         /\ published = [d \in Docs |-> {}] /\ undeclAt = FALSE

\* ---- one action per kind of logged event ---------------------------------------------------
Reset(e) ==          \* a new server process
    /\ phase \in {"none", "ended"}
    /\ phase' = "fresh" /\ pending' = {} /\ sreq' = {} /\ owedPub' = <<>> /\ owedRef' = 0
    /\ scan' = "none" /\ rooted' = e.root /\ expq' = [d \in Docs |-> <<>>]
    /\ hist' = <<>> /\ ver' = [d \in Docs |-> 0] /\ tValid' = 0
    /\ cfg' = [kind |-> e.cfg.kind, codes |-> SetOf(e.cfg.codes)]
    /\ published' = [d \in Docs |-> {}] /\ undeclAt' = FALSE

ClientRequest(e) ==
    /\ phase \notin {"none", "ended"}
    /\ \A p \in pending : p.id # e.id
    /\ (e.method = "initialize") = (phase = "fresh")
    /\ phase' = IF e.method = "initialize" THEN "initializing" ELSE phase
    /\ pending' = pending \cup {[id |-> e.id, method |-> e.method]}
    /\ UNCHANGED <<sreq, owedPub, owedRef, scan, rooted, expq>> /\ LspUnchanged

ServerResponse(e) ==                 \* exactly one response per request; never one nobody asked for
    /\ \E p \in pending :
         /\ p.id = e.id
         /\ pending' = pending \ {p}
         /\ phase' = CASE p.method = "initialize" -> "running"
                       [] p.method = "shutdown" -> "down"
                       [] OTHER -> phase
         /\ (p.method \in {"initialize", "shutdown"} => ~e.error)
    /\ UNCHANGED <<sreq, owedPub, owedRef, scan, rooted, expq>> /\ LspUnchanged

Labelled(e) == e.d \in Docs
DocNotification(e) ==                \* didOpen / didChange of a document
    /\ phase \in {"running", "initializing"}
    /\ owedPub' = IF e.file /\ e.nchanges > 0 THEN SetOwed(e.uri, Owed(e.uri) + 1) ELSE owedPub
    /\ owedRef' = IF e.file /\ e.nchanges > 0 /\ e.method = "didChange" THEN owedRef + 1 ELSE owedRef
    /\ IF Labelled(e)
       THEN /\ Notify(e.d, e.v)                                    \* <- Lsp.tla's action
            /\ expq' = [expq EXCEPT ![e.d] = Append(@, published'[e.d])]
       ELSE LspUnchanged /\ expq' = expq
    /\ UNCHANGED <<phase, pending, sreq, scan, rooted>>

OtherNotification(e) ==              \* initialized, didClose (Lsp.tla: Close is a stuttering step), exit
    /\ phase # "none"
    /\ ProtoUnchanged /\ LspUnchanged

Publication(e) ==                    \* never unsolicited; contents as Lsp.tla demands
    /\ Owed(e.uri) > 0
    /\ owedPub' = SetOwed(e.uri, Owed(e.uri) - 1)
    /\ IF Labelled(e)
       THEN /\ expq[e.d] # <<>>
            /\ Head(expq[e.d]) = SetOf(e.codes)
            \* every finding once: a code occurs as often as the latest content has findings of that code
            /\ \A c \in SetOf(e.codes) : Cardinality({ i \in 1..Len(e.codes) : e.codes[i] = c }) = Multiplicity(e.d, ver, c)
            /\ expq' = [expq EXCEPT ![e.d] = Tail(@)]
       ELSE expq' = expq
    /\ UNCHANGED <<phase, pending, sreq, owedRef, scan, rooted>> /\ LspUnchanged

LogMessage(e) ==
    /\ CASE e.cls = "scanning" -> rooted /\ scan = "none" /\ scan' = "running"
         [] e.cls = "scan_complete" -> scan = "running" /\ scan' = "done"
         [] e.cls = "noroot" -> ~rooted /\ scan' = scan
         [] e.cls = "scan_failed" -> FALSE        \* C11: nothing aborts the workspace scan
         [] OTHER -> scan' = scan
    /\ UNCHANGED <<phase, pending, sreq, owedPub, owedRef, rooted, expq>> /\ LspUnchanged

ServerRequest(e) ==
    /\ e.id \notin sreq
    /\ sreq' = sreq \cup {e.id}
    /\ IF e.method = "workspace/inlayHint/refresh"
       THEN owedRef > 0 /\ owedRef' = owedRef - 1            \* only after a didChange
       ELSE owedRef' = owedRef
    /\ UNCHANGED <<phase, pending, owedPub, scan, rooted, expq>> /\ LspUnchanged

ClientResponse(e) ==
    /\ e.id \in sreq /\ sreq' = sreq \ {e.id}
    /\ UNCHANGED <<phase, pending, owedPub, owedRef, scan, rooted, expq>> /\ LspUnchanged

End(e) ==                            \* the process is gone: it ended cleanly and owes no answer
    /\ phase # "none"
    /\ e.clean
    \* every request was answered -- except, possibly, the final `shutdown`: main.rs forces the process to exit 100 ms after the
    \* shutdown handler returned, and on a loaded machine that can overtake the write of the response (observed once in a thorough
    \* run; timing-dependent, so not judged)
    /\ \A p \in pending : p.method = "shutdown"
    /\ e.code = 0
    /\ phase' = "ended"
    /\ UNCHANGED <<pending, sreq, owedPub, owedRef, scan, rooted, expq>> /\ LspUnchanged

TNext ==
    /\ l <= Len(Rec)
    /\ l' = l + 1
    /\ LET e == Rec[l] IN
       CASE e.ev = "reset" -> Reset(e)
         [] e.ev = "req"   -> ClientRequest(e)
         [] e.ev = "resp"  -> ServerResponse(e)
         [] e.ev = "doc"   -> DocNotification(e)
         [] e.ev = "notif" -> OtherNotification(e)
         [] e.ev = "pub"   -> Publication(e)
         [] e.ev = "log"   -> LogMessage(e)
         [] e.ev = "sreq"  -> ServerRequest(e)
         [] e.ev = "sresp" -> ClientResponse(e)
         [] e.ev = "end"   -> End(e)
         [] OTHER -> FALSE
TSpec == TInit /\ [][TNext]_tvars

\* ---- invariants evaluated in every state of every validated session
\* Lsp.tla's own invariants (C19)
TConfigExact == ConfigExact
TPartialConfigKeepsRest == PartialConfigKeepsRest
\* the specification never owes a negative number of messages
TOwedSane == owedRef >= 0 /\ \A u \in DOMAIN owedPub : owedPub[u] >= 0

TraceAccepted ==
    LET d == TLCGet("stats").diameter - 1 IN
    IF d = Len(Rec) THEN TRUE
    ELSE Print(<<"TRACE-REJECTED first unmatched event (1-based line)", d + 1, Rec[d + 1]>>, FALSE)
=============================================================================
