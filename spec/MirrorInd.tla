----------------------------- MODULE MirrorInd -----------------------------
(***************************************************************************)
(* Unbounded safety of the index's redundancy, at SET granularity.         *)
(*                                                                         *)
(* Index.tla / HistoryTrace.tla / SuiteTrace.tla check `Mirror`,           *)
(* `NoDangling` and `DefKeyed` in every state TLC reaches within small     *)
(* bounds and in every state of recorded real executions.  This module     *)
(* states the same three invariants over the SET abstraction of the four   *)
(* shared maps (order and multiplicity forgotten) and lets Apalache prove   *)
(* them INDUCTIVE: Init => Inv, and Inv /\ Next => Inv' -- hence for        *)
(* histories of ANY length, from ANY state satisfying Inv (reachable or    *)
(* not); the carrier sets are fixed by MC_MirrorInd (4 files, 3 names).    *)
(*                                                                         *)
(* Actions = the critical sections of analyze_file_internal as Index.tla   *)
(* models them (AnalyzeFnD): the clean-up path (editor notifications),     *)
(* the scan's fresh path (enabled only for a file without records: the     *)
(* scanner's guard; without the guard the step is the recorded deviation   *)
(* scan_no_cleanup_same_file and Mirror is NOT preserved -- see            *)
(* FreshUnguarded, used by the negative control), and a parse failure.     *)
(***************************************************************************)
EXTENDS Integers, FiniteSets

CONSTANTS
    \* @type: Set(FILE);
    Files,
    \* @type: Set(NAME);
    Names

VARIABLES
    \* definitions: fixture name -> definitions, as pairs
    \* @type: Set(<<NAME, FILE>>);
    defs,
    \* file_definitions: file -> names it defines
    \* @type: Set(<<FILE, NAME>>);
    fdefs,
    \* usages: file -> names it requests
    \* @type: Set(<<FILE, NAME>>);
    uses,
    \* usage_by_fixture: name -> files requesting it
    \* @type: Set(<<NAME, FILE>>);
    ubf

\* @type: <<Set(<<NAME, FILE>>), Set(<<FILE, NAME>>), Set(<<FILE, NAME>>), Set(<<NAME, FILE>>)>>;
vars == <<defs, fdefs, uses, ubf>>

Init == defs = {} /\ fdefs = {} /\ uses = {} /\ ubf = {}

\* the reverse usage index mirrors the forward map
Mirror == /\ \A p \in uses : <<p[2], p[1]>> \in ubf
          /\ \A q \in ubf : <<q[2], q[1]>> \in uses
\* file_definitions is keyed exactly by what definitions holds
DefKeyed == /\ \A p \in fdefs : <<p[2], p[1]>> \in defs
            /\ \A q \in defs : <<q[2], q[1]>> \in fdefs
TypeOK == /\ defs \subseteq (Names \X Files) /\ ubf \subseteq (Names \X Files)
          /\ fdefs \subseteq (Files \X Names) /\ uses \subseteq (Files \X Names)
Inv == TypeOK /\ Mirror /\ DefKeyed

HasRecords(f) == (\E p \in uses : p[1] = f) \/ (\E p \in fdefs : p[1] = f)
                 \/ (\E q \in ubf : q[2] = f) \/ (\E q \in defs : q[2] = f)

\* clean-up path: drop every record of f from the four maps, then record what the text declares
AnalyzeCleanup(f, D, U) ==
    /\ defs'  = {q \in defs  : q[2] # f} \union {<<n, f>> : n \in D}
    /\ fdefs' = {p \in fdefs : p[1] # f} \union {<<f, n>> : n \in D}
    /\ uses'  = {p \in uses  : p[1] # f} \union {<<f, n>> : n \in U}
    /\ ubf'   = {q \in ubf   : q[2] # f} \union {<<n, f>> : n \in U}

\* the scan's fresh path: nothing is removed (usages[f] is overwritten, the other three maps are appended to);
\* the scanner only takes it for a file it has not analysed yet
AnalyzeFresh(f, D, U) ==
    /\ ~HasRecords(f)
    /\ defs'  = defs  \union {<<n, f>> : n \in D}
    /\ fdefs' = fdefs \union {<<f, n>> : n \in D}
    /\ uses'  = {p \in uses : p[1] # f} \union {<<f, n>> : n \in U}
    /\ ubf'   = ubf   \union {<<n, f>> : n \in U}

\* the same step WITHOUT the guard (deviation scan_no_cleanup_same_file): negative control, must break Mirror
FreshUnguarded(f, D, U) ==
    /\ defs'  = defs  \union {<<n, f>> : n \in D}
    /\ fdefs' = fdefs \union {<<f, n>> : n \in D}
    /\ uses'  = {p \in uses : p[1] # f} \union {<<f, n>> : n \in U}
    /\ ubf'   = ubf   \union {<<n, f>> : n \in U}

ParseFailure == UNCHANGED vars

Next == \/ \E f \in Files : \E D \in SUBSET Names : \E U \in SUBSET Names :
             AnalyzeCleanup(f, D, U) \/ AnalyzeFresh(f, D, U)
        \/ ParseFailure
NextBroken == \/ Next
              \/ \E f \in Files : \E D \in SUBSET Names : \E U \in SUBSET Names : FreshUnguarded(f, D, U)

\* for the inductive step: any state satisfying Inv
IndInit == /\ defs \in SUBSET (Names \X Files) /\ ubf \in SUBSET (Names \X Files)
           /\ fdefs \in SUBSET (Files \X Names) /\ uses \in SUBSET (Files \X Names)
           /\ Mirror /\ DefKeyed
=============================================================================
