CONSTANTS
  Files <- HFiles
  Dirs <- HDirs
  DirOf <- HDirOf
  ParentOf <- HParentOf
  RoleOf <- HRoleOf
  HNames <- HNamesMC
  VersionsOf <- HVersions
  DiskOf <- HNoDisk
  EventKinds <- HKindsEdit
  MaxLen = 4
  MaxQueries = 0
SPECIFICATION Spec
CHECK_DEADLOCK FALSE
PROPERTIES
  RefinesMirrorInd
INVARIANTS
  AbsInv
  HistoryIndependent
  UndeclIndependent
  RepairedHistoryIndependent
  MirrorAlways
  NoDangling
  EmitHist
  EmitTables
